"""Equivalence check for refactoring 4 (`ceos_alos2.sar_image.filename_to_groupname`).

Run as ``python equiv.py`` (or through pytest). The outcomes in ``EXPECTED`` were
recorded from the unchanged code (``python equiv.py --record``).
"""

import itertools
import pathlib
import struct
import sys

import fsspec

from ceos_alos2 import sar_image
from ceos_alos2.hierarchy import Group, Variable


def failure(e):
    cause = type(e.__cause__).__name__ if e.__cause__ is not None else None
    context = type(e.__context__).__name__ if e.__context__ is not None else None
    return f"raises {type(e).__name__}: {e} (cause: {cause}, context: {context})"


def outcome(path):
    try:
        result = sar_image.filename_to_groupname(path)
    except BaseException as e:  # noqa: B036
        return failure(e)
    return f"{type(result).__name__}:{result!r}"


class Name(str):
    """str subclass"""


class LoudName(str):
    """str subclass that compares equal to everything and hashes like an invalid name"""

    def __eq__(self, other):
        return True

    def __hash__(self):
        return hash("invalid")


valid = "IMG-HH-ALOS2225333100-180726-WWDR1.1__D-B3"

names = [
    # test suite
    "IMG-HH-ALOS2225333100-180726-WWDR1.1__D-B3",
    "IMG-HV-ALOS2290760600-191011-WWDR1.5RUA",
    # polarizations / scans / file types
    "IMG-VV-ALOS2225333100-180726-WWDR1.1__D-F1",
    "IMG-VH-ALOS2225333100-180726-WWDR1.1__D-B0",
    "IMG-HH-ALOS2225333100-180726-WWDR1.1__D-F9",
    "IMG-HH-ALOS2225333100-180726-WWDR1.1__D",
    "IMG-ALOS2225333100-180726-WWDR1.1__D",
    "IMG-ALOS2225333100-180726-WWDR1.1__D-B5",
    "LED-ALOS2225333100-180726-WWDR1.1__D",
    "TRL-ALOS2225333100-180726-WWDR1.1__D",
    "VOL-ALOS2225333100-180726-WWDR1.1__D",
    "XYZ-HV-ALOS2225333100-180726-WWDR1.1__D-B2",
    "IMG-HH-ALOS2000000000-000101-SBSL1.0__A",
    "IMG-HH-ALOS2999999999-991231-VBDR3.1GUD",
    "IMG-HH-ABCDE12345ABCD-200229-FBQR1.5GPA-F7",
    # invalid
    "",
    "IMG",
    "IMG-HH",
    "img-hh-alos2225333100-180726-wwdr1.1__d-b3",
    "IMG-HX-ALOS2225333100-180726-WWDR1.1__D-B3",
    "IMG-H-ALOS2225333100-180726-WWDR1.1__D-B3",
    "IMG-HHH-ALOS2225333100-180726-WWDR1.1__D-B3",
    "IMG-HH-ALOS2225333100-180726-WWDR1.1__D-B",
    "IMG-HH-ALOS2225333100-180726-WWDR1.1__D-B33",
    "IMG-HH-ALOS2225333100-180726-WWDR1.1__D-A3",
    "IMG-HH-ALOS2225333100-180726-WWDR1.1__D-B3 ",
    " IMG-HH-ALOS2225333100-180726-WWDR1.1__D-B3",
    "IMG-HH-ALOS2225333100-180726-WWDR1.1__D-B3\n",
    "IMG-HH-ALOS2225333100-180732-WWDR1.1__D-B3",
    "IMG-HH-ALOS2225333100-181326-WWDR1.1__D-B3",
    "IMG-HH-ALOS2225333100-190229-WWDR1.1__D-B3",
    "IMG-HH-ALOS2225333100-000000-WWDR1.1__D-B3",
    "IMG-HH-ALOS2225333100-18072-WWDR1.1__D-B3",
    "IMG-HH-ALOS222533310-180726-WWDR1.1__D-B3",
    "IMG-HH-ALOS22253331AB-180726-WWDR1.1__D-B3",
    "IMG-HH-ALOS2225333100-180726-QQQR1.1__D-B3",
    "IMG-HH-ALOS2225333100-180726-WWDX1.1__D-B3",
    "IMG-HH-ALOS2225333100-180726-WWDR2.1__D-B3",
    "IMG-HH-ALOS2225333100-180726-WWDR1.1X_D-B3",
    "IMG-HH-ALOS2225333100-180726-WWDR1.1_XD-B3",
    "IMG-HH-ALOS2225333100-180726-WWDR1.1__X-B3",
    "IMG-HH-ALOS2225333100-180726-WWDR1.1__-B3",
    "IMG-HH-ALOS2225333100-180726-WWDR1.1__DD-B3",
    "dir/IMG-HH-ALOS2225333100-180726-WWDR1.1__D-B3",
    "IMG_HH_ALOS2225333100_180726_WWDR1.1__D_B3",
    "IMG-HH-ALOS2225333100-180726-WWDR1.1__D-B٣",
    "IMG-HH-ALOS22253331٠٠-180726-WWDR1.1__D-B3",
]

others = [
    None,
    0,
    1.5,
    b"IMG-HH-ALOS2225333100-180726-WWDR1.1__D-B3",
    bytearray(b"IMG-HH-ALOS2225333100-180726-WWDR1.1__D-B3"),
    ["IMG-HH-ALOS2225333100-180726-WWDR1.1__D-B3"],
    ("IMG-HH-ALOS2225333100-180726-WWDR1.1__D-B3",),
    {"path": valid},
    {valid},
    pathlib.PurePosixPath("IMG-HH-ALOS2225333100-180726-WWDR1.1__D-B3"),
    Name("IMG-HH-ALOS2225333100-180726-WWDR1.1__D-B3"),
    Name("IMG-HV-ALOS2290760600-191011-WWDR1.5RUA"),
    Name("invalid"),
    LoudName("IMG-VV-ALOS2225333100-180726-WWDR1.1__D-F1"),
    LoudName("invalid"),
]


def generated_names():
    """more valid names than fit into any reasonably sized cache"""
    modes = ["SBS", "UBD", "HBQ", "FBS", "WWD", "VBS"]
    for index, (pol, mode, scan) in enumerate(
        itertools.product(["HH", "HV", "VH", "VV", None], modes, [None, *range(10)])
    ):
        pol_ = f"-{pol}" if pol else ""
        scan_ = f"-{'BF'[index % 2]}{scan}" if scan is not None else ""
        yield f"IMG{pol_}-ALOS2{index:05d}{index % 7000:04d}-2001{1 + index % 28:02d}-{mode}R1.1__A{scan_}"


def name_cases():
    results = {}
    many = list(generated_names())
    assert len(many) == 330 and len(set(many)) == 330

    # several rounds, so every name is asked for again: directly, after a few others, and
    # after many others
    for round_ in range(3):
        for index, name in enumerate(names):
            results[f"{round_} name {index} {name!r}"] = outcome(name)
            results[f"{round_} name {index} {name!r} again"] = outcome(name)
        for index, other in enumerate(others):
            results[f"{round_} other {index} {type(other).__name__}"] = outcome(other)
        for index, name in enumerate(many):
            results[f"{round_} generated {index} {name}"] = outcome(name)
        for index, name in enumerate(reversed(many[::3])):
            results[f"{round_} generated, reversed {index} {name}"] = outcome(name)

    # equal but not identical strings
    copy = "".join(list(valid))
    assert copy == valid and copy is not valid
    results["copy"] = outcome(copy)
    return results


# --- open_image ---------------------------------------------------------------------------


def descriptor(n_records, record_size):
    raw = bytearray(b" " * 720)
    raw[0:12] = b"\x00\x00\x00\x01\x00\xc0\x00\x12\x00\x00\x02\xd0"
    raw[180:186] = b"%6d" % n_records
    raw[186:192] = b"%6d" % record_size
    raw[236:244] = b"%8d" % n_records
    raw[248:256] = b"       3"
    raw[268:272] = b"BSQ "
    raw[428:432] = b"IU2 "
    return bytes(raw)


def processed_record(seq, line, n_data=6):
    head = bytearray(192)
    struct.pack_into(">IBBBBI", head, 0, seq, 50, 11, 18, 20, 192 + n_data)
    struct.pack_into(">6I", head, 12, line, 1, 0, n_data // 2, 0, 0)
    struct.pack_into(">3I", head, 36, 2019, 365, 86_399_999)
    struct.pack_into(">4H", head, 48, 1, 0, 1, 1)
    for offset in range(64, 108, 4):
        struct.pack_into(">I", head, offset, offset * 100 + seq)
    for offset in [*range(132, 160, 4), 164, 168, 176, 180]:
        struct.pack_into(">I", head, offset, offset * 10_000 + line)
    return bytes(head) + bytes(range(n_data))


def describe(value):
    if isinstance(value, Group):
        return (
            f"Group(path={value.path!r}, url={value.url!r}, data={describe(value.data)},"
            f" attrs={describe(value.attrs)})"
        )
    if isinstance(value, Variable):
        return f"Variable(dims={value.dims!r}, data={type(value.data).__name__}, attrs=...)"
    if isinstance(value, dict):
        items = ", ".join(f"{k!r}: {describe(v)}" for k, v in value.items())
        return f"{{{items}}}"
    return repr(value)


def open_image_cases():
    content = descriptor(3, 198) + b"".join(processed_record(seq, seq) for seq in (1, 2, 3))
    mapper = fsspec.get_mapper("memory://equiv4")
    paths = [
        "IMG-HH-ALOS2225333100-180726-WWDR1.1__D-B3",
        "IMG-HV-ALOS2290760600-191011-WWDR1.5RUA",
        "IMG-ALOS2225333100-180726-WWDR1.1__D",
        "IMG-HH-ALOS2225333100-180732-WWDR1.1__D-B3",
        "not-an-image",
    ]
    for path in paths:
        mapper[path] = content

    results = {}
    for round_ in range(2):
        for path in paths:
            try:
                group = sar_image.open_image(
                    mapper, path, use_cache=False, create_cache=False, records_per_chunk=2
                )
            except BaseException as e:  # noqa: B036
                described = failure(e)
            else:
                described = f"{describe(group)}; name={group.name!r}; {group['data'].data!r}"
            results[f"{round_} open_image {path}"] = described
    return results


def run_cases():
    return name_cases() | open_image_cases()


EXPECTED = {"0 name 0 'IMG-HH-ALOS2225333100-180726-WWDR1.1__D-B3'": "str:'HH_scan3'",
 "0 name 0 'IMG-HH-ALOS2225333100-180726-WWDR1.1__D-B3' again": "str:'HH_scan3'",
 "0 name 1 'IMG-HV-ALOS2290760600-191011-WWDR1.5RUA'": "str:'HV'",
 "0 name 1 'IMG-HV-ALOS2290760600-191011-WWDR1.5RUA' again": "str:'HV'",
 "0 name 2 'IMG-VV-ALOS2225333100-180726-WWDR1.1__D-F1'": "str:'VV_scan1'",
 "0 name 2 'IMG-VV-ALOS2225333100-180726-WWDR1.1__D-F1' again": "str:'VV_scan1'",
 "0 name 3 'IMG-VH-ALOS2225333100-180726-WWDR1.1__D-B0'": "str:'VH_scan0'",
 "0 name 3 'IMG-VH-ALOS2225333100-180726-WWDR1.1__D-B0' again": "str:'VH_scan0'",
 "0 name 4 'IMG-HH-ALOS2225333100-180726-WWDR1.1__D-F9'": "str:'HH_scan9'",
 "0 name 4 'IMG-HH-ALOS2225333100-180726-WWDR1.1__D-F9' again": "str:'HH_scan9'",
 "0 name 5 'IMG-HH-ALOS2225333100-180726-WWDR1.1__D'": "str:'HH'",
 "0 name 5 'IMG-HH-ALOS2225333100-180726-WWDR1.1__D' again": "str:'HH'",
 "0 name 6 'IMG-ALOS2225333100-180726-WWDR1.1__D'": "str:''",
 "0 name 6 'IMG-ALOS2225333100-180726-WWDR1.1__D' again": "str:''",
 "0 name 7 'IMG-ALOS2225333100-180726-WWDR1.1__D-B5'": "str:'scan5'",
 "0 name 7 'IMG-ALOS2225333100-180726-WWDR1.1__D-B5' again": "str:'scan5'",
 "0 name 8 'LED-ALOS2225333100-180726-WWDR1.1__D'": "str:''",
 "0 name 8 'LED-ALOS2225333100-180726-WWDR1.1__D' again": "str:''",
 "0 name 9 'TRL-ALOS2225333100-180726-WWDR1.1__D'": "str:''",
 "0 name 9 'TRL-ALOS2225333100-180726-WWDR1.1__D' again": "str:''",
 "0 name 10 'VOL-ALOS2225333100-180726-WWDR1.1__D'": "str:''",
 "0 name 10 'VOL-ALOS2225333100-180726-WWDR1.1__D' again": "str:''",
 "0 name 11 'XYZ-HV-ALOS2225333100-180726-WWDR1.1__D-B2'": "str:'HV_scan2'",
 "0 name 11 'XYZ-HV-ALOS2225333100-180726-WWDR1.1__D-B2' again": "str:'HV_scan2'",
 "0 name 12 'IMG-HH-ALOS2000000000-000101-SBSL1.0__A'": "str:'HH'",
 "0 name 12 'IMG-HH-ALOS2000000000-000101-SBSL1.0__A' again": "str:'HH'",
 "0 name 13 'IMG-HH-ALOS2999999999-991231-VBDR3.1GUD'": "str:'HH'",
 "0 name 13 'IMG-HH-ALOS2999999999-991231-VBDR3.1GUD' again": "str:'HH'",
 "0 name 14 'IMG-HH-ABCDE12345ABCD-200229-FBQR1.5GPA-F7'": 'raises ValueError: invalid scene id: '
                                                           'ABCDE12345ABCD-200229 (cause: None, '
                                                           'context: None)',
 "0 name 14 'IMG-HH-ABCDE12345ABCD-200229-FBQR1.5GPA-F7' again": 'raises ValueError: invalid scene '
                                                                 'id: ABCDE12345ABCD-200229 '
                                                                 '(cause: None, context: None)',
 "0 name 15 ''": 'raises ValueError: invalid file name:  (cause: None, context: None)',
 "0 name 15 '' again": 'raises ValueError: invalid file name:  (cause: None, context: None)',
 "0 name 16 'IMG'": 'raises ValueError: invalid file name: IMG (cause: None, context: None)',
 "0 name 16 'IMG' again": 'raises ValueError: invalid file name: IMG (cause: None, context: None)',
 "0 name 17 'IMG-HH'": 'raises ValueError: invalid file name: IMG-HH (cause: None, context: None)',
 "0 name 17 'IMG-HH' again": 'raises ValueError: invalid file name: IMG-HH (cause: None, context: '
                             'None)',
 "0 name 18 'img-hh-alos2225333100-180726-wwdr1.1__d-b3'": 'raises ValueError: invalid file name: '
                                                           'img-hh-alos2225333100-180726-wwdr1.1__d-b3 '
                                                           '(cause: None, context: None)',
 "0 name 18 'img-hh-alos2225333100-180726-wwdr1.1__d-b3' again": 'raises ValueError: invalid file '
                                                                 'name: '
                                                                 'img-hh-alos2225333100-180726-wwdr1.1__d-b3 '
                                                                 '(cause: None, context: None)',
 "0 name 19 'IMG-HX-ALOS2225333100-180726-WWDR1.1__D-B3'": 'raises ValueError: invalid file name: '
                                                           'IMG-HX-ALOS2225333100-180726-WWDR1.1__D-B3 '
                                                           '(cause: None, context: None)',
 "0 name 19 'IMG-HX-ALOS2225333100-180726-WWDR1.1__D-B3' again": 'raises ValueError: invalid file '
                                                                 'name: '
                                                                 'IMG-HX-ALOS2225333100-180726-WWDR1.1__D-B3 '
                                                                 '(cause: None, context: None)',
 "0 name 20 'IMG-H-ALOS2225333100-180726-WWDR1.1__D-B3'": 'raises ValueError: invalid file name: '
                                                          'IMG-H-ALOS2225333100-180726-WWDR1.1__D-B3 '
                                                          '(cause: None, context: None)',
 "0 name 20 'IMG-H-ALOS2225333100-180726-WWDR1.1__D-B3' again": 'raises ValueError: invalid file '
                                                                'name: '
                                                                'IMG-H-ALOS2225333100-180726-WWDR1.1__D-B3 '
                                                                '(cause: None, context: None)',
 "0 name 21 'IMG-HHH-ALOS2225333100-180726-WWDR1.1__D-B3'": 'raises ValueError: invalid file name: '
                                                            'IMG-HHH-ALOS2225333100-180726-WWDR1.1__D-B3 '
                                                            '(cause: None, context: None)',
 "0 name 21 'IMG-HHH-ALOS2225333100-180726-WWDR1.1__D-B3' again": 'raises ValueError: invalid file '
                                                                  'name: '
                                                                  'IMG-HHH-ALOS2225333100-180726-WWDR1.1__D-B3 '
                                                                  '(cause: None, context: None)',
 "0 name 22 'IMG-HH-ALOS2225333100-180726-WWDR1.1__D-B'": 'raises ValueError: invalid file name: '
                                                          'IMG-HH-ALOS2225333100-180726-WWDR1.1__D-B '
                                                          '(cause: None, context: None)',
 "0 name 22 'IMG-HH-ALOS2225333100-180726-WWDR1.1__D-B' again": 'raises ValueError: invalid file '
                                                                'name: '
                                                                'IMG-HH-ALOS2225333100-180726-WWDR1.1__D-B '
                                                                '(cause: None, context: None)',
 "0 name 23 'IMG-HH-ALOS2225333100-180726-WWDR1.1__D-B33'": 'raises ValueError: invalid file name: '
                                                            'IMG-HH-ALOS2225333100-180726-WWDR1.1__D-B33 '
                                                            '(cause: None, context: None)',
 "0 name 23 'IMG-HH-ALOS2225333100-180726-WWDR1.1__D-B33' again": 'raises ValueError: invalid file '
                                                                  'name: '
                                                                  'IMG-HH-ALOS2225333100-180726-WWDR1.1__D-B33 '
                                                                  '(cause: None, context: None)',
 "0 name 24 'IMG-HH-ALOS2225333100-180726-WWDR1.1__D-A3'": 'raises ValueError: invalid file name: '
                                                           'IMG-HH-ALOS2225333100-180726-WWDR1.1__D-A3 '
                                                           '(cause: None, context: None)',
 "0 name 24 'IMG-HH-ALOS2225333100-180726-WWDR1.1__D-A3' again": 'raises ValueError: invalid file '
                                                                 'name: '
                                                                 'IMG-HH-ALOS2225333100-180726-WWDR1.1__D-A3 '
                                                                 '(cause: None, context: None)',
 "0 name 25 'IMG-HH-ALOS2225333100-180726-WWDR1.1__D-B3 '": 'raises ValueError: invalid file name: '
                                                            'IMG-HH-ALOS2225333100-180726-WWDR1.1__D-B3  '
                                                            '(cause: None, context: None)',
 "0 name 25 'IMG-HH-ALOS2225333100-180726-WWDR1.1__D-B3 ' again": 'raises ValueError: invalid file '
                                                                  'name: '
                                                                  'IMG-HH-ALOS2225333100-180726-WWDR1.1__D-B3  '
                                                                  '(cause: None, context: None)',
 "0 name 26 ' IMG-HH-ALOS2225333100-180726-WWDR1.1__D-B3'": 'raises ValueError: invalid file '
                                                            'name:  '
                                                            'IMG-HH-ALOS2225333100-180726-WWDR1.1__D-B3 '
                                                            '(cause: None, context: None)',
 "0 name 26 ' IMG-HH-ALOS2225333100-180726-WWDR1.1__D-B3' again": 'raises ValueError: invalid file '
                                                                  'name:  '
                                                                  'IMG-HH-ALOS2225333100-180726-WWDR1.1__D-B3 '
                                                                  '(cause: None, context: None)',
 "0 name 27 'IMG-HH-ALOS2225333100-180726-WWDR1.1__D-B3\\n'": 'raises ValueError: invalid file '
                                                              'name: '
                                                              'IMG-HH-ALOS2225333100-180726-WWDR1.1__D-B3\n'
                                                              ' (cause: None, context: None)',
 "0 name 27 'IMG-HH-ALOS2225333100-180726-WWDR1.1__D-B3\\n' again": 'raises ValueError: invalid '
                                                                    'file name: '
                                                                    'IMG-HH-ALOS2225333100-180726-WWDR1.1__D-B3\n'
                                                                    ' (cause: None, context: None)',
 "0 name 28 'IMG-HH-ALOS2225333100-180732-WWDR1.1__D-B3'": 'raises ValueError: invalid scene id: '
                                                           'ALOS2225333100-180732 (cause: '
                                                           'ValueError, context: ValueError)',
 "0 name 28 'IMG-HH-ALOS2225333100-180732-WWDR1.1__D-B3' again": 'raises ValueError: invalid scene '
                                                                 'id: ALOS2225333100-180732 '
                                                                 '(cause: ValueError, context: '
                                                                 'ValueError)',
 "0 name 29 'IMG-HH-ALOS2225333100-181326-WWDR1.1__D-B3'": 'raises ValueError: invalid scene id: '
                                                           'ALOS2225333100-181326 (cause: '
                                                           'ValueError, context: ValueError)',
 "0 name 29 'IMG-HH-ALOS2225333100-181326-WWDR1.1__D-B3' again": 'raises ValueError: invalid scene '
                                                                 'id: ALOS2225333100-181326 '
                                                                 '(cause: ValueError, context: '
                                                                 'ValueError)',
 "0 name 30 'IMG-HH-ALOS2225333100-190229-WWDR1.1__D-B3'": 'raises ValueError: invalid scene id: '
                                                           'ALOS2225333100-190229 (cause: '
                                                           'ValueError, context: ValueError)',
 "0 name 30 'IMG-HH-ALOS2225333100-190229-WWDR1.1__D-B3' again": 'raises ValueError: invalid scene '
                                                                 'id: ALOS2225333100-190229 '
                                                                 '(cause: ValueError, context: '
                                                                 'ValueError)',
 "0 name 31 'IMG-HH-ALOS2225333100-000000-WWDR1.1__D-B3'": 'raises ValueError: invalid scene id: '
                                                           'ALOS2225333100-000000 (cause: '
                                                           'ValueError, context: ValueError)',
 "0 name 31 'IMG-HH-ALOS2225333100-000000-WWDR1.1__D-B3' again": 'raises ValueError: invalid scene '
                                                                 'id: ALOS2225333100-000000 '
                                                                 '(cause: ValueError, context: '
                                                                 'ValueError)',
 "0 name 32 'IMG-HH-ALOS2225333100-18072-WWDR1.1__D-B3'": 'raises ValueError: invalid file name: '
                                                          'IMG-HH-ALOS2225333100-18072-WWDR1.1__D-B3 '
                                                          '(cause: None, context: None)',
 "0 name 32 'IMG-HH-ALOS2225333100-18072-WWDR1.1__D-B3' again": 'raises ValueError: invalid file '
                                                                'name: '
                                                                'IMG-HH-ALOS2225333100-18072-WWDR1.1__D-B3 '
                                                                '(cause: None, context: None)',
 "0 name 33 'IMG-HH-ALOS222533310-180726-WWDR1.1__D-B3'": 'raises ValueError: invalid file name: '
                                                          'IMG-HH-ALOS222533310-180726-WWDR1.1__D-B3 '
                                                          '(cause: None, context: None)',
 "0 name 33 'IMG-HH-ALOS222533310-180726-WWDR1.1__D-B3' again": 'raises ValueError: invalid file '
                                                                'name: '
                                                                'IMG-HH-ALOS222533310-180726-WWDR1.1__D-B3 '
                                                                '(cause: None, context: None)',
 "0 name 34 'IMG-HH-ALOS22253331AB-180726-WWDR1.1__D-B3'": 'raises ValueError: invalid scene id: '
                                                           'ALOS22253331AB-180726 (cause: None, '
                                                           'context: None)',
 "0 name 34 'IMG-HH-ALOS22253331AB-180726-WWDR1.1__D-B3' again": 'raises ValueError: invalid scene '
                                                                 'id: ALOS22253331AB-180726 '
                                                                 '(cause: None, context: None)',
 "0 name 35 'IMG-HH-ALOS2225333100-180726-QQQR1.1__D-B3'": 'raises ValueError: invalid product id: '
                                                           'QQQR1.1__D (cause: ValueError, '
                                                           'context: ValueError)',
 "0 name 35 'IMG-HH-ALOS2225333100-180726-QQQR1.1__D-B3' again": 'raises ValueError: invalid '
                                                                 'product id: QQQR1.1__D (cause: '
                                                                 'ValueError, context: ValueError)',
 "0 name 36 'IMG-HH-ALOS2225333100-180726-WWDX1.1__D-B3'": 'raises ValueError: invalid product id: '
                                                           'WWDX1.1__D (cause: None, context: '
                                                           'None)',
 "0 name 36 'IMG-HH-ALOS2225333100-180726-WWDX1.1__D-B3' again": 'raises ValueError: invalid '
                                                                 'product id: WWDX1.1__D (cause: '
                                                                 'None, context: None)',
 "0 name 37 'IMG-HH-ALOS2225333100-180726-WWDR2.1__D-B3'": 'raises ValueError: invalid product id: '
                                                           'WWDR2.1__D (cause: None, context: '
                                                           'None)',
 "0 name 37 'IMG-HH-ALOS2225333100-180726-WWDR2.1__D-B3' again": 'raises ValueError: invalid '
                                                                 'product id: WWDR2.1__D (cause: '
                                                                 'None, context: None)',
 "0 name 38 'IMG-HH-ALOS2225333100-180726-WWDR1.1X_D-B3'": 'raises ValueError: invalid product id: '
                                                           'WWDR1.1X_D (cause: None, context: '
                                                           'None)',
 "0 name 38 'IMG-HH-ALOS2225333100-180726-WWDR1.1X_D-B3' again": 'raises ValueError: invalid '
                                                                 'product id: WWDR1.1X_D (cause: '
                                                                 'None, context: None)',
 "0 name 39 'IMG-HH-ALOS2225333100-180726-WWDR1.1_XD-B3'": 'raises ValueError: invalid product id: '
                                                           'WWDR1.1_XD (cause: None, context: '
                                                           'None)',
 "0 name 39 'IMG-HH-ALOS2225333100-180726-WWDR1.1_XD-B3' again": 'raises ValueError: invalid '
                                                                 'product id: WWDR1.1_XD (cause: '
                                                                 'None, context: None)',
 "0 name 40 'IMG-HH-ALOS2225333100-180726-WWDR1.1__X-B3'": 'raises ValueError: invalid product id: '
                                                           'WWDR1.1__X (cause: None, context: '
                                                           'None)',
 "0 name 40 'IMG-HH-ALOS2225333100-180726-WWDR1.1__X-B3' again": 'raises ValueError: invalid '
                                                                 'product id: WWDR1.1__X (cause: '
                                                                 'None, context: None)',
 "0 name 41 'IMG-HH-ALOS2225333100-180726-WWDR1.1__-B3'": 'raises ValueError: invalid file name: '
                                                          'IMG-HH-ALOS2225333100-180726-WWDR1.1__-B3 '
                                                          '(cause: None, context: None)',
 "0 name 41 'IMG-HH-ALOS2225333100-180726-WWDR1.1__-B3' again": 'raises ValueError: invalid file '
                                                                'name: '
                                                                'IMG-HH-ALOS2225333100-180726-WWDR1.1__-B3 '
                                                                '(cause: None, context: None)',
 "0 name 42 'IMG-HH-ALOS2225333100-180726-WWDR1.1__DD-B3'": 'raises ValueError: invalid file name: '
                                                            'IMG-HH-ALOS2225333100-180726-WWDR1.1__DD-B3 '
                                                            '(cause: None, context: None)',
 "0 name 42 'IMG-HH-ALOS2225333100-180726-WWDR1.1__DD-B3' again": 'raises ValueError: invalid file '
                                                                  'name: '
                                                                  'IMG-HH-ALOS2225333100-180726-WWDR1.1__DD-B3 '
                                                                  '(cause: None, context: None)',
 "0 name 43 'dir/IMG-HH-ALOS2225333100-180726-WWDR1.1__D-B3'": 'raises ValueError: invalid file '
                                                               'name: '
                                                               'dir/IMG-HH-ALOS2225333100-180726-WWDR1.1__D-B3 '
                                                               '(cause: None, context: None)',
 "0 name 43 'dir/IMG-HH-ALOS2225333100-180726-WWDR1.1__D-B3' again": 'raises ValueError: invalid '
                                                                     'file name: '
                                                                     'dir/IMG-HH-ALOS2225333100-180726-WWDR1.1__D-B3 '
                                                                     '(cause: None, context: None)',
 "0 name 44 'IMG_HH_ALOS2225333100_180726_WWDR1.1__D_B3'": 'raises ValueError: invalid file name: '
                                                           'IMG_HH_ALOS2225333100_180726_WWDR1.1__D_B3 '
                                                           '(cause: None, context: None)',
 "0 name 44 'IMG_HH_ALOS2225333100_180726_WWDR1.1__D_B3' again": 'raises ValueError: invalid file '
                                                                 'name: '
                                                                 'IMG_HH_ALOS2225333100_180726_WWDR1.1__D_B3 '
                                                                 '(cause: None, context: None)',
 "0 name 45 'IMG-HH-ALOS2225333100-180726-WWDR1.1__D-B٣'": 'raises ValueError: invalid file name: '
                                                           'IMG-HH-ALOS2225333100-180726-WWDR1.1__D-B٣ '
                                                           '(cause: None, context: None)',
 "0 name 45 'IMG-HH-ALOS2225333100-180726-WWDR1.1__D-B٣' again": 'raises ValueError: invalid file '
                                                                 'name: '
                                                                 'IMG-HH-ALOS2225333100-180726-WWDR1.1__D-B٣ '
                                                                 '(cause: None, context: None)',
 "0 name 46 'IMG-HH-ALOS22253331٠٠-180726-WWDR1.1__D-B3'": 'raises ValueError: invalid file name: '
                                                           'IMG-HH-ALOS22253331٠٠-180726-WWDR1.1__D-B3 '
                                                           '(cause: None, context: None)',
 "0 name 46 'IMG-HH-ALOS22253331٠٠-180726-WWDR1.1__D-B3' again": 'raises ValueError: invalid file '
                                                                 'name: '
                                                                 'IMG-HH-ALOS22253331٠٠-180726-WWDR1.1__D-B3 '
                                                                 '(cause: None, context: None)',
 '0 other 0 NoneType': "raises TypeError: expected string or bytes-like object, got 'NoneType' "
                       '(cause: None, context: None)',
 '0 other 1 int': "raises TypeError: expected string or bytes-like object, got 'int' (cause: None, "
                  'context: None)',
 '0 other 2 float': "raises TypeError: expected string or bytes-like object, got 'float' (cause: "
                    'None, context: None)',
 '0 other 3 bytes': 'raises TypeError: cannot use a string pattern on a bytes-like object (cause: '
                    'None, context: None)',
 '0 other 4 bytearray': 'raises TypeError: cannot use a string pattern on a bytes-like object '
                        '(cause: None, context: None)',
 '0 other 5 list': "raises TypeError: expected string or bytes-like object, got 'list' (cause: "
                   'None, context: None)',
 '0 other 6 tuple': "raises TypeError: expected string or bytes-like object, got 'tuple' (cause: "
                    'None, context: None)',
 '0 other 7 dict': "raises TypeError: expected string or bytes-like object, got 'dict' (cause: "
                   'None, context: None)',
 '0 other 8 set': "raises TypeError: expected string or bytes-like object, got 'set' (cause: None, "
                  'context: None)',
 '0 other 9 PurePosixPath': 'raises TypeError: expected string or bytes-like object, got '
                            "'PurePosixPath' (cause: None, context: None)",
 '0 other 10 Name': "str:'HH_scan3'",
 '0 other 11 Name': "str:'HV'",
 '0 other 12 Name': 'raises ValueError: invalid file name: invalid (cause: None, context: None)',
 '0 other 13 LoudName': "str:'VV_scan1'",
 '0 other 14 LoudName': 'raises ValueError: invalid file name: invalid (cause: None, context: '
                        'None)',
 '0 generated 0 IMG-HH-ALOS2000000000-200101-SBSR1.1__A': "str:'HH'",
 '0 generated 1 IMG-HH-ALOS2000010001-200102-SBSR1.1__A-F0': "str:'HH_scan0'",
 '0 generated 2 IMG-HH-ALOS2000020002-200103-SBSR1.1__A-B1': "str:'HH_scan1'",
 '0 generated 3 IMG-HH-ALOS2000030003-200104-SBSR1.1__A-F2': "str:'HH_scan2'",
 '0 generated 4 IMG-HH-ALOS2000040004-200105-SBSR1.1__A-B3': "str:'HH_scan3'",
 '0 generated 5 IMG-HH-ALOS2000050005-200106-SBSR1.1__A-F4': "str:'HH_scan4'",
 '0 generated 6 IMG-HH-ALOS2000060006-200107-SBSR1.1__A-B5': "str:'HH_scan5'",
 '0 generated 7 IMG-HH-ALOS2000070007-200108-SBSR1.1__A-F6': "str:'HH_scan6'",
 '0 generated 8 IMG-HH-ALOS2000080008-200109-SBSR1.1__A-B7': "str:'HH_scan7'",
 '0 generated 9 IMG-HH-ALOS2000090009-200110-SBSR1.1__A-F8': "str:'HH_scan8'",
 '0 generated 10 IMG-HH-ALOS2000100010-200111-SBSR1.1__A-B9': "str:'HH_scan9'",
 '0 generated 11 IMG-HH-ALOS2000110011-200112-UBDR1.1__A': "str:'HH'",
 '0 generated 12 IMG-HH-ALOS2000120012-200113-UBDR1.1__A-B0': "str:'HH_scan0'",
 '0 generated 13 IMG-HH-ALOS2000130013-200114-UBDR1.1__A-F1': "str:'HH_scan1'",
 '0 generated 14 IMG-HH-ALOS2000140014-200115-UBDR1.1__A-B2': "str:'HH_scan2'",
 '0 generated 15 IMG-HH-ALOS2000150015-200116-UBDR1.1__A-F3': "str:'HH_scan3'",
 '0 generated 16 IMG-HH-ALOS2000160016-200117-UBDR1.1__A-B4': "str:'HH_scan4'",
 '0 generated 17 IMG-HH-ALOS2000170017-200118-UBDR1.1__A-F5': "str:'HH_scan5'",
 '0 generated 18 IMG-HH-ALOS2000180018-200119-UBDR1.1__A-B6': "str:'HH_scan6'",
 '0 generated 19 IMG-HH-ALOS2000190019-200120-UBDR1.1__A-F7': "str:'HH_scan7'",
 '0 generated 20 IMG-HH-ALOS2000200020-200121-UBDR1.1__A-B8': "str:'HH_scan8'",
 '0 generated 21 IMG-HH-ALOS2000210021-200122-UBDR1.1__A-F9': "str:'HH_scan9'",
 '0 generated 22 IMG-HH-ALOS2000220022-200123-HBQR1.1__A': "str:'HH'",
 '0 generated 23 IMG-HH-ALOS2000230023-200124-HBQR1.1__A-F0': "str:'HH_scan0'",
 '0 generated 24 IMG-HH-ALOS2000240024-200125-HBQR1.1__A-B1': "str:'HH_scan1'",
 '0 generated 25 IMG-HH-ALOS2000250025-200126-HBQR1.1__A-F2': "str:'HH_scan2'",
 '0 generated 26 IMG-HH-ALOS2000260026-200127-HBQR1.1__A-B3': "str:'HH_scan3'",
 '0 generated 27 IMG-HH-ALOS2000270027-200128-HBQR1.1__A-F4': "str:'HH_scan4'",
 '0 generated 28 IMG-HH-ALOS2000280028-200101-HBQR1.1__A-B5': "str:'HH_scan5'",
 '0 generated 29 IMG-HH-ALOS2000290029-200102-HBQR1.1__A-F6': "str:'HH_scan6'",
 '0 generated 30 IMG-HH-ALOS2000300030-200103-HBQR1.1__A-B7': "str:'HH_scan7'",
 '0 generated 31 IMG-HH-ALOS2000310031-200104-HBQR1.1__A-F8': "str:'HH_scan8'",
 '0 generated 32 IMG-HH-ALOS2000320032-200105-HBQR1.1__A-B9': "str:'HH_scan9'",
 '0 generated 33 IMG-HH-ALOS2000330033-200106-FBSR1.1__A': "str:'HH'",
 '0 generated 34 IMG-HH-ALOS2000340034-200107-FBSR1.1__A-B0': "str:'HH_scan0'",
 '0 generated 35 IMG-HH-ALOS2000350035-200108-FBSR1.1__A-F1': "str:'HH_scan1'",
 '0 generated 36 IMG-HH-ALOS2000360036-200109-FBSR1.1__A-B2': "str:'HH_scan2'",
 '0 generated 37 IMG-HH-ALOS2000370037-200110-FBSR1.1__A-F3': "str:'HH_scan3'",
 '0 generated 38 IMG-HH-ALOS2000380038-200111-FBSR1.1__A-B4': "str:'HH_scan4'",
 '0 generated 39 IMG-HH-ALOS2000390039-200112-FBSR1.1__A-F5': "str:'HH_scan5'",
 '0 generated 40 IMG-HH-ALOS2000400040-200113-FBSR1.1__A-B6': "str:'HH_scan6'",
 '0 generated 41 IMG-HH-ALOS2000410041-200114-FBSR1.1__A-F7': "str:'HH_scan7'",
 '0 generated 42 IMG-HH-ALOS2000420042-200115-FBSR1.1__A-B8': "str:'HH_scan8'",
 '0 generated 43 IMG-HH-ALOS2000430043-200116-FBSR1.1__A-F9': "str:'HH_scan9'",
 '0 generated 44 IMG-HH-ALOS2000440044-200117-WWDR1.1__A': "str:'HH'",
 '0 generated 45 IMG-HH-ALOS2000450045-200118-WWDR1.1__A-F0': "str:'HH_scan0'",
 '0 generated 46 IMG-HH-ALOS2000460046-200119-WWDR1.1__A-B1': "str:'HH_scan1'",
 '0 generated 47 IMG-HH-ALOS2000470047-200120-WWDR1.1__A-F2': "str:'HH_scan2'",
 '0 generated 48 IMG-HH-ALOS2000480048-200121-WWDR1.1__A-B3': "str:'HH_scan3'",
 '0 generated 49 IMG-HH-ALOS2000490049-200122-WWDR1.1__A-F4': "str:'HH_scan4'",
 '0 generated 50 IMG-HH-ALOS2000500050-200123-WWDR1.1__A-B5': "str:'HH_scan5'",
 '0 generated 51 IMG-HH-ALOS2000510051-200124-WWDR1.1__A-F6': "str:'HH_scan6'",
 '0 generated 52 IMG-HH-ALOS2000520052-200125-WWDR1.1__A-B7': "str:'HH_scan7'",
 '0 generated 53 IMG-HH-ALOS2000530053-200126-WWDR1.1__A-F8': "str:'HH_scan8'",
 '0 generated 54 IMG-HH-ALOS2000540054-200127-WWDR1.1__A-B9': "str:'HH_scan9'",
 '0 generated 55 IMG-HH-ALOS2000550055-200128-VBSR1.1__A': "str:'HH'",
 '0 generated 56 IMG-HH-ALOS2000560056-200101-VBSR1.1__A-B0': "str:'HH_scan0'",
 '0 generated 57 IMG-HH-ALOS2000570057-200102-VBSR1.1__A-F1': "str:'HH_scan1'",
 '0 generated 58 IMG-HH-ALOS2000580058-200103-VBSR1.1__A-B2': "str:'HH_scan2'",
 '0 generated 59 IMG-HH-ALOS2000590059-200104-VBSR1.1__A-F3': "str:'HH_scan3'",
 '0 generated 60 IMG-HH-ALOS2000600060-200105-VBSR1.1__A-B4': "str:'HH_scan4'",
 '0 generated 61 IMG-HH-ALOS2000610061-200106-VBSR1.1__A-F5': "str:'HH_scan5'",
 '0 generated 62 IMG-HH-ALOS2000620062-200107-VBSR1.1__A-B6': "str:'HH_scan6'",
 '0 generated 63 IMG-HH-ALOS2000630063-200108-VBSR1.1__A-F7': "str:'HH_scan7'",
 '0 generated 64 IMG-HH-ALOS2000640064-200109-VBSR1.1__A-B8': "str:'HH_scan8'",
 '0 generated 65 IMG-HH-ALOS2000650065-200110-VBSR1.1__A-F9': "str:'HH_scan9'",
 '0 generated 66 IMG-HV-ALOS2000660066-200111-SBSR1.1__A': "str:'HV'",
 '0 generated 67 IMG-HV-ALOS2000670067-200112-SBSR1.1__A-F0': "str:'HV_scan0'",
 '0 generated 68 IMG-HV-ALOS2000680068-200113-SBSR1.1__A-B1': "str:'HV_scan1'",
 '0 generated 69 IMG-HV-ALOS2000690069-200114-SBSR1.1__A-F2': "str:'HV_scan2'",
 '0 generated 70 IMG-HV-ALOS2000700070-200115-SBSR1.1__A-B3': "str:'HV_scan3'",
 '0 generated 71 IMG-HV-ALOS2000710071-200116-SBSR1.1__A-F4': "str:'HV_scan4'",
 '0 generated 72 IMG-HV-ALOS2000720072-200117-SBSR1.1__A-B5': "str:'HV_scan5'",
 '0 generated 73 IMG-HV-ALOS2000730073-200118-SBSR1.1__A-F6': "str:'HV_scan6'",
 '0 generated 74 IMG-HV-ALOS2000740074-200119-SBSR1.1__A-B7': "str:'HV_scan7'",
 '0 generated 75 IMG-HV-ALOS2000750075-200120-SBSR1.1__A-F8': "str:'HV_scan8'",
 '0 generated 76 IMG-HV-ALOS2000760076-200121-SBSR1.1__A-B9': "str:'HV_scan9'",
 '0 generated 77 IMG-HV-ALOS2000770077-200122-UBDR1.1__A': "str:'HV'",
 '0 generated 78 IMG-HV-ALOS2000780078-200123-UBDR1.1__A-B0': "str:'HV_scan0'",
 '0 generated 79 IMG-HV-ALOS2000790079-200124-UBDR1.1__A-F1': "str:'HV_scan1'",
 '0 generated 80 IMG-HV-ALOS2000800080-200125-UBDR1.1__A-B2': "str:'HV_scan2'",
 '0 generated 81 IMG-HV-ALOS2000810081-200126-UBDR1.1__A-F3': "str:'HV_scan3'",
 '0 generated 82 IMG-HV-ALOS2000820082-200127-UBDR1.1__A-B4': "str:'HV_scan4'",
 '0 generated 83 IMG-HV-ALOS2000830083-200128-UBDR1.1__A-F5': "str:'HV_scan5'",
 '0 generated 84 IMG-HV-ALOS2000840084-200101-UBDR1.1__A-B6': "str:'HV_scan6'",
 '0 generated 85 IMG-HV-ALOS2000850085-200102-UBDR1.1__A-F7': "str:'HV_scan7'",
 '0 generated 86 IMG-HV-ALOS2000860086-200103-UBDR1.1__A-B8': "str:'HV_scan8'",
 '0 generated 87 IMG-HV-ALOS2000870087-200104-UBDR1.1__A-F9': "str:'HV_scan9'",
 '0 generated 88 IMG-HV-ALOS2000880088-200105-HBQR1.1__A': "str:'HV'",
 '0 generated 89 IMG-HV-ALOS2000890089-200106-HBQR1.1__A-F0': "str:'HV_scan0'",
 '0 generated 90 IMG-HV-ALOS2000900090-200107-HBQR1.1__A-B1': "str:'HV_scan1'",
 '0 generated 91 IMG-HV-ALOS2000910091-200108-HBQR1.1__A-F2': "str:'HV_scan2'",
 '0 generated 92 IMG-HV-ALOS2000920092-200109-HBQR1.1__A-B3': "str:'HV_scan3'",
 '0 generated 93 IMG-HV-ALOS2000930093-200110-HBQR1.1__A-F4': "str:'HV_scan4'",
 '0 generated 94 IMG-HV-ALOS2000940094-200111-HBQR1.1__A-B5': "str:'HV_scan5'",
 '0 generated 95 IMG-HV-ALOS2000950095-200112-HBQR1.1__A-F6': "str:'HV_scan6'",
 '0 generated 96 IMG-HV-ALOS2000960096-200113-HBQR1.1__A-B7': "str:'HV_scan7'",
 '0 generated 97 IMG-HV-ALOS2000970097-200114-HBQR1.1__A-F8': "str:'HV_scan8'",
 '0 generated 98 IMG-HV-ALOS2000980098-200115-HBQR1.1__A-B9': "str:'HV_scan9'",
 '0 generated 99 IMG-HV-ALOS2000990099-200116-FBSR1.1__A': "str:'HV'",
 '0 generated 100 IMG-HV-ALOS2001000100-200117-FBSR1.1__A-B0': "str:'HV_scan0'",
 '0 generated 101 IMG-HV-ALOS2001010101-200118-FBSR1.1__A-F1': "str:'HV_scan1'",
 '0 generated 102 IMG-HV-ALOS2001020102-200119-FBSR1.1__A-B2': "str:'HV_scan2'",
 '0 generated 103 IMG-HV-ALOS2001030103-200120-FBSR1.1__A-F3': "str:'HV_scan3'",
 '0 generated 104 IMG-HV-ALOS2001040104-200121-FBSR1.1__A-B4': "str:'HV_scan4'",
 '0 generated 105 IMG-HV-ALOS2001050105-200122-FBSR1.1__A-F5': "str:'HV_scan5'",
 '0 generated 106 IMG-HV-ALOS2001060106-200123-FBSR1.1__A-B6': "str:'HV_scan6'",
 '0 generated 107 IMG-HV-ALOS2001070107-200124-FBSR1.1__A-F7': "str:'HV_scan7'",
 '0 generated 108 IMG-HV-ALOS2001080108-200125-FBSR1.1__A-B8': "str:'HV_scan8'",
 '0 generated 109 IMG-HV-ALOS2001090109-200126-FBSR1.1__A-F9': "str:'HV_scan9'",
 '0 generated 110 IMG-HV-ALOS2001100110-200127-WWDR1.1__A': "str:'HV'",
 '0 generated 111 IMG-HV-ALOS2001110111-200128-WWDR1.1__A-F0': "str:'HV_scan0'",
 '0 generated 112 IMG-HV-ALOS2001120112-200101-WWDR1.1__A-B1': "str:'HV_scan1'",
 '0 generated 113 IMG-HV-ALOS2001130113-200102-WWDR1.1__A-F2': "str:'HV_scan2'",
 '0 generated 114 IMG-HV-ALOS2001140114-200103-WWDR1.1__A-B3': "str:'HV_scan3'",
 '0 generated 115 IMG-HV-ALOS2001150115-200104-WWDR1.1__A-F4': "str:'HV_scan4'",
 '0 generated 116 IMG-HV-ALOS2001160116-200105-WWDR1.1__A-B5': "str:'HV_scan5'",
 '0 generated 117 IMG-HV-ALOS2001170117-200106-WWDR1.1__A-F6': "str:'HV_scan6'",
 '0 generated 118 IMG-HV-ALOS2001180118-200107-WWDR1.1__A-B7': "str:'HV_scan7'",
 '0 generated 119 IMG-HV-ALOS2001190119-200108-WWDR1.1__A-F8': "str:'HV_scan8'",
 '0 generated 120 IMG-HV-ALOS2001200120-200109-WWDR1.1__A-B9': "str:'HV_scan9'",
 '0 generated 121 IMG-HV-ALOS2001210121-200110-VBSR1.1__A': "str:'HV'",
 '0 generated 122 IMG-HV-ALOS2001220122-200111-VBSR1.1__A-B0': "str:'HV_scan0'",
 '0 generated 123 IMG-HV-ALOS2001230123-200112-VBSR1.1__A-F1': "str:'HV_scan1'",
 '0 generated 124 IMG-HV-ALOS2001240124-200113-VBSR1.1__A-B2': "str:'HV_scan2'",
 '0 generated 125 IMG-HV-ALOS2001250125-200114-VBSR1.1__A-F3': "str:'HV_scan3'",
 '0 generated 126 IMG-HV-ALOS2001260126-200115-VBSR1.1__A-B4': "str:'HV_scan4'",
 '0 generated 127 IMG-HV-ALOS2001270127-200116-VBSR1.1__A-F5': "str:'HV_scan5'",
 '0 generated 128 IMG-HV-ALOS2001280128-200117-VBSR1.1__A-B6': "str:'HV_scan6'",
 '0 generated 129 IMG-HV-ALOS2001290129-200118-VBSR1.1__A-F7': "str:'HV_scan7'",
 '0 generated 130 IMG-HV-ALOS2001300130-200119-VBSR1.1__A-B8': "str:'HV_scan8'",
 '0 generated 131 IMG-HV-ALOS2001310131-200120-VBSR1.1__A-F9': "str:'HV_scan9'",
 '0 generated 132 IMG-VH-ALOS2001320132-200121-SBSR1.1__A': "str:'VH'",
 '0 generated 133 IMG-VH-ALOS2001330133-200122-SBSR1.1__A-F0': "str:'VH_scan0'",
 '0 generated 134 IMG-VH-ALOS2001340134-200123-SBSR1.1__A-B1': "str:'VH_scan1'",
 '0 generated 135 IMG-VH-ALOS2001350135-200124-SBSR1.1__A-F2': "str:'VH_scan2'",
 '0 generated 136 IMG-VH-ALOS2001360136-200125-SBSR1.1__A-B3': "str:'VH_scan3'",
 '0 generated 137 IMG-VH-ALOS2001370137-200126-SBSR1.1__A-F4': "str:'VH_scan4'",
 '0 generated 138 IMG-VH-ALOS2001380138-200127-SBSR1.1__A-B5': "str:'VH_scan5'",
 '0 generated 139 IMG-VH-ALOS2001390139-200128-SBSR1.1__A-F6': "str:'VH_scan6'",
 '0 generated 140 IMG-VH-ALOS2001400140-200101-SBSR1.1__A-B7': "str:'VH_scan7'",
 '0 generated 141 IMG-VH-ALOS2001410141-200102-SBSR1.1__A-F8': "str:'VH_scan8'",
 '0 generated 142 IMG-VH-ALOS2001420142-200103-SBSR1.1__A-B9': "str:'VH_scan9'",
 '0 generated 143 IMG-VH-ALOS2001430143-200104-UBDR1.1__A': "str:'VH'",
 '0 generated 144 IMG-VH-ALOS2001440144-200105-UBDR1.1__A-B0': "str:'VH_scan0'",
 '0 generated 145 IMG-VH-ALOS2001450145-200106-UBDR1.1__A-F1': "str:'VH_scan1'",
 '0 generated 146 IMG-VH-ALOS2001460146-200107-UBDR1.1__A-B2': "str:'VH_scan2'",
 '0 generated 147 IMG-VH-ALOS2001470147-200108-UBDR1.1__A-F3': "str:'VH_scan3'",
 '0 generated 148 IMG-VH-ALOS2001480148-200109-UBDR1.1__A-B4': "str:'VH_scan4'",
 '0 generated 149 IMG-VH-ALOS2001490149-200110-UBDR1.1__A-F5': "str:'VH_scan5'",
 '0 generated 150 IMG-VH-ALOS2001500150-200111-UBDR1.1__A-B6': "str:'VH_scan6'",
 '0 generated 151 IMG-VH-ALOS2001510151-200112-UBDR1.1__A-F7': "str:'VH_scan7'",
 '0 generated 152 IMG-VH-ALOS2001520152-200113-UBDR1.1__A-B8': "str:'VH_scan8'",
 '0 generated 153 IMG-VH-ALOS2001530153-200114-UBDR1.1__A-F9': "str:'VH_scan9'",
 '0 generated 154 IMG-VH-ALOS2001540154-200115-HBQR1.1__A': "str:'VH'",
 '0 generated 155 IMG-VH-ALOS2001550155-200116-HBQR1.1__A-F0': "str:'VH_scan0'",
 '0 generated 156 IMG-VH-ALOS2001560156-200117-HBQR1.1__A-B1': "str:'VH_scan1'",
 '0 generated 157 IMG-VH-ALOS2001570157-200118-HBQR1.1__A-F2': "str:'VH_scan2'",
 '0 generated 158 IMG-VH-ALOS2001580158-200119-HBQR1.1__A-B3': "str:'VH_scan3'",
 '0 generated 159 IMG-VH-ALOS2001590159-200120-HBQR1.1__A-F4': "str:'VH_scan4'",
 '0 generated 160 IMG-VH-ALOS2001600160-200121-HBQR1.1__A-B5': "str:'VH_scan5'",
 '0 generated 161 IMG-VH-ALOS2001610161-200122-HBQR1.1__A-F6': "str:'VH_scan6'",
 '0 generated 162 IMG-VH-ALOS2001620162-200123-HBQR1.1__A-B7': "str:'VH_scan7'",
 '0 generated 163 IMG-VH-ALOS2001630163-200124-HBQR1.1__A-F8': "str:'VH_scan8'",
 '0 generated 164 IMG-VH-ALOS2001640164-200125-HBQR1.1__A-B9': "str:'VH_scan9'",
 '0 generated 165 IMG-VH-ALOS2001650165-200126-FBSR1.1__A': "str:'VH'",
 '0 generated 166 IMG-VH-ALOS2001660166-200127-FBSR1.1__A-B0': "str:'VH_scan0'",
 '0 generated 167 IMG-VH-ALOS2001670167-200128-FBSR1.1__A-F1': "str:'VH_scan1'",
 '0 generated 168 IMG-VH-ALOS2001680168-200101-FBSR1.1__A-B2': "str:'VH_scan2'",
 '0 generated 169 IMG-VH-ALOS2001690169-200102-FBSR1.1__A-F3': "str:'VH_scan3'",
 '0 generated 170 IMG-VH-ALOS2001700170-200103-FBSR1.1__A-B4': "str:'VH_scan4'",
 '0 generated 171 IMG-VH-ALOS2001710171-200104-FBSR1.1__A-F5': "str:'VH_scan5'",
 '0 generated 172 IMG-VH-ALOS2001720172-200105-FBSR1.1__A-B6': "str:'VH_scan6'",
 '0 generated 173 IMG-VH-ALOS2001730173-200106-FBSR1.1__A-F7': "str:'VH_scan7'",
 '0 generated 174 IMG-VH-ALOS2001740174-200107-FBSR1.1__A-B8': "str:'VH_scan8'",
 '0 generated 175 IMG-VH-ALOS2001750175-200108-FBSR1.1__A-F9': "str:'VH_scan9'",
 '0 generated 176 IMG-VH-ALOS2001760176-200109-WWDR1.1__A': "str:'VH'",
 '0 generated 177 IMG-VH-ALOS2001770177-200110-WWDR1.1__A-F0': "str:'VH_scan0'",
 '0 generated 178 IMG-VH-ALOS2001780178-200111-WWDR1.1__A-B1': "str:'VH_scan1'",
 '0 generated 179 IMG-VH-ALOS2001790179-200112-WWDR1.1__A-F2': "str:'VH_scan2'",
 '0 generated 180 IMG-VH-ALOS2001800180-200113-WWDR1.1__A-B3': "str:'VH_scan3'",
 '0 generated 181 IMG-VH-ALOS2001810181-200114-WWDR1.1__A-F4': "str:'VH_scan4'",
 '0 generated 182 IMG-VH-ALOS2001820182-200115-WWDR1.1__A-B5': "str:'VH_scan5'",
 '0 generated 183 IMG-VH-ALOS2001830183-200116-WWDR1.1__A-F6': "str:'VH_scan6'",
 '0 generated 184 IMG-VH-ALOS2001840184-200117-WWDR1.1__A-B7': "str:'VH_scan7'",
 '0 generated 185 IMG-VH-ALOS2001850185-200118-WWDR1.1__A-F8': "str:'VH_scan8'",
 '0 generated 186 IMG-VH-ALOS2001860186-200119-WWDR1.1__A-B9': "str:'VH_scan9'",
 '0 generated 187 IMG-VH-ALOS2001870187-200120-VBSR1.1__A': "str:'VH'",
 '0 generated 188 IMG-VH-ALOS2001880188-200121-VBSR1.1__A-B0': "str:'VH_scan0'",
 '0 generated 189 IMG-VH-ALOS2001890189-200122-VBSR1.1__A-F1': "str:'VH_scan1'",
 '0 generated 190 IMG-VH-ALOS2001900190-200123-VBSR1.1__A-B2': "str:'VH_scan2'",
 '0 generated 191 IMG-VH-ALOS2001910191-200124-VBSR1.1__A-F3': "str:'VH_scan3'",
 '0 generated 192 IMG-VH-ALOS2001920192-200125-VBSR1.1__A-B4': "str:'VH_scan4'",
 '0 generated 193 IMG-VH-ALOS2001930193-200126-VBSR1.1__A-F5': "str:'VH_scan5'",
 '0 generated 194 IMG-VH-ALOS2001940194-200127-VBSR1.1__A-B6': "str:'VH_scan6'",
 '0 generated 195 IMG-VH-ALOS2001950195-200128-VBSR1.1__A-F7': "str:'VH_scan7'",
 '0 generated 196 IMG-VH-ALOS2001960196-200101-VBSR1.1__A-B8': "str:'VH_scan8'",
 '0 generated 197 IMG-VH-ALOS2001970197-200102-VBSR1.1__A-F9': "str:'VH_scan9'",
 '0 generated 198 IMG-VV-ALOS2001980198-200103-SBSR1.1__A': "str:'VV'",
 '0 generated 199 IMG-VV-ALOS2001990199-200104-SBSR1.1__A-F0': "str:'VV_scan0'",
 '0 generated 200 IMG-VV-ALOS2002000200-200105-SBSR1.1__A-B1': "str:'VV_scan1'",
 '0 generated 201 IMG-VV-ALOS2002010201-200106-SBSR1.1__A-F2': "str:'VV_scan2'",
 '0 generated 202 IMG-VV-ALOS2002020202-200107-SBSR1.1__A-B3': "str:'VV_scan3'",
 '0 generated 203 IMG-VV-ALOS2002030203-200108-SBSR1.1__A-F4': "str:'VV_scan4'",
 '0 generated 204 IMG-VV-ALOS2002040204-200109-SBSR1.1__A-B5': "str:'VV_scan5'",
 '0 generated 205 IMG-VV-ALOS2002050205-200110-SBSR1.1__A-F6': "str:'VV_scan6'",
 '0 generated 206 IMG-VV-ALOS2002060206-200111-SBSR1.1__A-B7': "str:'VV_scan7'",
 '0 generated 207 IMG-VV-ALOS2002070207-200112-SBSR1.1__A-F8': "str:'VV_scan8'",
 '0 generated 208 IMG-VV-ALOS2002080208-200113-SBSR1.1__A-B9': "str:'VV_scan9'",
 '0 generated 209 IMG-VV-ALOS2002090209-200114-UBDR1.1__A': "str:'VV'",
 '0 generated 210 IMG-VV-ALOS2002100210-200115-UBDR1.1__A-B0': "str:'VV_scan0'",
 '0 generated 211 IMG-VV-ALOS2002110211-200116-UBDR1.1__A-F1': "str:'VV_scan1'",
 '0 generated 212 IMG-VV-ALOS2002120212-200117-UBDR1.1__A-B2': "str:'VV_scan2'",
 '0 generated 213 IMG-VV-ALOS2002130213-200118-UBDR1.1__A-F3': "str:'VV_scan3'",
 '0 generated 214 IMG-VV-ALOS2002140214-200119-UBDR1.1__A-B4': "str:'VV_scan4'",
 '0 generated 215 IMG-VV-ALOS2002150215-200120-UBDR1.1__A-F5': "str:'VV_scan5'",
 '0 generated 216 IMG-VV-ALOS2002160216-200121-UBDR1.1__A-B6': "str:'VV_scan6'",
 '0 generated 217 IMG-VV-ALOS2002170217-200122-UBDR1.1__A-F7': "str:'VV_scan7'",
 '0 generated 218 IMG-VV-ALOS2002180218-200123-UBDR1.1__A-B8': "str:'VV_scan8'",
 '0 generated 219 IMG-VV-ALOS2002190219-200124-UBDR1.1__A-F9': "str:'VV_scan9'",
 '0 generated 220 IMG-VV-ALOS2002200220-200125-HBQR1.1__A': "str:'VV'",
 '0 generated 221 IMG-VV-ALOS2002210221-200126-HBQR1.1__A-F0': "str:'VV_scan0'",
 '0 generated 222 IMG-VV-ALOS2002220222-200127-HBQR1.1__A-B1': "str:'VV_scan1'",
 '0 generated 223 IMG-VV-ALOS2002230223-200128-HBQR1.1__A-F2': "str:'VV_scan2'",
 '0 generated 224 IMG-VV-ALOS2002240224-200101-HBQR1.1__A-B3': "str:'VV_scan3'",
 '0 generated 225 IMG-VV-ALOS2002250225-200102-HBQR1.1__A-F4': "str:'VV_scan4'",
 '0 generated 226 IMG-VV-ALOS2002260226-200103-HBQR1.1__A-B5': "str:'VV_scan5'",
 '0 generated 227 IMG-VV-ALOS2002270227-200104-HBQR1.1__A-F6': "str:'VV_scan6'",
 '0 generated 228 IMG-VV-ALOS2002280228-200105-HBQR1.1__A-B7': "str:'VV_scan7'",
 '0 generated 229 IMG-VV-ALOS2002290229-200106-HBQR1.1__A-F8': "str:'VV_scan8'",
 '0 generated 230 IMG-VV-ALOS2002300230-200107-HBQR1.1__A-B9': "str:'VV_scan9'",
 '0 generated 231 IMG-VV-ALOS2002310231-200108-FBSR1.1__A': "str:'VV'",
 '0 generated 232 IMG-VV-ALOS2002320232-200109-FBSR1.1__A-B0': "str:'VV_scan0'",
 '0 generated 233 IMG-VV-ALOS2002330233-200110-FBSR1.1__A-F1': "str:'VV_scan1'",
 '0 generated 234 IMG-VV-ALOS2002340234-200111-FBSR1.1__A-B2': "str:'VV_scan2'",
 '0 generated 235 IMG-VV-ALOS2002350235-200112-FBSR1.1__A-F3': "str:'VV_scan3'",
 '0 generated 236 IMG-VV-ALOS2002360236-200113-FBSR1.1__A-B4': "str:'VV_scan4'",
 '0 generated 237 IMG-VV-ALOS2002370237-200114-FBSR1.1__A-F5': "str:'VV_scan5'",
 '0 generated 238 IMG-VV-ALOS2002380238-200115-FBSR1.1__A-B6': "str:'VV_scan6'",
 '0 generated 239 IMG-VV-ALOS2002390239-200116-FBSR1.1__A-F7': "str:'VV_scan7'",
 '0 generated 240 IMG-VV-ALOS2002400240-200117-FBSR1.1__A-B8': "str:'VV_scan8'",
 '0 generated 241 IMG-VV-ALOS2002410241-200118-FBSR1.1__A-F9': "str:'VV_scan9'",
 '0 generated 242 IMG-VV-ALOS2002420242-200119-WWDR1.1__A': "str:'VV'",
 '0 generated 243 IMG-VV-ALOS2002430243-200120-WWDR1.1__A-F0': "str:'VV_scan0'",
 '0 generated 244 IMG-VV-ALOS2002440244-200121-WWDR1.1__A-B1': "str:'VV_scan1'",
 '0 generated 245 IMG-VV-ALOS2002450245-200122-WWDR1.1__A-F2': "str:'VV_scan2'",
 '0 generated 246 IMG-VV-ALOS2002460246-200123-WWDR1.1__A-B3': "str:'VV_scan3'",
 '0 generated 247 IMG-VV-ALOS2002470247-200124-WWDR1.1__A-F4': "str:'VV_scan4'",
 '0 generated 248 IMG-VV-ALOS2002480248-200125-WWDR1.1__A-B5': "str:'VV_scan5'",
 '0 generated 249 IMG-VV-ALOS2002490249-200126-WWDR1.1__A-F6': "str:'VV_scan6'",
 '0 generated 250 IMG-VV-ALOS2002500250-200127-WWDR1.1__A-B7': "str:'VV_scan7'",
 '0 generated 251 IMG-VV-ALOS2002510251-200128-WWDR1.1__A-F8': "str:'VV_scan8'",
 '0 generated 252 IMG-VV-ALOS2002520252-200101-WWDR1.1__A-B9': "str:'VV_scan9'",
 '0 generated 253 IMG-VV-ALOS2002530253-200102-VBSR1.1__A': "str:'VV'",
 '0 generated 254 IMG-VV-ALOS2002540254-200103-VBSR1.1__A-B0': "str:'VV_scan0'",
 '0 generated 255 IMG-VV-ALOS2002550255-200104-VBSR1.1__A-F1': "str:'VV_scan1'",
 '0 generated 256 IMG-VV-ALOS2002560256-200105-VBSR1.1__A-B2': "str:'VV_scan2'",
 '0 generated 257 IMG-VV-ALOS2002570257-200106-VBSR1.1__A-F3': "str:'VV_scan3'",
 '0 generated 258 IMG-VV-ALOS2002580258-200107-VBSR1.1__A-B4': "str:'VV_scan4'",
 '0 generated 259 IMG-VV-ALOS2002590259-200108-VBSR1.1__A-F5': "str:'VV_scan5'",
 '0 generated 260 IMG-VV-ALOS2002600260-200109-VBSR1.1__A-B6': "str:'VV_scan6'",
 '0 generated 261 IMG-VV-ALOS2002610261-200110-VBSR1.1__A-F7': "str:'VV_scan7'",
 '0 generated 262 IMG-VV-ALOS2002620262-200111-VBSR1.1__A-B8': "str:'VV_scan8'",
 '0 generated 263 IMG-VV-ALOS2002630263-200112-VBSR1.1__A-F9': "str:'VV_scan9'",
 '0 generated 264 IMG-ALOS2002640264-200113-SBSR1.1__A': "str:''",
 '0 generated 265 IMG-ALOS2002650265-200114-SBSR1.1__A-F0': "str:'scan0'",
 '0 generated 266 IMG-ALOS2002660266-200115-SBSR1.1__A-B1': "str:'scan1'",
 '0 generated 267 IMG-ALOS2002670267-200116-SBSR1.1__A-F2': "str:'scan2'",
 '0 generated 268 IMG-ALOS2002680268-200117-SBSR1.1__A-B3': "str:'scan3'",
 '0 generated 269 IMG-ALOS2002690269-200118-SBSR1.1__A-F4': "str:'scan4'",
 '0 generated 270 IMG-ALOS2002700270-200119-SBSR1.1__A-B5': "str:'scan5'",
 '0 generated 271 IMG-ALOS2002710271-200120-SBSR1.1__A-F6': "str:'scan6'",
 '0 generated 272 IMG-ALOS2002720272-200121-SBSR1.1__A-B7': "str:'scan7'",
 '0 generated 273 IMG-ALOS2002730273-200122-SBSR1.1__A-F8': "str:'scan8'",
 '0 generated 274 IMG-ALOS2002740274-200123-SBSR1.1__A-B9': "str:'scan9'",
 '0 generated 275 IMG-ALOS2002750275-200124-UBDR1.1__A': "str:''",
 '0 generated 276 IMG-ALOS2002760276-200125-UBDR1.1__A-B0': "str:'scan0'",
 '0 generated 277 IMG-ALOS2002770277-200126-UBDR1.1__A-F1': "str:'scan1'",
 '0 generated 278 IMG-ALOS2002780278-200127-UBDR1.1__A-B2': "str:'scan2'",
 '0 generated 279 IMG-ALOS2002790279-200128-UBDR1.1__A-F3': "str:'scan3'",
 '0 generated 280 IMG-ALOS2002800280-200101-UBDR1.1__A-B4': "str:'scan4'",
 '0 generated 281 IMG-ALOS2002810281-200102-UBDR1.1__A-F5': "str:'scan5'",
 '0 generated 282 IMG-ALOS2002820282-200103-UBDR1.1__A-B6': "str:'scan6'",
 '0 generated 283 IMG-ALOS2002830283-200104-UBDR1.1__A-F7': "str:'scan7'",
 '0 generated 284 IMG-ALOS2002840284-200105-UBDR1.1__A-B8': "str:'scan8'",
 '0 generated 285 IMG-ALOS2002850285-200106-UBDR1.1__A-F9': "str:'scan9'",
 '0 generated 286 IMG-ALOS2002860286-200107-HBQR1.1__A': "str:''",
 '0 generated 287 IMG-ALOS2002870287-200108-HBQR1.1__A-F0': "str:'scan0'",
 '0 generated 288 IMG-ALOS2002880288-200109-HBQR1.1__A-B1': "str:'scan1'",
 '0 generated 289 IMG-ALOS2002890289-200110-HBQR1.1__A-F2': "str:'scan2'",
 '0 generated 290 IMG-ALOS2002900290-200111-HBQR1.1__A-B3': "str:'scan3'",
 '0 generated 291 IMG-ALOS2002910291-200112-HBQR1.1__A-F4': "str:'scan4'",
 '0 generated 292 IMG-ALOS2002920292-200113-HBQR1.1__A-B5': "str:'scan5'",
 '0 generated 293 IMG-ALOS2002930293-200114-HBQR1.1__A-F6': "str:'scan6'",
 '0 generated 294 IMG-ALOS2002940294-200115-HBQR1.1__A-B7': "str:'scan7'",
 '0 generated 295 IMG-ALOS2002950295-200116-HBQR1.1__A-F8': "str:'scan8'",
 '0 generated 296 IMG-ALOS2002960296-200117-HBQR1.1__A-B9': "str:'scan9'",
 '0 generated 297 IMG-ALOS2002970297-200118-FBSR1.1__A': "str:''",
 '0 generated 298 IMG-ALOS2002980298-200119-FBSR1.1__A-B0': "str:'scan0'",
 '0 generated 299 IMG-ALOS2002990299-200120-FBSR1.1__A-F1': "str:'scan1'",
 '0 generated 300 IMG-ALOS2003000300-200121-FBSR1.1__A-B2': "str:'scan2'",
 '0 generated 301 IMG-ALOS2003010301-200122-FBSR1.1__A-F3': "str:'scan3'",
 '0 generated 302 IMG-ALOS2003020302-200123-FBSR1.1__A-B4': "str:'scan4'",
 '0 generated 303 IMG-ALOS2003030303-200124-FBSR1.1__A-F5': "str:'scan5'",
 '0 generated 304 IMG-ALOS2003040304-200125-FBSR1.1__A-B6': "str:'scan6'",
 '0 generated 305 IMG-ALOS2003050305-200126-FBSR1.1__A-F7': "str:'scan7'",
 '0 generated 306 IMG-ALOS2003060306-200127-FBSR1.1__A-B8': "str:'scan8'",
 '0 generated 307 IMG-ALOS2003070307-200128-FBSR1.1__A-F9': "str:'scan9'",
 '0 generated 308 IMG-ALOS2003080308-200101-WWDR1.1__A': "str:''",
 '0 generated 309 IMG-ALOS2003090309-200102-WWDR1.1__A-F0': "str:'scan0'",
 '0 generated 310 IMG-ALOS2003100310-200103-WWDR1.1__A-B1': "str:'scan1'",
 '0 generated 311 IMG-ALOS2003110311-200104-WWDR1.1__A-F2': "str:'scan2'",
 '0 generated 312 IMG-ALOS2003120312-200105-WWDR1.1__A-B3': "str:'scan3'",
 '0 generated 313 IMG-ALOS2003130313-200106-WWDR1.1__A-F4': "str:'scan4'",
 '0 generated 314 IMG-ALOS2003140314-200107-WWDR1.1__A-B5': "str:'scan5'",
 '0 generated 315 IMG-ALOS2003150315-200108-WWDR1.1__A-F6': "str:'scan6'",
 '0 generated 316 IMG-ALOS2003160316-200109-WWDR1.1__A-B7': "str:'scan7'",
 '0 generated 317 IMG-ALOS2003170317-200110-WWDR1.1__A-F8': "str:'scan8'",
 '0 generated 318 IMG-ALOS2003180318-200111-WWDR1.1__A-B9': "str:'scan9'",
 '0 generated 319 IMG-ALOS2003190319-200112-VBSR1.1__A': "str:''",
 '0 generated 320 IMG-ALOS2003200320-200113-VBSR1.1__A-B0': "str:'scan0'",
 '0 generated 321 IMG-ALOS2003210321-200114-VBSR1.1__A-F1': "str:'scan1'",
 '0 generated 322 IMG-ALOS2003220322-200115-VBSR1.1__A-B2': "str:'scan2'",
 '0 generated 323 IMG-ALOS2003230323-200116-VBSR1.1__A-F3': "str:'scan3'",
 '0 generated 324 IMG-ALOS2003240324-200117-VBSR1.1__A-B4': "str:'scan4'",
 '0 generated 325 IMG-ALOS2003250325-200118-VBSR1.1__A-F5': "str:'scan5'",
 '0 generated 326 IMG-ALOS2003260326-200119-VBSR1.1__A-B6': "str:'scan6'",
 '0 generated 327 IMG-ALOS2003270327-200120-VBSR1.1__A-F7': "str:'scan7'",
 '0 generated 328 IMG-ALOS2003280328-200121-VBSR1.1__A-B8': "str:'scan8'",
 '0 generated 329 IMG-ALOS2003290329-200122-VBSR1.1__A-F9': "str:'scan9'",
 '0 generated, reversed 0 IMG-ALOS2003270327-200120-VBSR1.1__A-F7': "str:'scan7'",
 '0 generated, reversed 1 IMG-ALOS2003240324-200117-VBSR1.1__A-B4': "str:'scan4'",
 '0 generated, reversed 2 IMG-ALOS2003210321-200114-VBSR1.1__A-F1': "str:'scan1'",
 '0 generated, reversed 3 IMG-ALOS2003180318-200111-WWDR1.1__A-B9': "str:'scan9'",
 '0 generated, reversed 4 IMG-ALOS2003150315-200108-WWDR1.1__A-F6': "str:'scan6'",
 '0 generated, reversed 5 IMG-ALOS2003120312-200105-WWDR1.1__A-B3': "str:'scan3'",
 '0 generated, reversed 6 IMG-ALOS2003090309-200102-WWDR1.1__A-F0': "str:'scan0'",
 '0 generated, reversed 7 IMG-ALOS2003060306-200127-FBSR1.1__A-B8': "str:'scan8'",
 '0 generated, reversed 8 IMG-ALOS2003030303-200124-FBSR1.1__A-F5': "str:'scan5'",
 '0 generated, reversed 9 IMG-ALOS2003000300-200121-FBSR1.1__A-B2': "str:'scan2'",
 '0 generated, reversed 10 IMG-ALOS2002970297-200118-FBSR1.1__A': "str:''",
 '0 generated, reversed 11 IMG-ALOS2002940294-200115-HBQR1.1__A-B7': "str:'scan7'",
 '0 generated, reversed 12 IMG-ALOS2002910291-200112-HBQR1.1__A-F4': "str:'scan4'",
 '0 generated, reversed 13 IMG-ALOS2002880288-200109-HBQR1.1__A-B1': "str:'scan1'",
 '0 generated, reversed 14 IMG-ALOS2002850285-200106-UBDR1.1__A-F9': "str:'scan9'",
 '0 generated, reversed 15 IMG-ALOS2002820282-200103-UBDR1.1__A-B6': "str:'scan6'",
 '0 generated, reversed 16 IMG-ALOS2002790279-200128-UBDR1.1__A-F3': "str:'scan3'",
 '0 generated, reversed 17 IMG-ALOS2002760276-200125-UBDR1.1__A-B0': "str:'scan0'",
 '0 generated, reversed 18 IMG-ALOS2002730273-200122-SBSR1.1__A-F8': "str:'scan8'",
 '0 generated, reversed 19 IMG-ALOS2002700270-200119-SBSR1.1__A-B5': "str:'scan5'",
 '0 generated, reversed 20 IMG-ALOS2002670267-200116-SBSR1.1__A-F2': "str:'scan2'",
 '0 generated, reversed 21 IMG-ALOS2002640264-200113-SBSR1.1__A': "str:''",
 '0 generated, reversed 22 IMG-VV-ALOS2002610261-200110-VBSR1.1__A-F7': "str:'VV_scan7'",
 '0 generated, reversed 23 IMG-VV-ALOS2002580258-200107-VBSR1.1__A-B4': "str:'VV_scan4'",
 '0 generated, reversed 24 IMG-VV-ALOS2002550255-200104-VBSR1.1__A-F1': "str:'VV_scan1'",
 '0 generated, reversed 25 IMG-VV-ALOS2002520252-200101-WWDR1.1__A-B9': "str:'VV_scan9'",
 '0 generated, reversed 26 IMG-VV-ALOS2002490249-200126-WWDR1.1__A-F6': "str:'VV_scan6'",
 '0 generated, reversed 27 IMG-VV-ALOS2002460246-200123-WWDR1.1__A-B3': "str:'VV_scan3'",
 '0 generated, reversed 28 IMG-VV-ALOS2002430243-200120-WWDR1.1__A-F0': "str:'VV_scan0'",
 '0 generated, reversed 29 IMG-VV-ALOS2002400240-200117-FBSR1.1__A-B8': "str:'VV_scan8'",
 '0 generated, reversed 30 IMG-VV-ALOS2002370237-200114-FBSR1.1__A-F5': "str:'VV_scan5'",
 '0 generated, reversed 31 IMG-VV-ALOS2002340234-200111-FBSR1.1__A-B2': "str:'VV_scan2'",
 '0 generated, reversed 32 IMG-VV-ALOS2002310231-200108-FBSR1.1__A': "str:'VV'",
 '0 generated, reversed 33 IMG-VV-ALOS2002280228-200105-HBQR1.1__A-B7': "str:'VV_scan7'",
 '0 generated, reversed 34 IMG-VV-ALOS2002250225-200102-HBQR1.1__A-F4': "str:'VV_scan4'",
 '0 generated, reversed 35 IMG-VV-ALOS2002220222-200127-HBQR1.1__A-B1': "str:'VV_scan1'",
 '0 generated, reversed 36 IMG-VV-ALOS2002190219-200124-UBDR1.1__A-F9': "str:'VV_scan9'",
 '0 generated, reversed 37 IMG-VV-ALOS2002160216-200121-UBDR1.1__A-B6': "str:'VV_scan6'",
 '0 generated, reversed 38 IMG-VV-ALOS2002130213-200118-UBDR1.1__A-F3': "str:'VV_scan3'",
 '0 generated, reversed 39 IMG-VV-ALOS2002100210-200115-UBDR1.1__A-B0': "str:'VV_scan0'",
 '0 generated, reversed 40 IMG-VV-ALOS2002070207-200112-SBSR1.1__A-F8': "str:'VV_scan8'",
 '0 generated, reversed 41 IMG-VV-ALOS2002040204-200109-SBSR1.1__A-B5': "str:'VV_scan5'",
 '0 generated, reversed 42 IMG-VV-ALOS2002010201-200106-SBSR1.1__A-F2': "str:'VV_scan2'",
 '0 generated, reversed 43 IMG-VV-ALOS2001980198-200103-SBSR1.1__A': "str:'VV'",
 '0 generated, reversed 44 IMG-VH-ALOS2001950195-200128-VBSR1.1__A-F7': "str:'VH_scan7'",
 '0 generated, reversed 45 IMG-VH-ALOS2001920192-200125-VBSR1.1__A-B4': "str:'VH_scan4'",
 '0 generated, reversed 46 IMG-VH-ALOS2001890189-200122-VBSR1.1__A-F1': "str:'VH_scan1'",
 '0 generated, reversed 47 IMG-VH-ALOS2001860186-200119-WWDR1.1__A-B9': "str:'VH_scan9'",
 '0 generated, reversed 48 IMG-VH-ALOS2001830183-200116-WWDR1.1__A-F6': "str:'VH_scan6'",
 '0 generated, reversed 49 IMG-VH-ALOS2001800180-200113-WWDR1.1__A-B3': "str:'VH_scan3'",
 '0 generated, reversed 50 IMG-VH-ALOS2001770177-200110-WWDR1.1__A-F0': "str:'VH_scan0'",
 '0 generated, reversed 51 IMG-VH-ALOS2001740174-200107-FBSR1.1__A-B8': "str:'VH_scan8'",
 '0 generated, reversed 52 IMG-VH-ALOS2001710171-200104-FBSR1.1__A-F5': "str:'VH_scan5'",
 '0 generated, reversed 53 IMG-VH-ALOS2001680168-200101-FBSR1.1__A-B2': "str:'VH_scan2'",
 '0 generated, reversed 54 IMG-VH-ALOS2001650165-200126-FBSR1.1__A': "str:'VH'",
 '0 generated, reversed 55 IMG-VH-ALOS2001620162-200123-HBQR1.1__A-B7': "str:'VH_scan7'",
 '0 generated, reversed 56 IMG-VH-ALOS2001590159-200120-HBQR1.1__A-F4': "str:'VH_scan4'",
 '0 generated, reversed 57 IMG-VH-ALOS2001560156-200117-HBQR1.1__A-B1': "str:'VH_scan1'",
 '0 generated, reversed 58 IMG-VH-ALOS2001530153-200114-UBDR1.1__A-F9': "str:'VH_scan9'",
 '0 generated, reversed 59 IMG-VH-ALOS2001500150-200111-UBDR1.1__A-B6': "str:'VH_scan6'",
 '0 generated, reversed 60 IMG-VH-ALOS2001470147-200108-UBDR1.1__A-F3': "str:'VH_scan3'",
 '0 generated, reversed 61 IMG-VH-ALOS2001440144-200105-UBDR1.1__A-B0': "str:'VH_scan0'",
 '0 generated, reversed 62 IMG-VH-ALOS2001410141-200102-SBSR1.1__A-F8': "str:'VH_scan8'",
 '0 generated, reversed 63 IMG-VH-ALOS2001380138-200127-SBSR1.1__A-B5': "str:'VH_scan5'",
 '0 generated, reversed 64 IMG-VH-ALOS2001350135-200124-SBSR1.1__A-F2': "str:'VH_scan2'",
 '0 generated, reversed 65 IMG-VH-ALOS2001320132-200121-SBSR1.1__A': "str:'VH'",
 '0 generated, reversed 66 IMG-HV-ALOS2001290129-200118-VBSR1.1__A-F7': "str:'HV_scan7'",
 '0 generated, reversed 67 IMG-HV-ALOS2001260126-200115-VBSR1.1__A-B4': "str:'HV_scan4'",
 '0 generated, reversed 68 IMG-HV-ALOS2001230123-200112-VBSR1.1__A-F1': "str:'HV_scan1'",
 '0 generated, reversed 69 IMG-HV-ALOS2001200120-200109-WWDR1.1__A-B9': "str:'HV_scan9'",
 '0 generated, reversed 70 IMG-HV-ALOS2001170117-200106-WWDR1.1__A-F6': "str:'HV_scan6'",
 '0 generated, reversed 71 IMG-HV-ALOS2001140114-200103-WWDR1.1__A-B3': "str:'HV_scan3'",
 '0 generated, reversed 72 IMG-HV-ALOS2001110111-200128-WWDR1.1__A-F0': "str:'HV_scan0'",
 '0 generated, reversed 73 IMG-HV-ALOS2001080108-200125-FBSR1.1__A-B8': "str:'HV_scan8'",
 '0 generated, reversed 74 IMG-HV-ALOS2001050105-200122-FBSR1.1__A-F5': "str:'HV_scan5'",
 '0 generated, reversed 75 IMG-HV-ALOS2001020102-200119-FBSR1.1__A-B2': "str:'HV_scan2'",
 '0 generated, reversed 76 IMG-HV-ALOS2000990099-200116-FBSR1.1__A': "str:'HV'",
 '0 generated, reversed 77 IMG-HV-ALOS2000960096-200113-HBQR1.1__A-B7': "str:'HV_scan7'",
 '0 generated, reversed 78 IMG-HV-ALOS2000930093-200110-HBQR1.1__A-F4': "str:'HV_scan4'",
 '0 generated, reversed 79 IMG-HV-ALOS2000900090-200107-HBQR1.1__A-B1': "str:'HV_scan1'",
 '0 generated, reversed 80 IMG-HV-ALOS2000870087-200104-UBDR1.1__A-F9': "str:'HV_scan9'",
 '0 generated, reversed 81 IMG-HV-ALOS2000840084-200101-UBDR1.1__A-B6': "str:'HV_scan6'",
 '0 generated, reversed 82 IMG-HV-ALOS2000810081-200126-UBDR1.1__A-F3': "str:'HV_scan3'",
 '0 generated, reversed 83 IMG-HV-ALOS2000780078-200123-UBDR1.1__A-B0': "str:'HV_scan0'",
 '0 generated, reversed 84 IMG-HV-ALOS2000750075-200120-SBSR1.1__A-F8': "str:'HV_scan8'",
 '0 generated, reversed 85 IMG-HV-ALOS2000720072-200117-SBSR1.1__A-B5': "str:'HV_scan5'",
 '0 generated, reversed 86 IMG-HV-ALOS2000690069-200114-SBSR1.1__A-F2': "str:'HV_scan2'",
 '0 generated, reversed 87 IMG-HV-ALOS2000660066-200111-SBSR1.1__A': "str:'HV'",
 '0 generated, reversed 88 IMG-HH-ALOS2000630063-200108-VBSR1.1__A-F7': "str:'HH_scan7'",
 '0 generated, reversed 89 IMG-HH-ALOS2000600060-200105-VBSR1.1__A-B4': "str:'HH_scan4'",
 '0 generated, reversed 90 IMG-HH-ALOS2000570057-200102-VBSR1.1__A-F1': "str:'HH_scan1'",
 '0 generated, reversed 91 IMG-HH-ALOS2000540054-200127-WWDR1.1__A-B9': "str:'HH_scan9'",
 '0 generated, reversed 92 IMG-HH-ALOS2000510051-200124-WWDR1.1__A-F6': "str:'HH_scan6'",
 '0 generated, reversed 93 IMG-HH-ALOS2000480048-200121-WWDR1.1__A-B3': "str:'HH_scan3'",
 '0 generated, reversed 94 IMG-HH-ALOS2000450045-200118-WWDR1.1__A-F0': "str:'HH_scan0'",
 '0 generated, reversed 95 IMG-HH-ALOS2000420042-200115-FBSR1.1__A-B8': "str:'HH_scan8'",
 '0 generated, reversed 96 IMG-HH-ALOS2000390039-200112-FBSR1.1__A-F5': "str:'HH_scan5'",
 '0 generated, reversed 97 IMG-HH-ALOS2000360036-200109-FBSR1.1__A-B2': "str:'HH_scan2'",
 '0 generated, reversed 98 IMG-HH-ALOS2000330033-200106-FBSR1.1__A': "str:'HH'",
 '0 generated, reversed 99 IMG-HH-ALOS2000300030-200103-HBQR1.1__A-B7': "str:'HH_scan7'",
 '0 generated, reversed 100 IMG-HH-ALOS2000270027-200128-HBQR1.1__A-F4': "str:'HH_scan4'",
 '0 generated, reversed 101 IMG-HH-ALOS2000240024-200125-HBQR1.1__A-B1': "str:'HH_scan1'",
 '0 generated, reversed 102 IMG-HH-ALOS2000210021-200122-UBDR1.1__A-F9': "str:'HH_scan9'",
 '0 generated, reversed 103 IMG-HH-ALOS2000180018-200119-UBDR1.1__A-B6': "str:'HH_scan6'",
 '0 generated, reversed 104 IMG-HH-ALOS2000150015-200116-UBDR1.1__A-F3': "str:'HH_scan3'",
 '0 generated, reversed 105 IMG-HH-ALOS2000120012-200113-UBDR1.1__A-B0': "str:'HH_scan0'",
 '0 generated, reversed 106 IMG-HH-ALOS2000090009-200110-SBSR1.1__A-F8': "str:'HH_scan8'",
 '0 generated, reversed 107 IMG-HH-ALOS2000060006-200107-SBSR1.1__A-B5': "str:'HH_scan5'",
 '0 generated, reversed 108 IMG-HH-ALOS2000030003-200104-SBSR1.1__A-F2': "str:'HH_scan2'",
 '0 generated, reversed 109 IMG-HH-ALOS2000000000-200101-SBSR1.1__A': "str:'HH'",
 "1 name 0 'IMG-HH-ALOS2225333100-180726-WWDR1.1__D-B3'": "str:'HH_scan3'",
 "1 name 0 'IMG-HH-ALOS2225333100-180726-WWDR1.1__D-B3' again": "str:'HH_scan3'",
 "1 name 1 'IMG-HV-ALOS2290760600-191011-WWDR1.5RUA'": "str:'HV'",
 "1 name 1 'IMG-HV-ALOS2290760600-191011-WWDR1.5RUA' again": "str:'HV'",
 "1 name 2 'IMG-VV-ALOS2225333100-180726-WWDR1.1__D-F1'": "str:'VV_scan1'",
 "1 name 2 'IMG-VV-ALOS2225333100-180726-WWDR1.1__D-F1' again": "str:'VV_scan1'",
 "1 name 3 'IMG-VH-ALOS2225333100-180726-WWDR1.1__D-B0'": "str:'VH_scan0'",
 "1 name 3 'IMG-VH-ALOS2225333100-180726-WWDR1.1__D-B0' again": "str:'VH_scan0'",
 "1 name 4 'IMG-HH-ALOS2225333100-180726-WWDR1.1__D-F9'": "str:'HH_scan9'",
 "1 name 4 'IMG-HH-ALOS2225333100-180726-WWDR1.1__D-F9' again": "str:'HH_scan9'",
 "1 name 5 'IMG-HH-ALOS2225333100-180726-WWDR1.1__D'": "str:'HH'",
 "1 name 5 'IMG-HH-ALOS2225333100-180726-WWDR1.1__D' again": "str:'HH'",
 "1 name 6 'IMG-ALOS2225333100-180726-WWDR1.1__D'": "str:''",
 "1 name 6 'IMG-ALOS2225333100-180726-WWDR1.1__D' again": "str:''",
 "1 name 7 'IMG-ALOS2225333100-180726-WWDR1.1__D-B5'": "str:'scan5'",
 "1 name 7 'IMG-ALOS2225333100-180726-WWDR1.1__D-B5' again": "str:'scan5'",
 "1 name 8 'LED-ALOS2225333100-180726-WWDR1.1__D'": "str:''",
 "1 name 8 'LED-ALOS2225333100-180726-WWDR1.1__D' again": "str:''",
 "1 name 9 'TRL-ALOS2225333100-180726-WWDR1.1__D'": "str:''",
 "1 name 9 'TRL-ALOS2225333100-180726-WWDR1.1__D' again": "str:''",
 "1 name 10 'VOL-ALOS2225333100-180726-WWDR1.1__D'": "str:''",
 "1 name 10 'VOL-ALOS2225333100-180726-WWDR1.1__D' again": "str:''",
 "1 name 11 'XYZ-HV-ALOS2225333100-180726-WWDR1.1__D-B2'": "str:'HV_scan2'",
 "1 name 11 'XYZ-HV-ALOS2225333100-180726-WWDR1.1__D-B2' again": "str:'HV_scan2'",
 "1 name 12 'IMG-HH-ALOS2000000000-000101-SBSL1.0__A'": "str:'HH'",
 "1 name 12 'IMG-HH-ALOS2000000000-000101-SBSL1.0__A' again": "str:'HH'",
 "1 name 13 'IMG-HH-ALOS2999999999-991231-VBDR3.1GUD'": "str:'HH'",
 "1 name 13 'IMG-HH-ALOS2999999999-991231-VBDR3.1GUD' again": "str:'HH'",
 "1 name 14 'IMG-HH-ABCDE12345ABCD-200229-FBQR1.5GPA-F7'": 'raises ValueError: invalid scene id: '
                                                           'ABCDE12345ABCD-200229 (cause: None, '
                                                           'context: None)',
 "1 name 14 'IMG-HH-ABCDE12345ABCD-200229-FBQR1.5GPA-F7' again": 'raises ValueError: invalid scene '
                                                                 'id: ABCDE12345ABCD-200229 '
                                                                 '(cause: None, context: None)',
 "1 name 15 ''": 'raises ValueError: invalid file name:  (cause: None, context: None)',
 "1 name 15 '' again": 'raises ValueError: invalid file name:  (cause: None, context: None)',
 "1 name 16 'IMG'": 'raises ValueError: invalid file name: IMG (cause: None, context: None)',
 "1 name 16 'IMG' again": 'raises ValueError: invalid file name: IMG (cause: None, context: None)',
 "1 name 17 'IMG-HH'": 'raises ValueError: invalid file name: IMG-HH (cause: None, context: None)',
 "1 name 17 'IMG-HH' again": 'raises ValueError: invalid file name: IMG-HH (cause: None, context: '
                             'None)',
 "1 name 18 'img-hh-alos2225333100-180726-wwdr1.1__d-b3'": 'raises ValueError: invalid file name: '
                                                           'img-hh-alos2225333100-180726-wwdr1.1__d-b3 '
                                                           '(cause: None, context: None)',
 "1 name 18 'img-hh-alos2225333100-180726-wwdr1.1__d-b3' again": 'raises ValueError: invalid file '
                                                                 'name: '
                                                                 'img-hh-alos2225333100-180726-wwdr1.1__d-b3 '
                                                                 '(cause: None, context: None)',
 "1 name 19 'IMG-HX-ALOS2225333100-180726-WWDR1.1__D-B3'": 'raises ValueError: invalid file name: '
                                                           'IMG-HX-ALOS2225333100-180726-WWDR1.1__D-B3 '
                                                           '(cause: None, context: None)',
 "1 name 19 'IMG-HX-ALOS2225333100-180726-WWDR1.1__D-B3' again": 'raises ValueError: invalid file '
                                                                 'name: '
                                                                 'IMG-HX-ALOS2225333100-180726-WWDR1.1__D-B3 '
                                                                 '(cause: None, context: None)',
 "1 name 20 'IMG-H-ALOS2225333100-180726-WWDR1.1__D-B3'": 'raises ValueError: invalid file name: '
                                                          'IMG-H-ALOS2225333100-180726-WWDR1.1__D-B3 '
                                                          '(cause: None, context: None)',
 "1 name 20 'IMG-H-ALOS2225333100-180726-WWDR1.1__D-B3' again": 'raises ValueError: invalid file '
                                                                'name: '
                                                                'IMG-H-ALOS2225333100-180726-WWDR1.1__D-B3 '
                                                                '(cause: None, context: None)',
 "1 name 21 'IMG-HHH-ALOS2225333100-180726-WWDR1.1__D-B3'": 'raises ValueError: invalid file name: '
                                                            'IMG-HHH-ALOS2225333100-180726-WWDR1.1__D-B3 '
                                                            '(cause: None, context: None)',
 "1 name 21 'IMG-HHH-ALOS2225333100-180726-WWDR1.1__D-B3' again": 'raises ValueError: invalid file '
                                                                  'name: '
                                                                  'IMG-HHH-ALOS2225333100-180726-WWDR1.1__D-B3 '
                                                                  '(cause: None, context: None)',
 "1 name 22 'IMG-HH-ALOS2225333100-180726-WWDR1.1__D-B'": 'raises ValueError: invalid file name: '
                                                          'IMG-HH-ALOS2225333100-180726-WWDR1.1__D-B '
                                                          '(cause: None, context: None)',
 "1 name 22 'IMG-HH-ALOS2225333100-180726-WWDR1.1__D-B' again": 'raises ValueError: invalid file '
                                                                'name: '
                                                                'IMG-HH-ALOS2225333100-180726-WWDR1.1__D-B '
                                                                '(cause: None, context: None)',
 "1 name 23 'IMG-HH-ALOS2225333100-180726-WWDR1.1__D-B33'": 'raises ValueError: invalid file name: '
                                                            'IMG-HH-ALOS2225333100-180726-WWDR1.1__D-B33 '
                                                            '(cause: None, context: None)',
 "1 name 23 'IMG-HH-ALOS2225333100-180726-WWDR1.1__D-B33' again": 'raises ValueError: invalid file '
                                                                  'name: '
                                                                  'IMG-HH-ALOS2225333100-180726-WWDR1.1__D-B33 '
                                                                  '(cause: None, context: None)',
 "1 name 24 'IMG-HH-ALOS2225333100-180726-WWDR1.1__D-A3'": 'raises ValueError: invalid file name: '
                                                           'IMG-HH-ALOS2225333100-180726-WWDR1.1__D-A3 '
                                                           '(cause: None, context: None)',
 "1 name 24 'IMG-HH-ALOS2225333100-180726-WWDR1.1__D-A3' again": 'raises ValueError: invalid file '
                                                                 'name: '
                                                                 'IMG-HH-ALOS2225333100-180726-WWDR1.1__D-A3 '
                                                                 '(cause: None, context: None)',
 "1 name 25 'IMG-HH-ALOS2225333100-180726-WWDR1.1__D-B3 '": 'raises ValueError: invalid file name: '
                                                            'IMG-HH-ALOS2225333100-180726-WWDR1.1__D-B3  '
                                                            '(cause: None, context: None)',
 "1 name 25 'IMG-HH-ALOS2225333100-180726-WWDR1.1__D-B3 ' again": 'raises ValueError: invalid file '
                                                                  'name: '
                                                                  'IMG-HH-ALOS2225333100-180726-WWDR1.1__D-B3  '
                                                                  '(cause: None, context: None)',
 "1 name 26 ' IMG-HH-ALOS2225333100-180726-WWDR1.1__D-B3'": 'raises ValueError: invalid file '
                                                            'name:  '
                                                            'IMG-HH-ALOS2225333100-180726-WWDR1.1__D-B3 '
                                                            '(cause: None, context: None)',
 "1 name 26 ' IMG-HH-ALOS2225333100-180726-WWDR1.1__D-B3' again": 'raises ValueError: invalid file '
                                                                  'name:  '
                                                                  'IMG-HH-ALOS2225333100-180726-WWDR1.1__D-B3 '
                                                                  '(cause: None, context: None)',
 "1 name 27 'IMG-HH-ALOS2225333100-180726-WWDR1.1__D-B3\\n'": 'raises ValueError: invalid file '
                                                              'name: '
                                                              'IMG-HH-ALOS2225333100-180726-WWDR1.1__D-B3\n'
                                                              ' (cause: None, context: None)',
 "1 name 27 'IMG-HH-ALOS2225333100-180726-WWDR1.1__D-B3\\n' again": 'raises ValueError: invalid '
                                                                    'file name: '
                                                                    'IMG-HH-ALOS2225333100-180726-WWDR1.1__D-B3\n'
                                                                    ' (cause: None, context: None)',
 "1 name 28 'IMG-HH-ALOS2225333100-180732-WWDR1.1__D-B3'": 'raises ValueError: invalid scene id: '
                                                           'ALOS2225333100-180732 (cause: '
                                                           'ValueError, context: ValueError)',
 "1 name 28 'IMG-HH-ALOS2225333100-180732-WWDR1.1__D-B3' again": 'raises ValueError: invalid scene '
                                                                 'id: ALOS2225333100-180732 '
                                                                 '(cause: ValueError, context: '
                                                                 'ValueError)',
 "1 name 29 'IMG-HH-ALOS2225333100-181326-WWDR1.1__D-B3'": 'raises ValueError: invalid scene id: '
                                                           'ALOS2225333100-181326 (cause: '
                                                           'ValueError, context: ValueError)',
 "1 name 29 'IMG-HH-ALOS2225333100-181326-WWDR1.1__D-B3' again": 'raises ValueError: invalid scene '
                                                                 'id: ALOS2225333100-181326 '
                                                                 '(cause: ValueError, context: '
                                                                 'ValueError)',
 "1 name 30 'IMG-HH-ALOS2225333100-190229-WWDR1.1__D-B3'": 'raises ValueError: invalid scene id: '
                                                           'ALOS2225333100-190229 (cause: '
                                                           'ValueError, context: ValueError)',
 "1 name 30 'IMG-HH-ALOS2225333100-190229-WWDR1.1__D-B3' again": 'raises ValueError: invalid scene '
                                                                 'id: ALOS2225333100-190229 '
                                                                 '(cause: ValueError, context: '
                                                                 'ValueError)',
 "1 name 31 'IMG-HH-ALOS2225333100-000000-WWDR1.1__D-B3'": 'raises ValueError: invalid scene id: '
                                                           'ALOS2225333100-000000 (cause: '
                                                           'ValueError, context: ValueError)',
 "1 name 31 'IMG-HH-ALOS2225333100-000000-WWDR1.1__D-B3' again": 'raises ValueError: invalid scene '
                                                                 'id: ALOS2225333100-000000 '
                                                                 '(cause: ValueError, context: '
                                                                 'ValueError)',
 "1 name 32 'IMG-HH-ALOS2225333100-18072-WWDR1.1__D-B3'": 'raises ValueError: invalid file name: '
                                                          'IMG-HH-ALOS2225333100-18072-WWDR1.1__D-B3 '
                                                          '(cause: None, context: None)',
 "1 name 32 'IMG-HH-ALOS2225333100-18072-WWDR1.1__D-B3' again": 'raises ValueError: invalid file '
                                                                'name: '
                                                                'IMG-HH-ALOS2225333100-18072-WWDR1.1__D-B3 '
                                                                '(cause: None, context: None)',
 "1 name 33 'IMG-HH-ALOS222533310-180726-WWDR1.1__D-B3'": 'raises ValueError: invalid file name: '
                                                          'IMG-HH-ALOS222533310-180726-WWDR1.1__D-B3 '
                                                          '(cause: None, context: None)',
 "1 name 33 'IMG-HH-ALOS222533310-180726-WWDR1.1__D-B3' again": 'raises ValueError: invalid file '
                                                                'name: '
                                                                'IMG-HH-ALOS222533310-180726-WWDR1.1__D-B3 '
                                                                '(cause: None, context: None)',
 "1 name 34 'IMG-HH-ALOS22253331AB-180726-WWDR1.1__D-B3'": 'raises ValueError: invalid scene id: '
                                                           'ALOS22253331AB-180726 (cause: None, '
                                                           'context: None)',
 "1 name 34 'IMG-HH-ALOS22253331AB-180726-WWDR1.1__D-B3' again": 'raises ValueError: invalid scene '
                                                                 'id: ALOS22253331AB-180726 '
                                                                 '(cause: None, context: None)',
 "1 name 35 'IMG-HH-ALOS2225333100-180726-QQQR1.1__D-B3'": 'raises ValueError: invalid product id: '
                                                           'QQQR1.1__D (cause: ValueError, '
                                                           'context: ValueError)',
 "1 name 35 'IMG-HH-ALOS2225333100-180726-QQQR1.1__D-B3' again": 'raises ValueError: invalid '
                                                                 'product id: QQQR1.1__D (cause: '
                                                                 'ValueError, context: ValueError)',
 "1 name 36 'IMG-HH-ALOS2225333100-180726-WWDX1.1__D-B3'": 'raises ValueError: invalid product id: '
                                                           'WWDX1.1__D (cause: None, context: '
                                                           'None)',
 "1 name 36 'IMG-HH-ALOS2225333100-180726-WWDX1.1__D-B3' again": 'raises ValueError: invalid '
                                                                 'product id: WWDX1.1__D (cause: '
                                                                 'None, context: None)',
 "1 name 37 'IMG-HH-ALOS2225333100-180726-WWDR2.1__D-B3'": 'raises ValueError: invalid product id: '
                                                           'WWDR2.1__D (cause: None, context: '
                                                           'None)',
 "1 name 37 'IMG-HH-ALOS2225333100-180726-WWDR2.1__D-B3' again": 'raises ValueError: invalid '
                                                                 'product id: WWDR2.1__D (cause: '
                                                                 'None, context: None)',
 "1 name 38 'IMG-HH-ALOS2225333100-180726-WWDR1.1X_D-B3'": 'raises ValueError: invalid product id: '
                                                           'WWDR1.1X_D (cause: None, context: '
                                                           'None)',
 "1 name 38 'IMG-HH-ALOS2225333100-180726-WWDR1.1X_D-B3' again": 'raises ValueError: invalid '
                                                                 'product id: WWDR1.1X_D (cause: '
                                                                 'None, context: None)',
 "1 name 39 'IMG-HH-ALOS2225333100-180726-WWDR1.1_XD-B3'": 'raises ValueError: invalid product id: '
                                                           'WWDR1.1_XD (cause: None, context: '
                                                           'None)',
 "1 name 39 'IMG-HH-ALOS2225333100-180726-WWDR1.1_XD-B3' again": 'raises ValueError: invalid '
                                                                 'product id: WWDR1.1_XD (cause: '
                                                                 'None, context: None)',
 "1 name 40 'IMG-HH-ALOS2225333100-180726-WWDR1.1__X-B3'": 'raises ValueError: invalid product id: '
                                                           'WWDR1.1__X (cause: None, context: '
                                                           'None)',
 "1 name 40 'IMG-HH-ALOS2225333100-180726-WWDR1.1__X-B3' again": 'raises ValueError: invalid '
                                                                 'product id: WWDR1.1__X (cause: '
                                                                 'None, context: None)',
 "1 name 41 'IMG-HH-ALOS2225333100-180726-WWDR1.1__-B3'": 'raises ValueError: invalid file name: '
                                                          'IMG-HH-ALOS2225333100-180726-WWDR1.1__-B3 '
                                                          '(cause: None, context: None)',
 "1 name 41 'IMG-HH-ALOS2225333100-180726-WWDR1.1__-B3' again": 'raises ValueError: invalid file '
                                                                'name: '
                                                                'IMG-HH-ALOS2225333100-180726-WWDR1.1__-B3 '
                                                                '(cause: None, context: None)',
 "1 name 42 'IMG-HH-ALOS2225333100-180726-WWDR1.1__DD-B3'": 'raises ValueError: invalid file name: '
                                                            'IMG-HH-ALOS2225333100-180726-WWDR1.1__DD-B3 '
                                                            '(cause: None, context: None)',
 "1 name 42 'IMG-HH-ALOS2225333100-180726-WWDR1.1__DD-B3' again": 'raises ValueError: invalid file '
                                                                  'name: '
                                                                  'IMG-HH-ALOS2225333100-180726-WWDR1.1__DD-B3 '
                                                                  '(cause: None, context: None)',
 "1 name 43 'dir/IMG-HH-ALOS2225333100-180726-WWDR1.1__D-B3'": 'raises ValueError: invalid file '
                                                               'name: '
                                                               'dir/IMG-HH-ALOS2225333100-180726-WWDR1.1__D-B3 '
                                                               '(cause: None, context: None)',
 "1 name 43 'dir/IMG-HH-ALOS2225333100-180726-WWDR1.1__D-B3' again": 'raises ValueError: invalid '
                                                                     'file name: '
                                                                     'dir/IMG-HH-ALOS2225333100-180726-WWDR1.1__D-B3 '
                                                                     '(cause: None, context: None)',
 "1 name 44 'IMG_HH_ALOS2225333100_180726_WWDR1.1__D_B3'": 'raises ValueError: invalid file name: '
                                                           'IMG_HH_ALOS2225333100_180726_WWDR1.1__D_B3 '
                                                           '(cause: None, context: None)',
 "1 name 44 'IMG_HH_ALOS2225333100_180726_WWDR1.1__D_B3' again": 'raises ValueError: invalid file '
                                                                 'name: '
                                                                 'IMG_HH_ALOS2225333100_180726_WWDR1.1__D_B3 '
                                                                 '(cause: None, context: None)',
 "1 name 45 'IMG-HH-ALOS2225333100-180726-WWDR1.1__D-B٣'": 'raises ValueError: invalid file name: '
                                                           'IMG-HH-ALOS2225333100-180726-WWDR1.1__D-B٣ '
                                                           '(cause: None, context: None)',
 "1 name 45 'IMG-HH-ALOS2225333100-180726-WWDR1.1__D-B٣' again": 'raises ValueError: invalid file '
                                                                 'name: '
                                                                 'IMG-HH-ALOS2225333100-180726-WWDR1.1__D-B٣ '
                                                                 '(cause: None, context: None)',
 "1 name 46 'IMG-HH-ALOS22253331٠٠-180726-WWDR1.1__D-B3'": 'raises ValueError: invalid file name: '
                                                           'IMG-HH-ALOS22253331٠٠-180726-WWDR1.1__D-B3 '
                                                           '(cause: None, context: None)',
 "1 name 46 'IMG-HH-ALOS22253331٠٠-180726-WWDR1.1__D-B3' again": 'raises ValueError: invalid file '
                                                                 'name: '
                                                                 'IMG-HH-ALOS22253331٠٠-180726-WWDR1.1__D-B3 '
                                                                 '(cause: None, context: None)',
 '1 other 0 NoneType': "raises TypeError: expected string or bytes-like object, got 'NoneType' "
                       '(cause: None, context: None)',
 '1 other 1 int': "raises TypeError: expected string or bytes-like object, got 'int' (cause: None, "
                  'context: None)',
 '1 other 2 float': "raises TypeError: expected string or bytes-like object, got 'float' (cause: "
                    'None, context: None)',
 '1 other 3 bytes': 'raises TypeError: cannot use a string pattern on a bytes-like object (cause: '
                    'None, context: None)',
 '1 other 4 bytearray': 'raises TypeError: cannot use a string pattern on a bytes-like object '
                        '(cause: None, context: None)',
 '1 other 5 list': "raises TypeError: expected string or bytes-like object, got 'list' (cause: "
                   'None, context: None)',
 '1 other 6 tuple': "raises TypeError: expected string or bytes-like object, got 'tuple' (cause: "
                    'None, context: None)',
 '1 other 7 dict': "raises TypeError: expected string or bytes-like object, got 'dict' (cause: "
                   'None, context: None)',
 '1 other 8 set': "raises TypeError: expected string or bytes-like object, got 'set' (cause: None, "
                  'context: None)',
 '1 other 9 PurePosixPath': 'raises TypeError: expected string or bytes-like object, got '
                            "'PurePosixPath' (cause: None, context: None)",
 '1 other 10 Name': "str:'HH_scan3'",
 '1 other 11 Name': "str:'HV'",
 '1 other 12 Name': 'raises ValueError: invalid file name: invalid (cause: None, context: None)',
 '1 other 13 LoudName': "str:'VV_scan1'",
 '1 other 14 LoudName': 'raises ValueError: invalid file name: invalid (cause: None, context: '
                        'None)',
 '1 generated 0 IMG-HH-ALOS2000000000-200101-SBSR1.1__A': "str:'HH'",
 '1 generated 1 IMG-HH-ALOS2000010001-200102-SBSR1.1__A-F0': "str:'HH_scan0'",
 '1 generated 2 IMG-HH-ALOS2000020002-200103-SBSR1.1__A-B1': "str:'HH_scan1'",
 '1 generated 3 IMG-HH-ALOS2000030003-200104-SBSR1.1__A-F2': "str:'HH_scan2'",
 '1 generated 4 IMG-HH-ALOS2000040004-200105-SBSR1.1__A-B3': "str:'HH_scan3'",
 '1 generated 5 IMG-HH-ALOS2000050005-200106-SBSR1.1__A-F4': "str:'HH_scan4'",
 '1 generated 6 IMG-HH-ALOS2000060006-200107-SBSR1.1__A-B5': "str:'HH_scan5'",
 '1 generated 7 IMG-HH-ALOS2000070007-200108-SBSR1.1__A-F6': "str:'HH_scan6'",
 '1 generated 8 IMG-HH-ALOS2000080008-200109-SBSR1.1__A-B7': "str:'HH_scan7'",
 '1 generated 9 IMG-HH-ALOS2000090009-200110-SBSR1.1__A-F8': "str:'HH_scan8'",
 '1 generated 10 IMG-HH-ALOS2000100010-200111-SBSR1.1__A-B9': "str:'HH_scan9'",
 '1 generated 11 IMG-HH-ALOS2000110011-200112-UBDR1.1__A': "str:'HH'",
 '1 generated 12 IMG-HH-ALOS2000120012-200113-UBDR1.1__A-B0': "str:'HH_scan0'",
 '1 generated 13 IMG-HH-ALOS2000130013-200114-UBDR1.1__A-F1': "str:'HH_scan1'",
 '1 generated 14 IMG-HH-ALOS2000140014-200115-UBDR1.1__A-B2': "str:'HH_scan2'",
 '1 generated 15 IMG-HH-ALOS2000150015-200116-UBDR1.1__A-F3': "str:'HH_scan3'",
 '1 generated 16 IMG-HH-ALOS2000160016-200117-UBDR1.1__A-B4': "str:'HH_scan4'",
 '1 generated 17 IMG-HH-ALOS2000170017-200118-UBDR1.1__A-F5': "str:'HH_scan5'",
 '1 generated 18 IMG-HH-ALOS2000180018-200119-UBDR1.1__A-B6': "str:'HH_scan6'",
 '1 generated 19 IMG-HH-ALOS2000190019-200120-UBDR1.1__A-F7': "str:'HH_scan7'",
 '1 generated 20 IMG-HH-ALOS2000200020-200121-UBDR1.1__A-B8': "str:'HH_scan8'",
 '1 generated 21 IMG-HH-ALOS2000210021-200122-UBDR1.1__A-F9': "str:'HH_scan9'",
 '1 generated 22 IMG-HH-ALOS2000220022-200123-HBQR1.1__A': "str:'HH'",
 '1 generated 23 IMG-HH-ALOS2000230023-200124-HBQR1.1__A-F0': "str:'HH_scan0'",
 '1 generated 24 IMG-HH-ALOS2000240024-200125-HBQR1.1__A-B1': "str:'HH_scan1'",
 '1 generated 25 IMG-HH-ALOS2000250025-200126-HBQR1.1__A-F2': "str:'HH_scan2'",
 '1 generated 26 IMG-HH-ALOS2000260026-200127-HBQR1.1__A-B3': "str:'HH_scan3'",
 '1 generated 27 IMG-HH-ALOS2000270027-200128-HBQR1.1__A-F4': "str:'HH_scan4'",
 '1 generated 28 IMG-HH-ALOS2000280028-200101-HBQR1.1__A-B5': "str:'HH_scan5'",
 '1 generated 29 IMG-HH-ALOS2000290029-200102-HBQR1.1__A-F6': "str:'HH_scan6'",
 '1 generated 30 IMG-HH-ALOS2000300030-200103-HBQR1.1__A-B7': "str:'HH_scan7'",
 '1 generated 31 IMG-HH-ALOS2000310031-200104-HBQR1.1__A-F8': "str:'HH_scan8'",
 '1 generated 32 IMG-HH-ALOS2000320032-200105-HBQR1.1__A-B9': "str:'HH_scan9'",
 '1 generated 33 IMG-HH-ALOS2000330033-200106-FBSR1.1__A': "str:'HH'",
 '1 generated 34 IMG-HH-ALOS2000340034-200107-FBSR1.1__A-B0': "str:'HH_scan0'",
 '1 generated 35 IMG-HH-ALOS2000350035-200108-FBSR1.1__A-F1': "str:'HH_scan1'",
 '1 generated 36 IMG-HH-ALOS2000360036-200109-FBSR1.1__A-B2': "str:'HH_scan2'",
 '1 generated 37 IMG-HH-ALOS2000370037-200110-FBSR1.1__A-F3': "str:'HH_scan3'",
 '1 generated 38 IMG-HH-ALOS2000380038-200111-FBSR1.1__A-B4': "str:'HH_scan4'",
 '1 generated 39 IMG-HH-ALOS2000390039-200112-FBSR1.1__A-F5': "str:'HH_scan5'",
 '1 generated 40 IMG-HH-ALOS2000400040-200113-FBSR1.1__A-B6': "str:'HH_scan6'",
 '1 generated 41 IMG-HH-ALOS2000410041-200114-FBSR1.1__A-F7': "str:'HH_scan7'",
 '1 generated 42 IMG-HH-ALOS2000420042-200115-FBSR1.1__A-B8': "str:'HH_scan8'",
 '1 generated 43 IMG-HH-ALOS2000430043-200116-FBSR1.1__A-F9': "str:'HH_scan9'",
 '1 generated 44 IMG-HH-ALOS2000440044-200117-WWDR1.1__A': "str:'HH'",
 '1 generated 45 IMG-HH-ALOS2000450045-200118-WWDR1.1__A-F0': "str:'HH_scan0'",
 '1 generated 46 IMG-HH-ALOS2000460046-200119-WWDR1.1__A-B1': "str:'HH_scan1'",
 '1 generated 47 IMG-HH-ALOS2000470047-200120-WWDR1.1__A-F2': "str:'HH_scan2'",
 '1 generated 48 IMG-HH-ALOS2000480048-200121-WWDR1.1__A-B3': "str:'HH_scan3'",
 '1 generated 49 IMG-HH-ALOS2000490049-200122-WWDR1.1__A-F4': "str:'HH_scan4'",
 '1 generated 50 IMG-HH-ALOS2000500050-200123-WWDR1.1__A-B5': "str:'HH_scan5'",
 '1 generated 51 IMG-HH-ALOS2000510051-200124-WWDR1.1__A-F6': "str:'HH_scan6'",
 '1 generated 52 IMG-HH-ALOS2000520052-200125-WWDR1.1__A-B7': "str:'HH_scan7'",
 '1 generated 53 IMG-HH-ALOS2000530053-200126-WWDR1.1__A-F8': "str:'HH_scan8'",
 '1 generated 54 IMG-HH-ALOS2000540054-200127-WWDR1.1__A-B9': "str:'HH_scan9'",
 '1 generated 55 IMG-HH-ALOS2000550055-200128-VBSR1.1__A': "str:'HH'",
 '1 generated 56 IMG-HH-ALOS2000560056-200101-VBSR1.1__A-B0': "str:'HH_scan0'",
 '1 generated 57 IMG-HH-ALOS2000570057-200102-VBSR1.1__A-F1': "str:'HH_scan1'",
 '1 generated 58 IMG-HH-ALOS2000580058-200103-VBSR1.1__A-B2': "str:'HH_scan2'",
 '1 generated 59 IMG-HH-ALOS2000590059-200104-VBSR1.1__A-F3': "str:'HH_scan3'",
 '1 generated 60 IMG-HH-ALOS2000600060-200105-VBSR1.1__A-B4': "str:'HH_scan4'",
 '1 generated 61 IMG-HH-ALOS2000610061-200106-VBSR1.1__A-F5': "str:'HH_scan5'",
 '1 generated 62 IMG-HH-ALOS2000620062-200107-VBSR1.1__A-B6': "str:'HH_scan6'",
 '1 generated 63 IMG-HH-ALOS2000630063-200108-VBSR1.1__A-F7': "str:'HH_scan7'",
 '1 generated 64 IMG-HH-ALOS2000640064-200109-VBSR1.1__A-B8': "str:'HH_scan8'",
 '1 generated 65 IMG-HH-ALOS2000650065-200110-VBSR1.1__A-F9': "str:'HH_scan9'",
 '1 generated 66 IMG-HV-ALOS2000660066-200111-SBSR1.1__A': "str:'HV'",
 '1 generated 67 IMG-HV-ALOS2000670067-200112-SBSR1.1__A-F0': "str:'HV_scan0'",
 '1 generated 68 IMG-HV-ALOS2000680068-200113-SBSR1.1__A-B1': "str:'HV_scan1'",
 '1 generated 69 IMG-HV-ALOS2000690069-200114-SBSR1.1__A-F2': "str:'HV_scan2'",
 '1 generated 70 IMG-HV-ALOS2000700070-200115-SBSR1.1__A-B3': "str:'HV_scan3'",
 '1 generated 71 IMG-HV-ALOS2000710071-200116-SBSR1.1__A-F4': "str:'HV_scan4'",
 '1 generated 72 IMG-HV-ALOS2000720072-200117-SBSR1.1__A-B5': "str:'HV_scan5'",
 '1 generated 73 IMG-HV-ALOS2000730073-200118-SBSR1.1__A-F6': "str:'HV_scan6'",
 '1 generated 74 IMG-HV-ALOS2000740074-200119-SBSR1.1__A-B7': "str:'HV_scan7'",
 '1 generated 75 IMG-HV-ALOS2000750075-200120-SBSR1.1__A-F8': "str:'HV_scan8'",
 '1 generated 76 IMG-HV-ALOS2000760076-200121-SBSR1.1__A-B9': "str:'HV_scan9'",
 '1 generated 77 IMG-HV-ALOS2000770077-200122-UBDR1.1__A': "str:'HV'",
 '1 generated 78 IMG-HV-ALOS2000780078-200123-UBDR1.1__A-B0': "str:'HV_scan0'",
 '1 generated 79 IMG-HV-ALOS2000790079-200124-UBDR1.1__A-F1': "str:'HV_scan1'",
 '1 generated 80 IMG-HV-ALOS2000800080-200125-UBDR1.1__A-B2': "str:'HV_scan2'",
 '1 generated 81 IMG-HV-ALOS2000810081-200126-UBDR1.1__A-F3': "str:'HV_scan3'",
 '1 generated 82 IMG-HV-ALOS2000820082-200127-UBDR1.1__A-B4': "str:'HV_scan4'",
 '1 generated 83 IMG-HV-ALOS2000830083-200128-UBDR1.1__A-F5': "str:'HV_scan5'",
 '1 generated 84 IMG-HV-ALOS2000840084-200101-UBDR1.1__A-B6': "str:'HV_scan6'",
 '1 generated 85 IMG-HV-ALOS2000850085-200102-UBDR1.1__A-F7': "str:'HV_scan7'",
 '1 generated 86 IMG-HV-ALOS2000860086-200103-UBDR1.1__A-B8': "str:'HV_scan8'",
 '1 generated 87 IMG-HV-ALOS2000870087-200104-UBDR1.1__A-F9': "str:'HV_scan9'",
 '1 generated 88 IMG-HV-ALOS2000880088-200105-HBQR1.1__A': "str:'HV'",
 '1 generated 89 IMG-HV-ALOS2000890089-200106-HBQR1.1__A-F0': "str:'HV_scan0'",
 '1 generated 90 IMG-HV-ALOS2000900090-200107-HBQR1.1__A-B1': "str:'HV_scan1'",
 '1 generated 91 IMG-HV-ALOS2000910091-200108-HBQR1.1__A-F2': "str:'HV_scan2'",
 '1 generated 92 IMG-HV-ALOS2000920092-200109-HBQR1.1__A-B3': "str:'HV_scan3'",
 '1 generated 93 IMG-HV-ALOS2000930093-200110-HBQR1.1__A-F4': "str:'HV_scan4'",
 '1 generated 94 IMG-HV-ALOS2000940094-200111-HBQR1.1__A-B5': "str:'HV_scan5'",
 '1 generated 95 IMG-HV-ALOS2000950095-200112-HBQR1.1__A-F6': "str:'HV_scan6'",
 '1 generated 96 IMG-HV-ALOS2000960096-200113-HBQR1.1__A-B7': "str:'HV_scan7'",
 '1 generated 97 IMG-HV-ALOS2000970097-200114-HBQR1.1__A-F8': "str:'HV_scan8'",
 '1 generated 98 IMG-HV-ALOS2000980098-200115-HBQR1.1__A-B9': "str:'HV_scan9'",
 '1 generated 99 IMG-HV-ALOS2000990099-200116-FBSR1.1__A': "str:'HV'",
 '1 generated 100 IMG-HV-ALOS2001000100-200117-FBSR1.1__A-B0': "str:'HV_scan0'",
 '1 generated 101 IMG-HV-ALOS2001010101-200118-FBSR1.1__A-F1': "str:'HV_scan1'",
 '1 generated 102 IMG-HV-ALOS2001020102-200119-FBSR1.1__A-B2': "str:'HV_scan2'",
 '1 generated 103 IMG-HV-ALOS2001030103-200120-FBSR1.1__A-F3': "str:'HV_scan3'",
 '1 generated 104 IMG-HV-ALOS2001040104-200121-FBSR1.1__A-B4': "str:'HV_scan4'",
 '1 generated 105 IMG-HV-ALOS2001050105-200122-FBSR1.1__A-F5': "str:'HV_scan5'",
 '1 generated 106 IMG-HV-ALOS2001060106-200123-FBSR1.1__A-B6': "str:'HV_scan6'",
 '1 generated 107 IMG-HV-ALOS2001070107-200124-FBSR1.1__A-F7': "str:'HV_scan7'",
 '1 generated 108 IMG-HV-ALOS2001080108-200125-FBSR1.1__A-B8': "str:'HV_scan8'",
 '1 generated 109 IMG-HV-ALOS2001090109-200126-FBSR1.1__A-F9': "str:'HV_scan9'",
 '1 generated 110 IMG-HV-ALOS2001100110-200127-WWDR1.1__A': "str:'HV'",
 '1 generated 111 IMG-HV-ALOS2001110111-200128-WWDR1.1__A-F0': "str:'HV_scan0'",
 '1 generated 112 IMG-HV-ALOS2001120112-200101-WWDR1.1__A-B1': "str:'HV_scan1'",
 '1 generated 113 IMG-HV-ALOS2001130113-200102-WWDR1.1__A-F2': "str:'HV_scan2'",
 '1 generated 114 IMG-HV-ALOS2001140114-200103-WWDR1.1__A-B3': "str:'HV_scan3'",
 '1 generated 115 IMG-HV-ALOS2001150115-200104-WWDR1.1__A-F4': "str:'HV_scan4'",
 '1 generated 116 IMG-HV-ALOS2001160116-200105-WWDR1.1__A-B5': "str:'HV_scan5'",
 '1 generated 117 IMG-HV-ALOS2001170117-200106-WWDR1.1__A-F6': "str:'HV_scan6'",
 '1 generated 118 IMG-HV-ALOS2001180118-200107-WWDR1.1__A-B7': "str:'HV_scan7'",
 '1 generated 119 IMG-HV-ALOS2001190119-200108-WWDR1.1__A-F8': "str:'HV_scan8'",
 '1 generated 120 IMG-HV-ALOS2001200120-200109-WWDR1.1__A-B9': "str:'HV_scan9'",
 '1 generated 121 IMG-HV-ALOS2001210121-200110-VBSR1.1__A': "str:'HV'",
 '1 generated 122 IMG-HV-ALOS2001220122-200111-VBSR1.1__A-B0': "str:'HV_scan0'",
 '1 generated 123 IMG-HV-ALOS2001230123-200112-VBSR1.1__A-F1': "str:'HV_scan1'",
 '1 generated 124 IMG-HV-ALOS2001240124-200113-VBSR1.1__A-B2': "str:'HV_scan2'",
 '1 generated 125 IMG-HV-ALOS2001250125-200114-VBSR1.1__A-F3': "str:'HV_scan3'",
 '1 generated 126 IMG-HV-ALOS2001260126-200115-VBSR1.1__A-B4': "str:'HV_scan4'",
 '1 generated 127 IMG-HV-ALOS2001270127-200116-VBSR1.1__A-F5': "str:'HV_scan5'",
 '1 generated 128 IMG-HV-ALOS2001280128-200117-VBSR1.1__A-B6': "str:'HV_scan6'",
 '1 generated 129 IMG-HV-ALOS2001290129-200118-VBSR1.1__A-F7': "str:'HV_scan7'",
 '1 generated 130 IMG-HV-ALOS2001300130-200119-VBSR1.1__A-B8': "str:'HV_scan8'",
 '1 generated 131 IMG-HV-ALOS2001310131-200120-VBSR1.1__A-F9': "str:'HV_scan9'",
 '1 generated 132 IMG-VH-ALOS2001320132-200121-SBSR1.1__A': "str:'VH'",
 '1 generated 133 IMG-VH-ALOS2001330133-200122-SBSR1.1__A-F0': "str:'VH_scan0'",
 '1 generated 134 IMG-VH-ALOS2001340134-200123-SBSR1.1__A-B1': "str:'VH_scan1'",
 '1 generated 135 IMG-VH-ALOS2001350135-200124-SBSR1.1__A-F2': "str:'VH_scan2'",
 '1 generated 136 IMG-VH-ALOS2001360136-200125-SBSR1.1__A-B3': "str:'VH_scan3'",
 '1 generated 137 IMG-VH-ALOS2001370137-200126-SBSR1.1__A-F4': "str:'VH_scan4'",
 '1 generated 138 IMG-VH-ALOS2001380138-200127-SBSR1.1__A-B5': "str:'VH_scan5'",
 '1 generated 139 IMG-VH-ALOS2001390139-200128-SBSR1.1__A-F6': "str:'VH_scan6'",
 '1 generated 140 IMG-VH-ALOS2001400140-200101-SBSR1.1__A-B7': "str:'VH_scan7'",
 '1 generated 141 IMG-VH-ALOS2001410141-200102-SBSR1.1__A-F8': "str:'VH_scan8'",
 '1 generated 142 IMG-VH-ALOS2001420142-200103-SBSR1.1__A-B9': "str:'VH_scan9'",
 '1 generated 143 IMG-VH-ALOS2001430143-200104-UBDR1.1__A': "str:'VH'",
 '1 generated 144 IMG-VH-ALOS2001440144-200105-UBDR1.1__A-B0': "str:'VH_scan0'",
 '1 generated 145 IMG-VH-ALOS2001450145-200106-UBDR1.1__A-F1': "str:'VH_scan1'",
 '1 generated 146 IMG-VH-ALOS2001460146-200107-UBDR1.1__A-B2': "str:'VH_scan2'",
 '1 generated 147 IMG-VH-ALOS2001470147-200108-UBDR1.1__A-F3': "str:'VH_scan3'",
 '1 generated 148 IMG-VH-ALOS2001480148-200109-UBDR1.1__A-B4': "str:'VH_scan4'",
 '1 generated 149 IMG-VH-ALOS2001490149-200110-UBDR1.1__A-F5': "str:'VH_scan5'",
 '1 generated 150 IMG-VH-ALOS2001500150-200111-UBDR1.1__A-B6': "str:'VH_scan6'",
 '1 generated 151 IMG-VH-ALOS2001510151-200112-UBDR1.1__A-F7': "str:'VH_scan7'",
 '1 generated 152 IMG-VH-ALOS2001520152-200113-UBDR1.1__A-B8': "str:'VH_scan8'",
 '1 generated 153 IMG-VH-ALOS2001530153-200114-UBDR1.1__A-F9': "str:'VH_scan9'",
 '1 generated 154 IMG-VH-ALOS2001540154-200115-HBQR1.1__A': "str:'VH'",
 '1 generated 155 IMG-VH-ALOS2001550155-200116-HBQR1.1__A-F0': "str:'VH_scan0'",
 '1 generated 156 IMG-VH-ALOS2001560156-200117-HBQR1.1__A-B1': "str:'VH_scan1'",
 '1 generated 157 IMG-VH-ALOS2001570157-200118-HBQR1.1__A-F2': "str:'VH_scan2'",
 '1 generated 158 IMG-VH-ALOS2001580158-200119-HBQR1.1__A-B3': "str:'VH_scan3'",
 '1 generated 159 IMG-VH-ALOS2001590159-200120-HBQR1.1__A-F4': "str:'VH_scan4'",
 '1 generated 160 IMG-VH-ALOS2001600160-200121-HBQR1.1__A-B5': "str:'VH_scan5'",
 '1 generated 161 IMG-VH-ALOS2001610161-200122-HBQR1.1__A-F6': "str:'VH_scan6'",
 '1 generated 162 IMG-VH-ALOS2001620162-200123-HBQR1.1__A-B7': "str:'VH_scan7'",
 '1 generated 163 IMG-VH-ALOS2001630163-200124-HBQR1.1__A-F8': "str:'VH_scan8'",
 '1 generated 164 IMG-VH-ALOS2001640164-200125-HBQR1.1__A-B9': "str:'VH_scan9'",
 '1 generated 165 IMG-VH-ALOS2001650165-200126-FBSR1.1__A': "str:'VH'",
 '1 generated 166 IMG-VH-ALOS2001660166-200127-FBSR1.1__A-B0': "str:'VH_scan0'",
 '1 generated 167 IMG-VH-ALOS2001670167-200128-FBSR1.1__A-F1': "str:'VH_scan1'",
 '1 generated 168 IMG-VH-ALOS2001680168-200101-FBSR1.1__A-B2': "str:'VH_scan2'",
 '1 generated 169 IMG-VH-ALOS2001690169-200102-FBSR1.1__A-F3': "str:'VH_scan3'",
 '1 generated 170 IMG-VH-ALOS2001700170-200103-FBSR1.1__A-B4': "str:'VH_scan4'",
 '1 generated 171 IMG-VH-ALOS2001710171-200104-FBSR1.1__A-F5': "str:'VH_scan5'",
 '1 generated 172 IMG-VH-ALOS2001720172-200105-FBSR1.1__A-B6': "str:'VH_scan6'",
 '1 generated 173 IMG-VH-ALOS2001730173-200106-FBSR1.1__A-F7': "str:'VH_scan7'",
 '1 generated 174 IMG-VH-ALOS2001740174-200107-FBSR1.1__A-B8': "str:'VH_scan8'",
 '1 generated 175 IMG-VH-ALOS2001750175-200108-FBSR1.1__A-F9': "str:'VH_scan9'",
 '1 generated 176 IMG-VH-ALOS2001760176-200109-WWDR1.1__A': "str:'VH'",
 '1 generated 177 IMG-VH-ALOS2001770177-200110-WWDR1.1__A-F0': "str:'VH_scan0'",
 '1 generated 178 IMG-VH-ALOS2001780178-200111-WWDR1.1__A-B1': "str:'VH_scan1'",
 '1 generated 179 IMG-VH-ALOS2001790179-200112-WWDR1.1__A-F2': "str:'VH_scan2'",
 '1 generated 180 IMG-VH-ALOS2001800180-200113-WWDR1.1__A-B3': "str:'VH_scan3'",
 '1 generated 181 IMG-VH-ALOS2001810181-200114-WWDR1.1__A-F4': "str:'VH_scan4'",
 '1 generated 182 IMG-VH-ALOS2001820182-200115-WWDR1.1__A-B5': "str:'VH_scan5'",
 '1 generated 183 IMG-VH-ALOS2001830183-200116-WWDR1.1__A-F6': "str:'VH_scan6'",
 '1 generated 184 IMG-VH-ALOS2001840184-200117-WWDR1.1__A-B7': "str:'VH_scan7'",
 '1 generated 185 IMG-VH-ALOS2001850185-200118-WWDR1.1__A-F8': "str:'VH_scan8'",
 '1 generated 186 IMG-VH-ALOS2001860186-200119-WWDR1.1__A-B9': "str:'VH_scan9'",
 '1 generated 187 IMG-VH-ALOS2001870187-200120-VBSR1.1__A': "str:'VH'",
 '1 generated 188 IMG-VH-ALOS2001880188-200121-VBSR1.1__A-B0': "str:'VH_scan0'",
 '1 generated 189 IMG-VH-ALOS2001890189-200122-VBSR1.1__A-F1': "str:'VH_scan1'",
 '1 generated 190 IMG-VH-ALOS2001900190-200123-VBSR1.1__A-B2': "str:'VH_scan2'",
 '1 generated 191 IMG-VH-ALOS2001910191-200124-VBSR1.1__A-F3': "str:'VH_scan3'",
 '1 generated 192 IMG-VH-ALOS2001920192-200125-VBSR1.1__A-B4': "str:'VH_scan4'",
 '1 generated 193 IMG-VH-ALOS2001930193-200126-VBSR1.1__A-F5': "str:'VH_scan5'",
 '1 generated 194 IMG-VH-ALOS2001940194-200127-VBSR1.1__A-B6': "str:'VH_scan6'",
 '1 generated 195 IMG-VH-ALOS2001950195-200128-VBSR1.1__A-F7': "str:'VH_scan7'",
 '1 generated 196 IMG-VH-ALOS2001960196-200101-VBSR1.1__A-B8': "str:'VH_scan8'",
 '1 generated 197 IMG-VH-ALOS2001970197-200102-VBSR1.1__A-F9': "str:'VH_scan9'",
 '1 generated 198 IMG-VV-ALOS2001980198-200103-SBSR1.1__A': "str:'VV'",
 '1 generated 199 IMG-VV-ALOS2001990199-200104-SBSR1.1__A-F0': "str:'VV_scan0'",
 '1 generated 200 IMG-VV-ALOS2002000200-200105-SBSR1.1__A-B1': "str:'VV_scan1'",
 '1 generated 201 IMG-VV-ALOS2002010201-200106-SBSR1.1__A-F2': "str:'VV_scan2'",
 '1 generated 202 IMG-VV-ALOS2002020202-200107-SBSR1.1__A-B3': "str:'VV_scan3'",
 '1 generated 203 IMG-VV-ALOS2002030203-200108-SBSR1.1__A-F4': "str:'VV_scan4'",
 '1 generated 204 IMG-VV-ALOS2002040204-200109-SBSR1.1__A-B5': "str:'VV_scan5'",
 '1 generated 205 IMG-VV-ALOS2002050205-200110-SBSR1.1__A-F6': "str:'VV_scan6'",
 '1 generated 206 IMG-VV-ALOS2002060206-200111-SBSR1.1__A-B7': "str:'VV_scan7'",
 '1 generated 207 IMG-VV-ALOS2002070207-200112-SBSR1.1__A-F8': "str:'VV_scan8'",
 '1 generated 208 IMG-VV-ALOS2002080208-200113-SBSR1.1__A-B9': "str:'VV_scan9'",
 '1 generated 209 IMG-VV-ALOS2002090209-200114-UBDR1.1__A': "str:'VV'",
 '1 generated 210 IMG-VV-ALOS2002100210-200115-UBDR1.1__A-B0': "str:'VV_scan0'",
 '1 generated 211 IMG-VV-ALOS2002110211-200116-UBDR1.1__A-F1': "str:'VV_scan1'",
 '1 generated 212 IMG-VV-ALOS2002120212-200117-UBDR1.1__A-B2': "str:'VV_scan2'",
 '1 generated 213 IMG-VV-ALOS2002130213-200118-UBDR1.1__A-F3': "str:'VV_scan3'",
 '1 generated 214 IMG-VV-ALOS2002140214-200119-UBDR1.1__A-B4': "str:'VV_scan4'",
 '1 generated 215 IMG-VV-ALOS2002150215-200120-UBDR1.1__A-F5': "str:'VV_scan5'",
 '1 generated 216 IMG-VV-ALOS2002160216-200121-UBDR1.1__A-B6': "str:'VV_scan6'",
 '1 generated 217 IMG-VV-ALOS2002170217-200122-UBDR1.1__A-F7': "str:'VV_scan7'",
 '1 generated 218 IMG-VV-ALOS2002180218-200123-UBDR1.1__A-B8': "str:'VV_scan8'",
 '1 generated 219 IMG-VV-ALOS2002190219-200124-UBDR1.1__A-F9': "str:'VV_scan9'",
 '1 generated 220 IMG-VV-ALOS2002200220-200125-HBQR1.1__A': "str:'VV'",
 '1 generated 221 IMG-VV-ALOS2002210221-200126-HBQR1.1__A-F0': "str:'VV_scan0'",
 '1 generated 222 IMG-VV-ALOS2002220222-200127-HBQR1.1__A-B1': "str:'VV_scan1'",
 '1 generated 223 IMG-VV-ALOS2002230223-200128-HBQR1.1__A-F2': "str:'VV_scan2'",
 '1 generated 224 IMG-VV-ALOS2002240224-200101-HBQR1.1__A-B3': "str:'VV_scan3'",
 '1 generated 225 IMG-VV-ALOS2002250225-200102-HBQR1.1__A-F4': "str:'VV_scan4'",
 '1 generated 226 IMG-VV-ALOS2002260226-200103-HBQR1.1__A-B5': "str:'VV_scan5'",
 '1 generated 227 IMG-VV-ALOS2002270227-200104-HBQR1.1__A-F6': "str:'VV_scan6'",
 '1 generated 228 IMG-VV-ALOS2002280228-200105-HBQR1.1__A-B7': "str:'VV_scan7'",
 '1 generated 229 IMG-VV-ALOS2002290229-200106-HBQR1.1__A-F8': "str:'VV_scan8'",
 '1 generated 230 IMG-VV-ALOS2002300230-200107-HBQR1.1__A-B9': "str:'VV_scan9'",
 '1 generated 231 IMG-VV-ALOS2002310231-200108-FBSR1.1__A': "str:'VV'",
 '1 generated 232 IMG-VV-ALOS2002320232-200109-FBSR1.1__A-B0': "str:'VV_scan0'",
 '1 generated 233 IMG-VV-ALOS2002330233-200110-FBSR1.1__A-F1': "str:'VV_scan1'",
 '1 generated 234 IMG-VV-ALOS2002340234-200111-FBSR1.1__A-B2': "str:'VV_scan2'",
 '1 generated 235 IMG-VV-ALOS2002350235-200112-FBSR1.1__A-F3': "str:'VV_scan3'",
 '1 generated 236 IMG-VV-ALOS2002360236-200113-FBSR1.1__A-B4': "str:'VV_scan4'",
 '1 generated 237 IMG-VV-ALOS2002370237-200114-FBSR1.1__A-F5': "str:'VV_scan5'",
 '1 generated 238 IMG-VV-ALOS2002380238-200115-FBSR1.1__A-B6': "str:'VV_scan6'",
 '1 generated 239 IMG-VV-ALOS2002390239-200116-FBSR1.1__A-F7': "str:'VV_scan7'",
 '1 generated 240 IMG-VV-ALOS2002400240-200117-FBSR1.1__A-B8': "str:'VV_scan8'",
 '1 generated 241 IMG-VV-ALOS2002410241-200118-FBSR1.1__A-F9': "str:'VV_scan9'",
 '1 generated 242 IMG-VV-ALOS2002420242-200119-WWDR1.1__A': "str:'VV'",
 '1 generated 243 IMG-VV-ALOS2002430243-200120-WWDR1.1__A-F0': "str:'VV_scan0'",
 '1 generated 244 IMG-VV-ALOS2002440244-200121-WWDR1.1__A-B1': "str:'VV_scan1'",
 '1 generated 245 IMG-VV-ALOS2002450245-200122-WWDR1.1__A-F2': "str:'VV_scan2'",
 '1 generated 246 IMG-VV-ALOS2002460246-200123-WWDR1.1__A-B3': "str:'VV_scan3'",
 '1 generated 247 IMG-VV-ALOS2002470247-200124-WWDR1.1__A-F4': "str:'VV_scan4'",
 '1 generated 248 IMG-VV-ALOS2002480248-200125-WWDR1.1__A-B5': "str:'VV_scan5'",
 '1 generated 249 IMG-VV-ALOS2002490249-200126-WWDR1.1__A-F6': "str:'VV_scan6'",
 '1 generated 250 IMG-VV-ALOS2002500250-200127-WWDR1.1__A-B7': "str:'VV_scan7'",
 '1 generated 251 IMG-VV-ALOS2002510251-200128-WWDR1.1__A-F8': "str:'VV_scan8'",
 '1 generated 252 IMG-VV-ALOS2002520252-200101-WWDR1.1__A-B9': "str:'VV_scan9'",
 '1 generated 253 IMG-VV-ALOS2002530253-200102-VBSR1.1__A': "str:'VV'",
 '1 generated 254 IMG-VV-ALOS2002540254-200103-VBSR1.1__A-B0': "str:'VV_scan0'",
 '1 generated 255 IMG-VV-ALOS2002550255-200104-VBSR1.1__A-F1': "str:'VV_scan1'",
 '1 generated 256 IMG-VV-ALOS2002560256-200105-VBSR1.1__A-B2': "str:'VV_scan2'",
 '1 generated 257 IMG-VV-ALOS2002570257-200106-VBSR1.1__A-F3': "str:'VV_scan3'",
 '1 generated 258 IMG-VV-ALOS2002580258-200107-VBSR1.1__A-B4': "str:'VV_scan4'",
 '1 generated 259 IMG-VV-ALOS2002590259-200108-VBSR1.1__A-F5': "str:'VV_scan5'",
 '1 generated 260 IMG-VV-ALOS2002600260-200109-VBSR1.1__A-B6': "str:'VV_scan6'",
 '1 generated 261 IMG-VV-ALOS2002610261-200110-VBSR1.1__A-F7': "str:'VV_scan7'",
 '1 generated 262 IMG-VV-ALOS2002620262-200111-VBSR1.1__A-B8': "str:'VV_scan8'",
 '1 generated 263 IMG-VV-ALOS2002630263-200112-VBSR1.1__A-F9': "str:'VV_scan9'",
 '1 generated 264 IMG-ALOS2002640264-200113-SBSR1.1__A': "str:''",
 '1 generated 265 IMG-ALOS2002650265-200114-SBSR1.1__A-F0': "str:'scan0'",
 '1 generated 266 IMG-ALOS2002660266-200115-SBSR1.1__A-B1': "str:'scan1'",
 '1 generated 267 IMG-ALOS2002670267-200116-SBSR1.1__A-F2': "str:'scan2'",
 '1 generated 268 IMG-ALOS2002680268-200117-SBSR1.1__A-B3': "str:'scan3'",
 '1 generated 269 IMG-ALOS2002690269-200118-SBSR1.1__A-F4': "str:'scan4'",
 '1 generated 270 IMG-ALOS2002700270-200119-SBSR1.1__A-B5': "str:'scan5'",
 '1 generated 271 IMG-ALOS2002710271-200120-SBSR1.1__A-F6': "str:'scan6'",
 '1 generated 272 IMG-ALOS2002720272-200121-SBSR1.1__A-B7': "str:'scan7'",
 '1 generated 273 IMG-ALOS2002730273-200122-SBSR1.1__A-F8': "str:'scan8'",
 '1 generated 274 IMG-ALOS2002740274-200123-SBSR1.1__A-B9': "str:'scan9'",
 '1 generated 275 IMG-ALOS2002750275-200124-UBDR1.1__A': "str:''",
 '1 generated 276 IMG-ALOS2002760276-200125-UBDR1.1__A-B0': "str:'scan0'",
 '1 generated 277 IMG-ALOS2002770277-200126-UBDR1.1__A-F1': "str:'scan1'",
 '1 generated 278 IMG-ALOS2002780278-200127-UBDR1.1__A-B2': "str:'scan2'",
 '1 generated 279 IMG-ALOS2002790279-200128-UBDR1.1__A-F3': "str:'scan3'",
 '1 generated 280 IMG-ALOS2002800280-200101-UBDR1.1__A-B4': "str:'scan4'",
 '1 generated 281 IMG-ALOS2002810281-200102-UBDR1.1__A-F5': "str:'scan5'",
 '1 generated 282 IMG-ALOS2002820282-200103-UBDR1.1__A-B6': "str:'scan6'",
 '1 generated 283 IMG-ALOS2002830283-200104-UBDR1.1__A-F7': "str:'scan7'",
 '1 generated 284 IMG-ALOS2002840284-200105-UBDR1.1__A-B8': "str:'scan8'",
 '1 generated 285 IMG-ALOS2002850285-200106-UBDR1.1__A-F9': "str:'scan9'",
 '1 generated 286 IMG-ALOS2002860286-200107-HBQR1.1__A': "str:''",
 '1 generated 287 IMG-ALOS2002870287-200108-HBQR1.1__A-F0': "str:'scan0'",
 '1 generated 288 IMG-ALOS2002880288-200109-HBQR1.1__A-B1': "str:'scan1'",
 '1 generated 289 IMG-ALOS2002890289-200110-HBQR1.1__A-F2': "str:'scan2'",
 '1 generated 290 IMG-ALOS2002900290-200111-HBQR1.1__A-B3': "str:'scan3'",
 '1 generated 291 IMG-ALOS2002910291-200112-HBQR1.1__A-F4': "str:'scan4'",
 '1 generated 292 IMG-ALOS2002920292-200113-HBQR1.1__A-B5': "str:'scan5'",
 '1 generated 293 IMG-ALOS2002930293-200114-HBQR1.1__A-F6': "str:'scan6'",
 '1 generated 294 IMG-ALOS2002940294-200115-HBQR1.1__A-B7': "str:'scan7'",
 '1 generated 295 IMG-ALOS2002950295-200116-HBQR1.1__A-F8': "str:'scan8'",
 '1 generated 296 IMG-ALOS2002960296-200117-HBQR1.1__A-B9': "str:'scan9'",
 '1 generated 297 IMG-ALOS2002970297-200118-FBSR1.1__A': "str:''",
 '1 generated 298 IMG-ALOS2002980298-200119-FBSR1.1__A-B0': "str:'scan0'",
 '1 generated 299 IMG-ALOS2002990299-200120-FBSR1.1__A-F1': "str:'scan1'",
 '1 generated 300 IMG-ALOS2003000300-200121-FBSR1.1__A-B2': "str:'scan2'",
 '1 generated 301 IMG-ALOS2003010301-200122-FBSR1.1__A-F3': "str:'scan3'",
 '1 generated 302 IMG-ALOS2003020302-200123-FBSR1.1__A-B4': "str:'scan4'",
 '1 generated 303 IMG-ALOS2003030303-200124-FBSR1.1__A-F5': "str:'scan5'",
 '1 generated 304 IMG-ALOS2003040304-200125-FBSR1.1__A-B6': "str:'scan6'",
 '1 generated 305 IMG-ALOS2003050305-200126-FBSR1.1__A-F7': "str:'scan7'",
 '1 generated 306 IMG-ALOS2003060306-200127-FBSR1.1__A-B8': "str:'scan8'",
 '1 generated 307 IMG-ALOS2003070307-200128-FBSR1.1__A-F9': "str:'scan9'",
 '1 generated 308 IMG-ALOS2003080308-200101-WWDR1.1__A': "str:''",
 '1 generated 309 IMG-ALOS2003090309-200102-WWDR1.1__A-F0': "str:'scan0'",
 '1 generated 310 IMG-ALOS2003100310-200103-WWDR1.1__A-B1': "str:'scan1'",
 '1 generated 311 IMG-ALOS2003110311-200104-WWDR1.1__A-F2': "str:'scan2'",
 '1 generated 312 IMG-ALOS2003120312-200105-WWDR1.1__A-B3': "str:'scan3'",
 '1 generated 313 IMG-ALOS2003130313-200106-WWDR1.1__A-F4': "str:'scan4'",
 '1 generated 314 IMG-ALOS2003140314-200107-WWDR1.1__A-B5': "str:'scan5'",
 '1 generated 315 IMG-ALOS2003150315-200108-WWDR1.1__A-F6': "str:'scan6'",
 '1 generated 316 IMG-ALOS2003160316-200109-WWDR1.1__A-B7': "str:'scan7'",
 '1 generated 317 IMG-ALOS2003170317-200110-WWDR1.1__A-F8': "str:'scan8'",
 '1 generated 318 IMG-ALOS2003180318-200111-WWDR1.1__A-B9': "str:'scan9'",
 '1 generated 319 IMG-ALOS2003190319-200112-VBSR1.1__A': "str:''",
 '1 generated 320 IMG-ALOS2003200320-200113-VBSR1.1__A-B0': "str:'scan0'",
 '1 generated 321 IMG-ALOS2003210321-200114-VBSR1.1__A-F1': "str:'scan1'",
 '1 generated 322 IMG-ALOS2003220322-200115-VBSR1.1__A-B2': "str:'scan2'",
 '1 generated 323 IMG-ALOS2003230323-200116-VBSR1.1__A-F3': "str:'scan3'",
 '1 generated 324 IMG-ALOS2003240324-200117-VBSR1.1__A-B4': "str:'scan4'",
 '1 generated 325 IMG-ALOS2003250325-200118-VBSR1.1__A-F5': "str:'scan5'",
 '1 generated 326 IMG-ALOS2003260326-200119-VBSR1.1__A-B6': "str:'scan6'",
 '1 generated 327 IMG-ALOS2003270327-200120-VBSR1.1__A-F7': "str:'scan7'",
 '1 generated 328 IMG-ALOS2003280328-200121-VBSR1.1__A-B8': "str:'scan8'",
 '1 generated 329 IMG-ALOS2003290329-200122-VBSR1.1__A-F9': "str:'scan9'",
 '1 generated, reversed 0 IMG-ALOS2003270327-200120-VBSR1.1__A-F7': "str:'scan7'",
 '1 generated, reversed 1 IMG-ALOS2003240324-200117-VBSR1.1__A-B4': "str:'scan4'",
 '1 generated, reversed 2 IMG-ALOS2003210321-200114-VBSR1.1__A-F1': "str:'scan1'",
 '1 generated, reversed 3 IMG-ALOS2003180318-200111-WWDR1.1__A-B9': "str:'scan9'",
 '1 generated, reversed 4 IMG-ALOS2003150315-200108-WWDR1.1__A-F6': "str:'scan6'",
 '1 generated, reversed 5 IMG-ALOS2003120312-200105-WWDR1.1__A-B3': "str:'scan3'",
 '1 generated, reversed 6 IMG-ALOS2003090309-200102-WWDR1.1__A-F0': "str:'scan0'",
 '1 generated, reversed 7 IMG-ALOS2003060306-200127-FBSR1.1__A-B8': "str:'scan8'",
 '1 generated, reversed 8 IMG-ALOS2003030303-200124-FBSR1.1__A-F5': "str:'scan5'",
 '1 generated, reversed 9 IMG-ALOS2003000300-200121-FBSR1.1__A-B2': "str:'scan2'",
 '1 generated, reversed 10 IMG-ALOS2002970297-200118-FBSR1.1__A': "str:''",
 '1 generated, reversed 11 IMG-ALOS2002940294-200115-HBQR1.1__A-B7': "str:'scan7'",
 '1 generated, reversed 12 IMG-ALOS2002910291-200112-HBQR1.1__A-F4': "str:'scan4'",
 '1 generated, reversed 13 IMG-ALOS2002880288-200109-HBQR1.1__A-B1': "str:'scan1'",
 '1 generated, reversed 14 IMG-ALOS2002850285-200106-UBDR1.1__A-F9': "str:'scan9'",
 '1 generated, reversed 15 IMG-ALOS2002820282-200103-UBDR1.1__A-B6': "str:'scan6'",
 '1 generated, reversed 16 IMG-ALOS2002790279-200128-UBDR1.1__A-F3': "str:'scan3'",
 '1 generated, reversed 17 IMG-ALOS2002760276-200125-UBDR1.1__A-B0': "str:'scan0'",
 '1 generated, reversed 18 IMG-ALOS2002730273-200122-SBSR1.1__A-F8': "str:'scan8'",
 '1 generated, reversed 19 IMG-ALOS2002700270-200119-SBSR1.1__A-B5': "str:'scan5'",
 '1 generated, reversed 20 IMG-ALOS2002670267-200116-SBSR1.1__A-F2': "str:'scan2'",
 '1 generated, reversed 21 IMG-ALOS2002640264-200113-SBSR1.1__A': "str:''",
 '1 generated, reversed 22 IMG-VV-ALOS2002610261-200110-VBSR1.1__A-F7': "str:'VV_scan7'",
 '1 generated, reversed 23 IMG-VV-ALOS2002580258-200107-VBSR1.1__A-B4': "str:'VV_scan4'",
 '1 generated, reversed 24 IMG-VV-ALOS2002550255-200104-VBSR1.1__A-F1': "str:'VV_scan1'",
 '1 generated, reversed 25 IMG-VV-ALOS2002520252-200101-WWDR1.1__A-B9': "str:'VV_scan9'",
 '1 generated, reversed 26 IMG-VV-ALOS2002490249-200126-WWDR1.1__A-F6': "str:'VV_scan6'",
 '1 generated, reversed 27 IMG-VV-ALOS2002460246-200123-WWDR1.1__A-B3': "str:'VV_scan3'",
 '1 generated, reversed 28 IMG-VV-ALOS2002430243-200120-WWDR1.1__A-F0': "str:'VV_scan0'",
 '1 generated, reversed 29 IMG-VV-ALOS2002400240-200117-FBSR1.1__A-B8': "str:'VV_scan8'",
 '1 generated, reversed 30 IMG-VV-ALOS2002370237-200114-FBSR1.1__A-F5': "str:'VV_scan5'",
 '1 generated, reversed 31 IMG-VV-ALOS2002340234-200111-FBSR1.1__A-B2': "str:'VV_scan2'",
 '1 generated, reversed 32 IMG-VV-ALOS2002310231-200108-FBSR1.1__A': "str:'VV'",
 '1 generated, reversed 33 IMG-VV-ALOS2002280228-200105-HBQR1.1__A-B7': "str:'VV_scan7'",
 '1 generated, reversed 34 IMG-VV-ALOS2002250225-200102-HBQR1.1__A-F4': "str:'VV_scan4'",
 '1 generated, reversed 35 IMG-VV-ALOS2002220222-200127-HBQR1.1__A-B1': "str:'VV_scan1'",
 '1 generated, reversed 36 IMG-VV-ALOS2002190219-200124-UBDR1.1__A-F9': "str:'VV_scan9'",
 '1 generated, reversed 37 IMG-VV-ALOS2002160216-200121-UBDR1.1__A-B6': "str:'VV_scan6'",
 '1 generated, reversed 38 IMG-VV-ALOS2002130213-200118-UBDR1.1__A-F3': "str:'VV_scan3'",
 '1 generated, reversed 39 IMG-VV-ALOS2002100210-200115-UBDR1.1__A-B0': "str:'VV_scan0'",
 '1 generated, reversed 40 IMG-VV-ALOS2002070207-200112-SBSR1.1__A-F8': "str:'VV_scan8'",
 '1 generated, reversed 41 IMG-VV-ALOS2002040204-200109-SBSR1.1__A-B5': "str:'VV_scan5'",
 '1 generated, reversed 42 IMG-VV-ALOS2002010201-200106-SBSR1.1__A-F2': "str:'VV_scan2'",
 '1 generated, reversed 43 IMG-VV-ALOS2001980198-200103-SBSR1.1__A': "str:'VV'",
 '1 generated, reversed 44 IMG-VH-ALOS2001950195-200128-VBSR1.1__A-F7': "str:'VH_scan7'",
 '1 generated, reversed 45 IMG-VH-ALOS2001920192-200125-VBSR1.1__A-B4': "str:'VH_scan4'",
 '1 generated, reversed 46 IMG-VH-ALOS2001890189-200122-VBSR1.1__A-F1': "str:'VH_scan1'",
 '1 generated, reversed 47 IMG-VH-ALOS2001860186-200119-WWDR1.1__A-B9': "str:'VH_scan9'",
 '1 generated, reversed 48 IMG-VH-ALOS2001830183-200116-WWDR1.1__A-F6': "str:'VH_scan6'",
 '1 generated, reversed 49 IMG-VH-ALOS2001800180-200113-WWDR1.1__A-B3': "str:'VH_scan3'",
 '1 generated, reversed 50 IMG-VH-ALOS2001770177-200110-WWDR1.1__A-F0': "str:'VH_scan0'",
 '1 generated, reversed 51 IMG-VH-ALOS2001740174-200107-FBSR1.1__A-B8': "str:'VH_scan8'",
 '1 generated, reversed 52 IMG-VH-ALOS2001710171-200104-FBSR1.1__A-F5': "str:'VH_scan5'",
 '1 generated, reversed 53 IMG-VH-ALOS2001680168-200101-FBSR1.1__A-B2': "str:'VH_scan2'",
 '1 generated, reversed 54 IMG-VH-ALOS2001650165-200126-FBSR1.1__A': "str:'VH'",
 '1 generated, reversed 55 IMG-VH-ALOS2001620162-200123-HBQR1.1__A-B7': "str:'VH_scan7'",
 '1 generated, reversed 56 IMG-VH-ALOS2001590159-200120-HBQR1.1__A-F4': "str:'VH_scan4'",
 '1 generated, reversed 57 IMG-VH-ALOS2001560156-200117-HBQR1.1__A-B1': "str:'VH_scan1'",
 '1 generated, reversed 58 IMG-VH-ALOS2001530153-200114-UBDR1.1__A-F9': "str:'VH_scan9'",
 '1 generated, reversed 59 IMG-VH-ALOS2001500150-200111-UBDR1.1__A-B6': "str:'VH_scan6'",
 '1 generated, reversed 60 IMG-VH-ALOS2001470147-200108-UBDR1.1__A-F3': "str:'VH_scan3'",
 '1 generated, reversed 61 IMG-VH-ALOS2001440144-200105-UBDR1.1__A-B0': "str:'VH_scan0'",
 '1 generated, reversed 62 IMG-VH-ALOS2001410141-200102-SBSR1.1__A-F8': "str:'VH_scan8'",
 '1 generated, reversed 63 IMG-VH-ALOS2001380138-200127-SBSR1.1__A-B5': "str:'VH_scan5'",
 '1 generated, reversed 64 IMG-VH-ALOS2001350135-200124-SBSR1.1__A-F2': "str:'VH_scan2'",
 '1 generated, reversed 65 IMG-VH-ALOS2001320132-200121-SBSR1.1__A': "str:'VH'",
 '1 generated, reversed 66 IMG-HV-ALOS2001290129-200118-VBSR1.1__A-F7': "str:'HV_scan7'",
 '1 generated, reversed 67 IMG-HV-ALOS2001260126-200115-VBSR1.1__A-B4': "str:'HV_scan4'",
 '1 generated, reversed 68 IMG-HV-ALOS2001230123-200112-VBSR1.1__A-F1': "str:'HV_scan1'",
 '1 generated, reversed 69 IMG-HV-ALOS2001200120-200109-WWDR1.1__A-B9': "str:'HV_scan9'",
 '1 generated, reversed 70 IMG-HV-ALOS2001170117-200106-WWDR1.1__A-F6': "str:'HV_scan6'",
 '1 generated, reversed 71 IMG-HV-ALOS2001140114-200103-WWDR1.1__A-B3': "str:'HV_scan3'",
 '1 generated, reversed 72 IMG-HV-ALOS2001110111-200128-WWDR1.1__A-F0': "str:'HV_scan0'",
 '1 generated, reversed 73 IMG-HV-ALOS2001080108-200125-FBSR1.1__A-B8': "str:'HV_scan8'",
 '1 generated, reversed 74 IMG-HV-ALOS2001050105-200122-FBSR1.1__A-F5': "str:'HV_scan5'",
 '1 generated, reversed 75 IMG-HV-ALOS2001020102-200119-FBSR1.1__A-B2': "str:'HV_scan2'",
 '1 generated, reversed 76 IMG-HV-ALOS2000990099-200116-FBSR1.1__A': "str:'HV'",
 '1 generated, reversed 77 IMG-HV-ALOS2000960096-200113-HBQR1.1__A-B7': "str:'HV_scan7'",
 '1 generated, reversed 78 IMG-HV-ALOS2000930093-200110-HBQR1.1__A-F4': "str:'HV_scan4'",
 '1 generated, reversed 79 IMG-HV-ALOS2000900090-200107-HBQR1.1__A-B1': "str:'HV_scan1'",
 '1 generated, reversed 80 IMG-HV-ALOS2000870087-200104-UBDR1.1__A-F9': "str:'HV_scan9'",
 '1 generated, reversed 81 IMG-HV-ALOS2000840084-200101-UBDR1.1__A-B6': "str:'HV_scan6'",
 '1 generated, reversed 82 IMG-HV-ALOS2000810081-200126-UBDR1.1__A-F3': "str:'HV_scan3'",
 '1 generated, reversed 83 IMG-HV-ALOS2000780078-200123-UBDR1.1__A-B0': "str:'HV_scan0'",
 '1 generated, reversed 84 IMG-HV-ALOS2000750075-200120-SBSR1.1__A-F8': "str:'HV_scan8'",
 '1 generated, reversed 85 IMG-HV-ALOS2000720072-200117-SBSR1.1__A-B5': "str:'HV_scan5'",
 '1 generated, reversed 86 IMG-HV-ALOS2000690069-200114-SBSR1.1__A-F2': "str:'HV_scan2'",
 '1 generated, reversed 87 IMG-HV-ALOS2000660066-200111-SBSR1.1__A': "str:'HV'",
 '1 generated, reversed 88 IMG-HH-ALOS2000630063-200108-VBSR1.1__A-F7': "str:'HH_scan7'",
 '1 generated, reversed 89 IMG-HH-ALOS2000600060-200105-VBSR1.1__A-B4': "str:'HH_scan4'",
 '1 generated, reversed 90 IMG-HH-ALOS2000570057-200102-VBSR1.1__A-F1': "str:'HH_scan1'",
 '1 generated, reversed 91 IMG-HH-ALOS2000540054-200127-WWDR1.1__A-B9': "str:'HH_scan9'",
 '1 generated, reversed 92 IMG-HH-ALOS2000510051-200124-WWDR1.1__A-F6': "str:'HH_scan6'",
 '1 generated, reversed 93 IMG-HH-ALOS2000480048-200121-WWDR1.1__A-B3': "str:'HH_scan3'",
 '1 generated, reversed 94 IMG-HH-ALOS2000450045-200118-WWDR1.1__A-F0': "str:'HH_scan0'",
 '1 generated, reversed 95 IMG-HH-ALOS2000420042-200115-FBSR1.1__A-B8': "str:'HH_scan8'",
 '1 generated, reversed 96 IMG-HH-ALOS2000390039-200112-FBSR1.1__A-F5': "str:'HH_scan5'",
 '1 generated, reversed 97 IMG-HH-ALOS2000360036-200109-FBSR1.1__A-B2': "str:'HH_scan2'",
 '1 generated, reversed 98 IMG-HH-ALOS2000330033-200106-FBSR1.1__A': "str:'HH'",
 '1 generated, reversed 99 IMG-HH-ALOS2000300030-200103-HBQR1.1__A-B7': "str:'HH_scan7'",
 '1 generated, reversed 100 IMG-HH-ALOS2000270027-200128-HBQR1.1__A-F4': "str:'HH_scan4'",
 '1 generated, reversed 101 IMG-HH-ALOS2000240024-200125-HBQR1.1__A-B1': "str:'HH_scan1'",
 '1 generated, reversed 102 IMG-HH-ALOS2000210021-200122-UBDR1.1__A-F9': "str:'HH_scan9'",
 '1 generated, reversed 103 IMG-HH-ALOS2000180018-200119-UBDR1.1__A-B6': "str:'HH_scan6'",
 '1 generated, reversed 104 IMG-HH-ALOS2000150015-200116-UBDR1.1__A-F3': "str:'HH_scan3'",
 '1 generated, reversed 105 IMG-HH-ALOS2000120012-200113-UBDR1.1__A-B0': "str:'HH_scan0'",
 '1 generated, reversed 106 IMG-HH-ALOS2000090009-200110-SBSR1.1__A-F8': "str:'HH_scan8'",
 '1 generated, reversed 107 IMG-HH-ALOS2000060006-200107-SBSR1.1__A-B5': "str:'HH_scan5'",
 '1 generated, reversed 108 IMG-HH-ALOS2000030003-200104-SBSR1.1__A-F2': "str:'HH_scan2'",
 '1 generated, reversed 109 IMG-HH-ALOS2000000000-200101-SBSR1.1__A': "str:'HH'",
 "2 name 0 'IMG-HH-ALOS2225333100-180726-WWDR1.1__D-B3'": "str:'HH_scan3'",
 "2 name 0 'IMG-HH-ALOS2225333100-180726-WWDR1.1__D-B3' again": "str:'HH_scan3'",
 "2 name 1 'IMG-HV-ALOS2290760600-191011-WWDR1.5RUA'": "str:'HV'",
 "2 name 1 'IMG-HV-ALOS2290760600-191011-WWDR1.5RUA' again": "str:'HV'",
 "2 name 2 'IMG-VV-ALOS2225333100-180726-WWDR1.1__D-F1'": "str:'VV_scan1'",
 "2 name 2 'IMG-VV-ALOS2225333100-180726-WWDR1.1__D-F1' again": "str:'VV_scan1'",
 "2 name 3 'IMG-VH-ALOS2225333100-180726-WWDR1.1__D-B0'": "str:'VH_scan0'",
 "2 name 3 'IMG-VH-ALOS2225333100-180726-WWDR1.1__D-B0' again": "str:'VH_scan0'",
 "2 name 4 'IMG-HH-ALOS2225333100-180726-WWDR1.1__D-F9'": "str:'HH_scan9'",
 "2 name 4 'IMG-HH-ALOS2225333100-180726-WWDR1.1__D-F9' again": "str:'HH_scan9'",
 "2 name 5 'IMG-HH-ALOS2225333100-180726-WWDR1.1__D'": "str:'HH'",
 "2 name 5 'IMG-HH-ALOS2225333100-180726-WWDR1.1__D' again": "str:'HH'",
 "2 name 6 'IMG-ALOS2225333100-180726-WWDR1.1__D'": "str:''",
 "2 name 6 'IMG-ALOS2225333100-180726-WWDR1.1__D' again": "str:''",
 "2 name 7 'IMG-ALOS2225333100-180726-WWDR1.1__D-B5'": "str:'scan5'",
 "2 name 7 'IMG-ALOS2225333100-180726-WWDR1.1__D-B5' again": "str:'scan5'",
 "2 name 8 'LED-ALOS2225333100-180726-WWDR1.1__D'": "str:''",
 "2 name 8 'LED-ALOS2225333100-180726-WWDR1.1__D' again": "str:''",
 "2 name 9 'TRL-ALOS2225333100-180726-WWDR1.1__D'": "str:''",
 "2 name 9 'TRL-ALOS2225333100-180726-WWDR1.1__D' again": "str:''",
 "2 name 10 'VOL-ALOS2225333100-180726-WWDR1.1__D'": "str:''",
 "2 name 10 'VOL-ALOS2225333100-180726-WWDR1.1__D' again": "str:''",
 "2 name 11 'XYZ-HV-ALOS2225333100-180726-WWDR1.1__D-B2'": "str:'HV_scan2'",
 "2 name 11 'XYZ-HV-ALOS2225333100-180726-WWDR1.1__D-B2' again": "str:'HV_scan2'",
 "2 name 12 'IMG-HH-ALOS2000000000-000101-SBSL1.0__A'": "str:'HH'",
 "2 name 12 'IMG-HH-ALOS2000000000-000101-SBSL1.0__A' again": "str:'HH'",
 "2 name 13 'IMG-HH-ALOS2999999999-991231-VBDR3.1GUD'": "str:'HH'",
 "2 name 13 'IMG-HH-ALOS2999999999-991231-VBDR3.1GUD' again": "str:'HH'",
 "2 name 14 'IMG-HH-ABCDE12345ABCD-200229-FBQR1.5GPA-F7'": 'raises ValueError: invalid scene id: '
                                                           'ABCDE12345ABCD-200229 (cause: None, '
                                                           'context: None)',
 "2 name 14 'IMG-HH-ABCDE12345ABCD-200229-FBQR1.5GPA-F7' again": 'raises ValueError: invalid scene '
                                                                 'id: ABCDE12345ABCD-200229 '
                                                                 '(cause: None, context: None)',
 "2 name 15 ''": 'raises ValueError: invalid file name:  (cause: None, context: None)',
 "2 name 15 '' again": 'raises ValueError: invalid file name:  (cause: None, context: None)',
 "2 name 16 'IMG'": 'raises ValueError: invalid file name: IMG (cause: None, context: None)',
 "2 name 16 'IMG' again": 'raises ValueError: invalid file name: IMG (cause: None, context: None)',
 "2 name 17 'IMG-HH'": 'raises ValueError: invalid file name: IMG-HH (cause: None, context: None)',
 "2 name 17 'IMG-HH' again": 'raises ValueError: invalid file name: IMG-HH (cause: None, context: '
                             'None)',
 "2 name 18 'img-hh-alos2225333100-180726-wwdr1.1__d-b3'": 'raises ValueError: invalid file name: '
                                                           'img-hh-alos2225333100-180726-wwdr1.1__d-b3 '
                                                           '(cause: None, context: None)',
 "2 name 18 'img-hh-alos2225333100-180726-wwdr1.1__d-b3' again": 'raises ValueError: invalid file '
                                                                 'name: '
                                                                 'img-hh-alos2225333100-180726-wwdr1.1__d-b3 '
                                                                 '(cause: None, context: None)',
 "2 name 19 'IMG-HX-ALOS2225333100-180726-WWDR1.1__D-B3'": 'raises ValueError: invalid file name: '
                                                           'IMG-HX-ALOS2225333100-180726-WWDR1.1__D-B3 '
                                                           '(cause: None, context: None)',
 "2 name 19 'IMG-HX-ALOS2225333100-180726-WWDR1.1__D-B3' again": 'raises ValueError: invalid file '
                                                                 'name: '
                                                                 'IMG-HX-ALOS2225333100-180726-WWDR1.1__D-B3 '
                                                                 '(cause: None, context: None)',
 "2 name 20 'IMG-H-ALOS2225333100-180726-WWDR1.1__D-B3'": 'raises ValueError: invalid file name: '
                                                          'IMG-H-ALOS2225333100-180726-WWDR1.1__D-B3 '
                                                          '(cause: None, context: None)',
 "2 name 20 'IMG-H-ALOS2225333100-180726-WWDR1.1__D-B3' again": 'raises ValueError: invalid file '
                                                                'name: '
                                                                'IMG-H-ALOS2225333100-180726-WWDR1.1__D-B3 '
                                                                '(cause: None, context: None)',
 "2 name 21 'IMG-HHH-ALOS2225333100-180726-WWDR1.1__D-B3'": 'raises ValueError: invalid file name: '
                                                            'IMG-HHH-ALOS2225333100-180726-WWDR1.1__D-B3 '
                                                            '(cause: None, context: None)',
 "2 name 21 'IMG-HHH-ALOS2225333100-180726-WWDR1.1__D-B3' again": 'raises ValueError: invalid file '
                                                                  'name: '
                                                                  'IMG-HHH-ALOS2225333100-180726-WWDR1.1__D-B3 '
                                                                  '(cause: None, context: None)',
 "2 name 22 'IMG-HH-ALOS2225333100-180726-WWDR1.1__D-B'": 'raises ValueError: invalid file name: '
                                                          'IMG-HH-ALOS2225333100-180726-WWDR1.1__D-B '
                                                          '(cause: None, context: None)',
 "2 name 22 'IMG-HH-ALOS2225333100-180726-WWDR1.1__D-B' again": 'raises ValueError: invalid file '
                                                                'name: '
                                                                'IMG-HH-ALOS2225333100-180726-WWDR1.1__D-B '
                                                                '(cause: None, context: None)',
 "2 name 23 'IMG-HH-ALOS2225333100-180726-WWDR1.1__D-B33'": 'raises ValueError: invalid file name: '
                                                            'IMG-HH-ALOS2225333100-180726-WWDR1.1__D-B33 '
                                                            '(cause: None, context: None)',
 "2 name 23 'IMG-HH-ALOS2225333100-180726-WWDR1.1__D-B33' again": 'raises ValueError: invalid file '
                                                                  'name: '
                                                                  'IMG-HH-ALOS2225333100-180726-WWDR1.1__D-B33 '
                                                                  '(cause: None, context: None)',
 "2 name 24 'IMG-HH-ALOS2225333100-180726-WWDR1.1__D-A3'": 'raises ValueError: invalid file name: '
                                                           'IMG-HH-ALOS2225333100-180726-WWDR1.1__D-A3 '
                                                           '(cause: None, context: None)',
 "2 name 24 'IMG-HH-ALOS2225333100-180726-WWDR1.1__D-A3' again": 'raises ValueError: invalid file '
                                                                 'name: '
                                                                 'IMG-HH-ALOS2225333100-180726-WWDR1.1__D-A3 '
                                                                 '(cause: None, context: None)',
 "2 name 25 'IMG-HH-ALOS2225333100-180726-WWDR1.1__D-B3 '": 'raises ValueError: invalid file name: '
                                                            'IMG-HH-ALOS2225333100-180726-WWDR1.1__D-B3  '
                                                            '(cause: None, context: None)',
 "2 name 25 'IMG-HH-ALOS2225333100-180726-WWDR1.1__D-B3 ' again": 'raises ValueError: invalid file '
                                                                  'name: '
                                                                  'IMG-HH-ALOS2225333100-180726-WWDR1.1__D-B3  '
                                                                  '(cause: None, context: None)',
 "2 name 26 ' IMG-HH-ALOS2225333100-180726-WWDR1.1__D-B3'": 'raises ValueError: invalid file '
                                                            'name:  '
                                                            'IMG-HH-ALOS2225333100-180726-WWDR1.1__D-B3 '
                                                            '(cause: None, context: None)',
 "2 name 26 ' IMG-HH-ALOS2225333100-180726-WWDR1.1__D-B3' again": 'raises ValueError: invalid file '
                                                                  'name:  '
                                                                  'IMG-HH-ALOS2225333100-180726-WWDR1.1__D-B3 '
                                                                  '(cause: None, context: None)',
 "2 name 27 'IMG-HH-ALOS2225333100-180726-WWDR1.1__D-B3\\n'": 'raises ValueError: invalid file '
                                                              'name: '
                                                              'IMG-HH-ALOS2225333100-180726-WWDR1.1__D-B3\n'
                                                              ' (cause: None, context: None)',
 "2 name 27 'IMG-HH-ALOS2225333100-180726-WWDR1.1__D-B3\\n' again": 'raises ValueError: invalid '
                                                                    'file name: '
                                                                    'IMG-HH-ALOS2225333100-180726-WWDR1.1__D-B3\n'
                                                                    ' (cause: None, context: None)',
 "2 name 28 'IMG-HH-ALOS2225333100-180732-WWDR1.1__D-B3'": 'raises ValueError: invalid scene id: '
                                                           'ALOS2225333100-180732 (cause: '
                                                           'ValueError, context: ValueError)',
 "2 name 28 'IMG-HH-ALOS2225333100-180732-WWDR1.1__D-B3' again": 'raises ValueError: invalid scene '
                                                                 'id: ALOS2225333100-180732 '
                                                                 '(cause: ValueError, context: '
                                                                 'ValueError)',
 "2 name 29 'IMG-HH-ALOS2225333100-181326-WWDR1.1__D-B3'": 'raises ValueError: invalid scene id: '
                                                           'ALOS2225333100-181326 (cause: '
                                                           'ValueError, context: ValueError)',
 "2 name 29 'IMG-HH-ALOS2225333100-181326-WWDR1.1__D-B3' again": 'raises ValueError: invalid scene '
                                                                 'id: ALOS2225333100-181326 '
                                                                 '(cause: ValueError, context: '
                                                                 'ValueError)',
 "2 name 30 'IMG-HH-ALOS2225333100-190229-WWDR1.1__D-B3'": 'raises ValueError: invalid scene id: '
                                                           'ALOS2225333100-190229 (cause: '
                                                           'ValueError, context: ValueError)',
 "2 name 30 'IMG-HH-ALOS2225333100-190229-WWDR1.1__D-B3' again": 'raises ValueError: invalid scene '
                                                                 'id: ALOS2225333100-190229 '
                                                                 '(cause: ValueError, context: '
                                                                 'ValueError)',
 "2 name 31 'IMG-HH-ALOS2225333100-000000-WWDR1.1__D-B3'": 'raises ValueError: invalid scene id: '
                                                           'ALOS2225333100-000000 (cause: '
                                                           'ValueError, context: ValueError)',
 "2 name 31 'IMG-HH-ALOS2225333100-000000-WWDR1.1__D-B3' again": 'raises ValueError: invalid scene '
                                                                 'id: ALOS2225333100-000000 '
                                                                 '(cause: ValueError, context: '
                                                                 'ValueError)',
 "2 name 32 'IMG-HH-ALOS2225333100-18072-WWDR1.1__D-B3'": 'raises ValueError: invalid file name: '
                                                          'IMG-HH-ALOS2225333100-18072-WWDR1.1__D-B3 '
                                                          '(cause: None, context: None)',
 "2 name 32 'IMG-HH-ALOS2225333100-18072-WWDR1.1__D-B3' again": 'raises ValueError: invalid file '
                                                                'name: '
                                                                'IMG-HH-ALOS2225333100-18072-WWDR1.1__D-B3 '
                                                                '(cause: None, context: None)',
 "2 name 33 'IMG-HH-ALOS222533310-180726-WWDR1.1__D-B3'": 'raises ValueError: invalid file name: '
                                                          'IMG-HH-ALOS222533310-180726-WWDR1.1__D-B3 '
                                                          '(cause: None, context: None)',
 "2 name 33 'IMG-HH-ALOS222533310-180726-WWDR1.1__D-B3' again": 'raises ValueError: invalid file '
                                                                'name: '
                                                                'IMG-HH-ALOS222533310-180726-WWDR1.1__D-B3 '
                                                                '(cause: None, context: None)',
 "2 name 34 'IMG-HH-ALOS22253331AB-180726-WWDR1.1__D-B3'": 'raises ValueError: invalid scene id: '
                                                           'ALOS22253331AB-180726 (cause: None, '
                                                           'context: None)',
 "2 name 34 'IMG-HH-ALOS22253331AB-180726-WWDR1.1__D-B3' again": 'raises ValueError: invalid scene '
                                                                 'id: ALOS22253331AB-180726 '
                                                                 '(cause: None, context: None)',
 "2 name 35 'IMG-HH-ALOS2225333100-180726-QQQR1.1__D-B3'": 'raises ValueError: invalid product id: '
                                                           'QQQR1.1__D (cause: ValueError, '
                                                           'context: ValueError)',
 "2 name 35 'IMG-HH-ALOS2225333100-180726-QQQR1.1__D-B3' again": 'raises ValueError: invalid '
                                                                 'product id: QQQR1.1__D (cause: '
                                                                 'ValueError, context: ValueError)',
 "2 name 36 'IMG-HH-ALOS2225333100-180726-WWDX1.1__D-B3'": 'raises ValueError: invalid product id: '
                                                           'WWDX1.1__D (cause: None, context: '
                                                           'None)',
 "2 name 36 'IMG-HH-ALOS2225333100-180726-WWDX1.1__D-B3' again": 'raises ValueError: invalid '
                                                                 'product id: WWDX1.1__D (cause: '
                                                                 'None, context: None)',
 "2 name 37 'IMG-HH-ALOS2225333100-180726-WWDR2.1__D-B3'": 'raises ValueError: invalid product id: '
                                                           'WWDR2.1__D (cause: None, context: '
                                                           'None)',
 "2 name 37 'IMG-HH-ALOS2225333100-180726-WWDR2.1__D-B3' again": 'raises ValueError: invalid '
                                                                 'product id: WWDR2.1__D (cause: '
                                                                 'None, context: None)',
 "2 name 38 'IMG-HH-ALOS2225333100-180726-WWDR1.1X_D-B3'": 'raises ValueError: invalid product id: '
                                                           'WWDR1.1X_D (cause: None, context: '
                                                           'None)',
 "2 name 38 'IMG-HH-ALOS2225333100-180726-WWDR1.1X_D-B3' again": 'raises ValueError: invalid '
                                                                 'product id: WWDR1.1X_D (cause: '
                                                                 'None, context: None)',
 "2 name 39 'IMG-HH-ALOS2225333100-180726-WWDR1.1_XD-B3'": 'raises ValueError: invalid product id: '
                                                           'WWDR1.1_XD (cause: None, context: '
                                                           'None)',
 "2 name 39 'IMG-HH-ALOS2225333100-180726-WWDR1.1_XD-B3' again": 'raises ValueError: invalid '
                                                                 'product id: WWDR1.1_XD (cause: '
                                                                 'None, context: None)',
 "2 name 40 'IMG-HH-ALOS2225333100-180726-WWDR1.1__X-B3'": 'raises ValueError: invalid product id: '
                                                           'WWDR1.1__X (cause: None, context: '
                                                           'None)',
 "2 name 40 'IMG-HH-ALOS2225333100-180726-WWDR1.1__X-B3' again": 'raises ValueError: invalid '
                                                                 'product id: WWDR1.1__X (cause: '
                                                                 'None, context: None)',
 "2 name 41 'IMG-HH-ALOS2225333100-180726-WWDR1.1__-B3'": 'raises ValueError: invalid file name: '
                                                          'IMG-HH-ALOS2225333100-180726-WWDR1.1__-B3 '
                                                          '(cause: None, context: None)',
 "2 name 41 'IMG-HH-ALOS2225333100-180726-WWDR1.1__-B3' again": 'raises ValueError: invalid file '
                                                                'name: '
                                                                'IMG-HH-ALOS2225333100-180726-WWDR1.1__-B3 '
                                                                '(cause: None, context: None)',
 "2 name 42 'IMG-HH-ALOS2225333100-180726-WWDR1.1__DD-B3'": 'raises ValueError: invalid file name: '
                                                            'IMG-HH-ALOS2225333100-180726-WWDR1.1__DD-B3 '
                                                            '(cause: None, context: None)',
 "2 name 42 'IMG-HH-ALOS2225333100-180726-WWDR1.1__DD-B3' again": 'raises ValueError: invalid file '
                                                                  'name: '
                                                                  'IMG-HH-ALOS2225333100-180726-WWDR1.1__DD-B3 '
                                                                  '(cause: None, context: None)',
 "2 name 43 'dir/IMG-HH-ALOS2225333100-180726-WWDR1.1__D-B3'": 'raises ValueError: invalid file '
                                                               'name: '
                                                               'dir/IMG-HH-ALOS2225333100-180726-WWDR1.1__D-B3 '
                                                               '(cause: None, context: None)',
 "2 name 43 'dir/IMG-HH-ALOS2225333100-180726-WWDR1.1__D-B3' again": 'raises ValueError: invalid '
                                                                     'file name: '
                                                                     'dir/IMG-HH-ALOS2225333100-180726-WWDR1.1__D-B3 '
                                                                     '(cause: None, context: None)',
 "2 name 44 'IMG_HH_ALOS2225333100_180726_WWDR1.1__D_B3'": 'raises ValueError: invalid file name: '
                                                           'IMG_HH_ALOS2225333100_180726_WWDR1.1__D_B3 '
                                                           '(cause: None, context: None)',
 "2 name 44 'IMG_HH_ALOS2225333100_180726_WWDR1.1__D_B3' again": 'raises ValueError: invalid file '
                                                                 'name: '
                                                                 'IMG_HH_ALOS2225333100_180726_WWDR1.1__D_B3 '
                                                                 '(cause: None, context: None)',
 "2 name 45 'IMG-HH-ALOS2225333100-180726-WWDR1.1__D-B٣'": 'raises ValueError: invalid file name: '
                                                           'IMG-HH-ALOS2225333100-180726-WWDR1.1__D-B٣ '
                                                           '(cause: None, context: None)',
 "2 name 45 'IMG-HH-ALOS2225333100-180726-WWDR1.1__D-B٣' again": 'raises ValueError: invalid file '
                                                                 'name: '
                                                                 'IMG-HH-ALOS2225333100-180726-WWDR1.1__D-B٣ '
                                                                 '(cause: None, context: None)',
 "2 name 46 'IMG-HH-ALOS22253331٠٠-180726-WWDR1.1__D-B3'": 'raises ValueError: invalid file name: '
                                                           'IMG-HH-ALOS22253331٠٠-180726-WWDR1.1__D-B3 '
                                                           '(cause: None, context: None)',
 "2 name 46 'IMG-HH-ALOS22253331٠٠-180726-WWDR1.1__D-B3' again": 'raises ValueError: invalid file '
                                                                 'name: '
                                                                 'IMG-HH-ALOS22253331٠٠-180726-WWDR1.1__D-B3 '
                                                                 '(cause: None, context: None)',
 '2 other 0 NoneType': "raises TypeError: expected string or bytes-like object, got 'NoneType' "
                       '(cause: None, context: None)',
 '2 other 1 int': "raises TypeError: expected string or bytes-like object, got 'int' (cause: None, "
                  'context: None)',
 '2 other 2 float': "raises TypeError: expected string or bytes-like object, got 'float' (cause: "
                    'None, context: None)',
 '2 other 3 bytes': 'raises TypeError: cannot use a string pattern on a bytes-like object (cause: '
                    'None, context: None)',
 '2 other 4 bytearray': 'raises TypeError: cannot use a string pattern on a bytes-like object '
                        '(cause: None, context: None)',
 '2 other 5 list': "raises TypeError: expected string or bytes-like object, got 'list' (cause: "
                   'None, context: None)',
 '2 other 6 tuple': "raises TypeError: expected string or bytes-like object, got 'tuple' (cause: "
                    'None, context: None)',
 '2 other 7 dict': "raises TypeError: expected string or bytes-like object, got 'dict' (cause: "
                   'None, context: None)',
 '2 other 8 set': "raises TypeError: expected string or bytes-like object, got 'set' (cause: None, "
                  'context: None)',
 '2 other 9 PurePosixPath': 'raises TypeError: expected string or bytes-like object, got '
                            "'PurePosixPath' (cause: None, context: None)",
 '2 other 10 Name': "str:'HH_scan3'",
 '2 other 11 Name': "str:'HV'",
 '2 other 12 Name': 'raises ValueError: invalid file name: invalid (cause: None, context: None)',
 '2 other 13 LoudName': "str:'VV_scan1'",
 '2 other 14 LoudName': 'raises ValueError: invalid file name: invalid (cause: None, context: '
                        'None)',
 '2 generated 0 IMG-HH-ALOS2000000000-200101-SBSR1.1__A': "str:'HH'",
 '2 generated 1 IMG-HH-ALOS2000010001-200102-SBSR1.1__A-F0': "str:'HH_scan0'",
 '2 generated 2 IMG-HH-ALOS2000020002-200103-SBSR1.1__A-B1': "str:'HH_scan1'",
 '2 generated 3 IMG-HH-ALOS2000030003-200104-SBSR1.1__A-F2': "str:'HH_scan2'",
 '2 generated 4 IMG-HH-ALOS2000040004-200105-SBSR1.1__A-B3': "str:'HH_scan3'",
 '2 generated 5 IMG-HH-ALOS2000050005-200106-SBSR1.1__A-F4': "str:'HH_scan4'",
 '2 generated 6 IMG-HH-ALOS2000060006-200107-SBSR1.1__A-B5': "str:'HH_scan5'",
 '2 generated 7 IMG-HH-ALOS2000070007-200108-SBSR1.1__A-F6': "str:'HH_scan6'",
 '2 generated 8 IMG-HH-ALOS2000080008-200109-SBSR1.1__A-B7': "str:'HH_scan7'",
 '2 generated 9 IMG-HH-ALOS2000090009-200110-SBSR1.1__A-F8': "str:'HH_scan8'",
 '2 generated 10 IMG-HH-ALOS2000100010-200111-SBSR1.1__A-B9': "str:'HH_scan9'",
 '2 generated 11 IMG-HH-ALOS2000110011-200112-UBDR1.1__A': "str:'HH'",
 '2 generated 12 IMG-HH-ALOS2000120012-200113-UBDR1.1__A-B0': "str:'HH_scan0'",
 '2 generated 13 IMG-HH-ALOS2000130013-200114-UBDR1.1__A-F1': "str:'HH_scan1'",
 '2 generated 14 IMG-HH-ALOS2000140014-200115-UBDR1.1__A-B2': "str:'HH_scan2'",
 '2 generated 15 IMG-HH-ALOS2000150015-200116-UBDR1.1__A-F3': "str:'HH_scan3'",
 '2 generated 16 IMG-HH-ALOS2000160016-200117-UBDR1.1__A-B4': "str:'HH_scan4'",
 '2 generated 17 IMG-HH-ALOS2000170017-200118-UBDR1.1__A-F5': "str:'HH_scan5'",
 '2 generated 18 IMG-HH-ALOS2000180018-200119-UBDR1.1__A-B6': "str:'HH_scan6'",
 '2 generated 19 IMG-HH-ALOS2000190019-200120-UBDR1.1__A-F7': "str:'HH_scan7'",
 '2 generated 20 IMG-HH-ALOS2000200020-200121-UBDR1.1__A-B8': "str:'HH_scan8'",
 '2 generated 21 IMG-HH-ALOS2000210021-200122-UBDR1.1__A-F9': "str:'HH_scan9'",
 '2 generated 22 IMG-HH-ALOS2000220022-200123-HBQR1.1__A': "str:'HH'",
 '2 generated 23 IMG-HH-ALOS2000230023-200124-HBQR1.1__A-F0': "str:'HH_scan0'",
 '2 generated 24 IMG-HH-ALOS2000240024-200125-HBQR1.1__A-B1': "str:'HH_scan1'",
 '2 generated 25 IMG-HH-ALOS2000250025-200126-HBQR1.1__A-F2': "str:'HH_scan2'",
 '2 generated 26 IMG-HH-ALOS2000260026-200127-HBQR1.1__A-B3': "str:'HH_scan3'",
 '2 generated 27 IMG-HH-ALOS2000270027-200128-HBQR1.1__A-F4': "str:'HH_scan4'",
 '2 generated 28 IMG-HH-ALOS2000280028-200101-HBQR1.1__A-B5': "str:'HH_scan5'",
 '2 generated 29 IMG-HH-ALOS2000290029-200102-HBQR1.1__A-F6': "str:'HH_scan6'",
 '2 generated 30 IMG-HH-ALOS2000300030-200103-HBQR1.1__A-B7': "str:'HH_scan7'",
 '2 generated 31 IMG-HH-ALOS2000310031-200104-HBQR1.1__A-F8': "str:'HH_scan8'",
 '2 generated 32 IMG-HH-ALOS2000320032-200105-HBQR1.1__A-B9': "str:'HH_scan9'",
 '2 generated 33 IMG-HH-ALOS2000330033-200106-FBSR1.1__A': "str:'HH'",
 '2 generated 34 IMG-HH-ALOS2000340034-200107-FBSR1.1__A-B0': "str:'HH_scan0'",
 '2 generated 35 IMG-HH-ALOS2000350035-200108-FBSR1.1__A-F1': "str:'HH_scan1'",
 '2 generated 36 IMG-HH-ALOS2000360036-200109-FBSR1.1__A-B2': "str:'HH_scan2'",
 '2 generated 37 IMG-HH-ALOS2000370037-200110-FBSR1.1__A-F3': "str:'HH_scan3'",
 '2 generated 38 IMG-HH-ALOS2000380038-200111-FBSR1.1__A-B4': "str:'HH_scan4'",
 '2 generated 39 IMG-HH-ALOS2000390039-200112-FBSR1.1__A-F5': "str:'HH_scan5'",
 '2 generated 40 IMG-HH-ALOS2000400040-200113-FBSR1.1__A-B6': "str:'HH_scan6'",
 '2 generated 41 IMG-HH-ALOS2000410041-200114-FBSR1.1__A-F7': "str:'HH_scan7'",
 '2 generated 42 IMG-HH-ALOS2000420042-200115-FBSR1.1__A-B8': "str:'HH_scan8'",
 '2 generated 43 IMG-HH-ALOS2000430043-200116-FBSR1.1__A-F9': "str:'HH_scan9'",
 '2 generated 44 IMG-HH-ALOS2000440044-200117-WWDR1.1__A': "str:'HH'",
 '2 generated 45 IMG-HH-ALOS2000450045-200118-WWDR1.1__A-F0': "str:'HH_scan0'",
 '2 generated 46 IMG-HH-ALOS2000460046-200119-WWDR1.1__A-B1': "str:'HH_scan1'",
 '2 generated 47 IMG-HH-ALOS2000470047-200120-WWDR1.1__A-F2': "str:'HH_scan2'",
 '2 generated 48 IMG-HH-ALOS2000480048-200121-WWDR1.1__A-B3': "str:'HH_scan3'",
 '2 generated 49 IMG-HH-ALOS2000490049-200122-WWDR1.1__A-F4': "str:'HH_scan4'",
 '2 generated 50 IMG-HH-ALOS2000500050-200123-WWDR1.1__A-B5': "str:'HH_scan5'",
 '2 generated 51 IMG-HH-ALOS2000510051-200124-WWDR1.1__A-F6': "str:'HH_scan6'",
 '2 generated 52 IMG-HH-ALOS2000520052-200125-WWDR1.1__A-B7': "str:'HH_scan7'",
 '2 generated 53 IMG-HH-ALOS2000530053-200126-WWDR1.1__A-F8': "str:'HH_scan8'",
 '2 generated 54 IMG-HH-ALOS2000540054-200127-WWDR1.1__A-B9': "str:'HH_scan9'",
 '2 generated 55 IMG-HH-ALOS2000550055-200128-VBSR1.1__A': "str:'HH'",
 '2 generated 56 IMG-HH-ALOS2000560056-200101-VBSR1.1__A-B0': "str:'HH_scan0'",
 '2 generated 57 IMG-HH-ALOS2000570057-200102-VBSR1.1__A-F1': "str:'HH_scan1'",
 '2 generated 58 IMG-HH-ALOS2000580058-200103-VBSR1.1__A-B2': "str:'HH_scan2'",
 '2 generated 59 IMG-HH-ALOS2000590059-200104-VBSR1.1__A-F3': "str:'HH_scan3'",
 '2 generated 60 IMG-HH-ALOS2000600060-200105-VBSR1.1__A-B4': "str:'HH_scan4'",
 '2 generated 61 IMG-HH-ALOS2000610061-200106-VBSR1.1__A-F5': "str:'HH_scan5'",
 '2 generated 62 IMG-HH-ALOS2000620062-200107-VBSR1.1__A-B6': "str:'HH_scan6'",
 '2 generated 63 IMG-HH-ALOS2000630063-200108-VBSR1.1__A-F7': "str:'HH_scan7'",
 '2 generated 64 IMG-HH-ALOS2000640064-200109-VBSR1.1__A-B8': "str:'HH_scan8'",
 '2 generated 65 IMG-HH-ALOS2000650065-200110-VBSR1.1__A-F9': "str:'HH_scan9'",
 '2 generated 66 IMG-HV-ALOS2000660066-200111-SBSR1.1__A': "str:'HV'",
 '2 generated 67 IMG-HV-ALOS2000670067-200112-SBSR1.1__A-F0': "str:'HV_scan0'",
 '2 generated 68 IMG-HV-ALOS2000680068-200113-SBSR1.1__A-B1': "str:'HV_scan1'",
 '2 generated 69 IMG-HV-ALOS2000690069-200114-SBSR1.1__A-F2': "str:'HV_scan2'",
 '2 generated 70 IMG-HV-ALOS2000700070-200115-SBSR1.1__A-B3': "str:'HV_scan3'",
 '2 generated 71 IMG-HV-ALOS2000710071-200116-SBSR1.1__A-F4': "str:'HV_scan4'",
 '2 generated 72 IMG-HV-ALOS2000720072-200117-SBSR1.1__A-B5': "str:'HV_scan5'",
 '2 generated 73 IMG-HV-ALOS2000730073-200118-SBSR1.1__A-F6': "str:'HV_scan6'",
 '2 generated 74 IMG-HV-ALOS2000740074-200119-SBSR1.1__A-B7': "str:'HV_scan7'",
 '2 generated 75 IMG-HV-ALOS2000750075-200120-SBSR1.1__A-F8': "str:'HV_scan8'",
 '2 generated 76 IMG-HV-ALOS2000760076-200121-SBSR1.1__A-B9': "str:'HV_scan9'",
 '2 generated 77 IMG-HV-ALOS2000770077-200122-UBDR1.1__A': "str:'HV'",
 '2 generated 78 IMG-HV-ALOS2000780078-200123-UBDR1.1__A-B0': "str:'HV_scan0'",
 '2 generated 79 IMG-HV-ALOS2000790079-200124-UBDR1.1__A-F1': "str:'HV_scan1'",
 '2 generated 80 IMG-HV-ALOS2000800080-200125-UBDR1.1__A-B2': "str:'HV_scan2'",
 '2 generated 81 IMG-HV-ALOS2000810081-200126-UBDR1.1__A-F3': "str:'HV_scan3'",
 '2 generated 82 IMG-HV-ALOS2000820082-200127-UBDR1.1__A-B4': "str:'HV_scan4'",
 '2 generated 83 IMG-HV-ALOS2000830083-200128-UBDR1.1__A-F5': "str:'HV_scan5'",
 '2 generated 84 IMG-HV-ALOS2000840084-200101-UBDR1.1__A-B6': "str:'HV_scan6'",
 '2 generated 85 IMG-HV-ALOS2000850085-200102-UBDR1.1__A-F7': "str:'HV_scan7'",
 '2 generated 86 IMG-HV-ALOS2000860086-200103-UBDR1.1__A-B8': "str:'HV_scan8'",
 '2 generated 87 IMG-HV-ALOS2000870087-200104-UBDR1.1__A-F9': "str:'HV_scan9'",
 '2 generated 88 IMG-HV-ALOS2000880088-200105-HBQR1.1__A': "str:'HV'",
 '2 generated 89 IMG-HV-ALOS2000890089-200106-HBQR1.1__A-F0': "str:'HV_scan0'",
 '2 generated 90 IMG-HV-ALOS2000900090-200107-HBQR1.1__A-B1': "str:'HV_scan1'",
 '2 generated 91 IMG-HV-ALOS2000910091-200108-HBQR1.1__A-F2': "str:'HV_scan2'",
 '2 generated 92 IMG-HV-ALOS2000920092-200109-HBQR1.1__A-B3': "str:'HV_scan3'",
 '2 generated 93 IMG-HV-ALOS2000930093-200110-HBQR1.1__A-F4': "str:'HV_scan4'",
 '2 generated 94 IMG-HV-ALOS2000940094-200111-HBQR1.1__A-B5': "str:'HV_scan5'",
 '2 generated 95 IMG-HV-ALOS2000950095-200112-HBQR1.1__A-F6': "str:'HV_scan6'",
 '2 generated 96 IMG-HV-ALOS2000960096-200113-HBQR1.1__A-B7': "str:'HV_scan7'",
 '2 generated 97 IMG-HV-ALOS2000970097-200114-HBQR1.1__A-F8': "str:'HV_scan8'",
 '2 generated 98 IMG-HV-ALOS2000980098-200115-HBQR1.1__A-B9': "str:'HV_scan9'",
 '2 generated 99 IMG-HV-ALOS2000990099-200116-FBSR1.1__A': "str:'HV'",
 '2 generated 100 IMG-HV-ALOS2001000100-200117-FBSR1.1__A-B0': "str:'HV_scan0'",
 '2 generated 101 IMG-HV-ALOS2001010101-200118-FBSR1.1__A-F1': "str:'HV_scan1'",
 '2 generated 102 IMG-HV-ALOS2001020102-200119-FBSR1.1__A-B2': "str:'HV_scan2'",
 '2 generated 103 IMG-HV-ALOS2001030103-200120-FBSR1.1__A-F3': "str:'HV_scan3'",
 '2 generated 104 IMG-HV-ALOS2001040104-200121-FBSR1.1__A-B4': "str:'HV_scan4'",
 '2 generated 105 IMG-HV-ALOS2001050105-200122-FBSR1.1__A-F5': "str:'HV_scan5'",
 '2 generated 106 IMG-HV-ALOS2001060106-200123-FBSR1.1__A-B6': "str:'HV_scan6'",
 '2 generated 107 IMG-HV-ALOS2001070107-200124-FBSR1.1__A-F7': "str:'HV_scan7'",
 '2 generated 108 IMG-HV-ALOS2001080108-200125-FBSR1.1__A-B8': "str:'HV_scan8'",
 '2 generated 109 IMG-HV-ALOS2001090109-200126-FBSR1.1__A-F9': "str:'HV_scan9'",
 '2 generated 110 IMG-HV-ALOS2001100110-200127-WWDR1.1__A': "str:'HV'",
 '2 generated 111 IMG-HV-ALOS2001110111-200128-WWDR1.1__A-F0': "str:'HV_scan0'",
 '2 generated 112 IMG-HV-ALOS2001120112-200101-WWDR1.1__A-B1': "str:'HV_scan1'",
 '2 generated 113 IMG-HV-ALOS2001130113-200102-WWDR1.1__A-F2': "str:'HV_scan2'",
 '2 generated 114 IMG-HV-ALOS2001140114-200103-WWDR1.1__A-B3': "str:'HV_scan3'",
 '2 generated 115 IMG-HV-ALOS2001150115-200104-WWDR1.1__A-F4': "str:'HV_scan4'",
 '2 generated 116 IMG-HV-ALOS2001160116-200105-WWDR1.1__A-B5': "str:'HV_scan5'",
 '2 generated 117 IMG-HV-ALOS2001170117-200106-WWDR1.1__A-F6': "str:'HV_scan6'",
 '2 generated 118 IMG-HV-ALOS2001180118-200107-WWDR1.1__A-B7': "str:'HV_scan7'",
 '2 generated 119 IMG-HV-ALOS2001190119-200108-WWDR1.1__A-F8': "str:'HV_scan8'",
 '2 generated 120 IMG-HV-ALOS2001200120-200109-WWDR1.1__A-B9': "str:'HV_scan9'",
 '2 generated 121 IMG-HV-ALOS2001210121-200110-VBSR1.1__A': "str:'HV'",
 '2 generated 122 IMG-HV-ALOS2001220122-200111-VBSR1.1__A-B0': "str:'HV_scan0'",
 '2 generated 123 IMG-HV-ALOS2001230123-200112-VBSR1.1__A-F1': "str:'HV_scan1'",
 '2 generated 124 IMG-HV-ALOS2001240124-200113-VBSR1.1__A-B2': "str:'HV_scan2'",
 '2 generated 125 IMG-HV-ALOS2001250125-200114-VBSR1.1__A-F3': "str:'HV_scan3'",
 '2 generated 126 IMG-HV-ALOS2001260126-200115-VBSR1.1__A-B4': "str:'HV_scan4'",
 '2 generated 127 IMG-HV-ALOS2001270127-200116-VBSR1.1__A-F5': "str:'HV_scan5'",
 '2 generated 128 IMG-HV-ALOS2001280128-200117-VBSR1.1__A-B6': "str:'HV_scan6'",
 '2 generated 129 IMG-HV-ALOS2001290129-200118-VBSR1.1__A-F7': "str:'HV_scan7'",
 '2 generated 130 IMG-HV-ALOS2001300130-200119-VBSR1.1__A-B8': "str:'HV_scan8'",
 '2 generated 131 IMG-HV-ALOS2001310131-200120-VBSR1.1__A-F9': "str:'HV_scan9'",
 '2 generated 132 IMG-VH-ALOS2001320132-200121-SBSR1.1__A': "str:'VH'",
 '2 generated 133 IMG-VH-ALOS2001330133-200122-SBSR1.1__A-F0': "str:'VH_scan0'",
 '2 generated 134 IMG-VH-ALOS2001340134-200123-SBSR1.1__A-B1': "str:'VH_scan1'",
 '2 generated 135 IMG-VH-ALOS2001350135-200124-SBSR1.1__A-F2': "str:'VH_scan2'",
 '2 generated 136 IMG-VH-ALOS2001360136-200125-SBSR1.1__A-B3': "str:'VH_scan3'",
 '2 generated 137 IMG-VH-ALOS2001370137-200126-SBSR1.1__A-F4': "str:'VH_scan4'",
 '2 generated 138 IMG-VH-ALOS2001380138-200127-SBSR1.1__A-B5': "str:'VH_scan5'",
 '2 generated 139 IMG-VH-ALOS2001390139-200128-SBSR1.1__A-F6': "str:'VH_scan6'",
 '2 generated 140 IMG-VH-ALOS2001400140-200101-SBSR1.1__A-B7': "str:'VH_scan7'",
 '2 generated 141 IMG-VH-ALOS2001410141-200102-SBSR1.1__A-F8': "str:'VH_scan8'",
 '2 generated 142 IMG-VH-ALOS2001420142-200103-SBSR1.1__A-B9': "str:'VH_scan9'",
 '2 generated 143 IMG-VH-ALOS2001430143-200104-UBDR1.1__A': "str:'VH'",
 '2 generated 144 IMG-VH-ALOS2001440144-200105-UBDR1.1__A-B0': "str:'VH_scan0'",
 '2 generated 145 IMG-VH-ALOS2001450145-200106-UBDR1.1__A-F1': "str:'VH_scan1'",
 '2 generated 146 IMG-VH-ALOS2001460146-200107-UBDR1.1__A-B2': "str:'VH_scan2'",
 '2 generated 147 IMG-VH-ALOS2001470147-200108-UBDR1.1__A-F3': "str:'VH_scan3'",
 '2 generated 148 IMG-VH-ALOS2001480148-200109-UBDR1.1__A-B4': "str:'VH_scan4'",
 '2 generated 149 IMG-VH-ALOS2001490149-200110-UBDR1.1__A-F5': "str:'VH_scan5'",
 '2 generated 150 IMG-VH-ALOS2001500150-200111-UBDR1.1__A-B6': "str:'VH_scan6'",
 '2 generated 151 IMG-VH-ALOS2001510151-200112-UBDR1.1__A-F7': "str:'VH_scan7'",
 '2 generated 152 IMG-VH-ALOS2001520152-200113-UBDR1.1__A-B8': "str:'VH_scan8'",
 '2 generated 153 IMG-VH-ALOS2001530153-200114-UBDR1.1__A-F9': "str:'VH_scan9'",
 '2 generated 154 IMG-VH-ALOS2001540154-200115-HBQR1.1__A': "str:'VH'",
 '2 generated 155 IMG-VH-ALOS2001550155-200116-HBQR1.1__A-F0': "str:'VH_scan0'",
 '2 generated 156 IMG-VH-ALOS2001560156-200117-HBQR1.1__A-B1': "str:'VH_scan1'",
 '2 generated 157 IMG-VH-ALOS2001570157-200118-HBQR1.1__A-F2': "str:'VH_scan2'",
 '2 generated 158 IMG-VH-ALOS2001580158-200119-HBQR1.1__A-B3': "str:'VH_scan3'",
 '2 generated 159 IMG-VH-ALOS2001590159-200120-HBQR1.1__A-F4': "str:'VH_scan4'",
 '2 generated 160 IMG-VH-ALOS2001600160-200121-HBQR1.1__A-B5': "str:'VH_scan5'",
 '2 generated 161 IMG-VH-ALOS2001610161-200122-HBQR1.1__A-F6': "str:'VH_scan6'",
 '2 generated 162 IMG-VH-ALOS2001620162-200123-HBQR1.1__A-B7': "str:'VH_scan7'",
 '2 generated 163 IMG-VH-ALOS2001630163-200124-HBQR1.1__A-F8': "str:'VH_scan8'",
 '2 generated 164 IMG-VH-ALOS2001640164-200125-HBQR1.1__A-B9': "str:'VH_scan9'",
 '2 generated 165 IMG-VH-ALOS2001650165-200126-FBSR1.1__A': "str:'VH'",
 '2 generated 166 IMG-VH-ALOS2001660166-200127-FBSR1.1__A-B0': "str:'VH_scan0'",
 '2 generated 167 IMG-VH-ALOS2001670167-200128-FBSR1.1__A-F1': "str:'VH_scan1'",
 '2 generated 168 IMG-VH-ALOS2001680168-200101-FBSR1.1__A-B2': "str:'VH_scan2'",
 '2 generated 169 IMG-VH-ALOS2001690169-200102-FBSR1.1__A-F3': "str:'VH_scan3'",
 '2 generated 170 IMG-VH-ALOS2001700170-200103-FBSR1.1__A-B4': "str:'VH_scan4'",
 '2 generated 171 IMG-VH-ALOS2001710171-200104-FBSR1.1__A-F5': "str:'VH_scan5'",
 '2 generated 172 IMG-VH-ALOS2001720172-200105-FBSR1.1__A-B6': "str:'VH_scan6'",
 '2 generated 173 IMG-VH-ALOS2001730173-200106-FBSR1.1__A-F7': "str:'VH_scan7'",
 '2 generated 174 IMG-VH-ALOS2001740174-200107-FBSR1.1__A-B8': "str:'VH_scan8'",
 '2 generated 175 IMG-VH-ALOS2001750175-200108-FBSR1.1__A-F9': "str:'VH_scan9'",
 '2 generated 176 IMG-VH-ALOS2001760176-200109-WWDR1.1__A': "str:'VH'",
 '2 generated 177 IMG-VH-ALOS2001770177-200110-WWDR1.1__A-F0': "str:'VH_scan0'",
 '2 generated 178 IMG-VH-ALOS2001780178-200111-WWDR1.1__A-B1': "str:'VH_scan1'",
 '2 generated 179 IMG-VH-ALOS2001790179-200112-WWDR1.1__A-F2': "str:'VH_scan2'",
 '2 generated 180 IMG-VH-ALOS2001800180-200113-WWDR1.1__A-B3': "str:'VH_scan3'",
 '2 generated 181 IMG-VH-ALOS2001810181-200114-WWDR1.1__A-F4': "str:'VH_scan4'",
 '2 generated 182 IMG-VH-ALOS2001820182-200115-WWDR1.1__A-B5': "str:'VH_scan5'",
 '2 generated 183 IMG-VH-ALOS2001830183-200116-WWDR1.1__A-F6': "str:'VH_scan6'",
 '2 generated 184 IMG-VH-ALOS2001840184-200117-WWDR1.1__A-B7': "str:'VH_scan7'",
 '2 generated 185 IMG-VH-ALOS2001850185-200118-WWDR1.1__A-F8': "str:'VH_scan8'",
 '2 generated 186 IMG-VH-ALOS2001860186-200119-WWDR1.1__A-B9': "str:'VH_scan9'",
 '2 generated 187 IMG-VH-ALOS2001870187-200120-VBSR1.1__A': "str:'VH'",
 '2 generated 188 IMG-VH-ALOS2001880188-200121-VBSR1.1__A-B0': "str:'VH_scan0'",
 '2 generated 189 IMG-VH-ALOS2001890189-200122-VBSR1.1__A-F1': "str:'VH_scan1'",
 '2 generated 190 IMG-VH-ALOS2001900190-200123-VBSR1.1__A-B2': "str:'VH_scan2'",
 '2 generated 191 IMG-VH-ALOS2001910191-200124-VBSR1.1__A-F3': "str:'VH_scan3'",
 '2 generated 192 IMG-VH-ALOS2001920192-200125-VBSR1.1__A-B4': "str:'VH_scan4'",
 '2 generated 193 IMG-VH-ALOS2001930193-200126-VBSR1.1__A-F5': "str:'VH_scan5'",
 '2 generated 194 IMG-VH-ALOS2001940194-200127-VBSR1.1__A-B6': "str:'VH_scan6'",
 '2 generated 195 IMG-VH-ALOS2001950195-200128-VBSR1.1__A-F7': "str:'VH_scan7'",
 '2 generated 196 IMG-VH-ALOS2001960196-200101-VBSR1.1__A-B8': "str:'VH_scan8'",
 '2 generated 197 IMG-VH-ALOS2001970197-200102-VBSR1.1__A-F9': "str:'VH_scan9'",
 '2 generated 198 IMG-VV-ALOS2001980198-200103-SBSR1.1__A': "str:'VV'",
 '2 generated 199 IMG-VV-ALOS2001990199-200104-SBSR1.1__A-F0': "str:'VV_scan0'",
 '2 generated 200 IMG-VV-ALOS2002000200-200105-SBSR1.1__A-B1': "str:'VV_scan1'",
 '2 generated 201 IMG-VV-ALOS2002010201-200106-SBSR1.1__A-F2': "str:'VV_scan2'",
 '2 generated 202 IMG-VV-ALOS2002020202-200107-SBSR1.1__A-B3': "str:'VV_scan3'",
 '2 generated 203 IMG-VV-ALOS2002030203-200108-SBSR1.1__A-F4': "str:'VV_scan4'",
 '2 generated 204 IMG-VV-ALOS2002040204-200109-SBSR1.1__A-B5': "str:'VV_scan5'",
 '2 generated 205 IMG-VV-ALOS2002050205-200110-SBSR1.1__A-F6': "str:'VV_scan6'",
 '2 generated 206 IMG-VV-ALOS2002060206-200111-SBSR1.1__A-B7': "str:'VV_scan7'",
 '2 generated 207 IMG-VV-ALOS2002070207-200112-SBSR1.1__A-F8': "str:'VV_scan8'",
 '2 generated 208 IMG-VV-ALOS2002080208-200113-SBSR1.1__A-B9': "str:'VV_scan9'",
 '2 generated 209 IMG-VV-ALOS2002090209-200114-UBDR1.1__A': "str:'VV'",
 '2 generated 210 IMG-VV-ALOS2002100210-200115-UBDR1.1__A-B0': "str:'VV_scan0'",
 '2 generated 211 IMG-VV-ALOS2002110211-200116-UBDR1.1__A-F1': "str:'VV_scan1'",
 '2 generated 212 IMG-VV-ALOS2002120212-200117-UBDR1.1__A-B2': "str:'VV_scan2'",
 '2 generated 213 IMG-VV-ALOS2002130213-200118-UBDR1.1__A-F3': "str:'VV_scan3'",
 '2 generated 214 IMG-VV-ALOS2002140214-200119-UBDR1.1__A-B4': "str:'VV_scan4'",
 '2 generated 215 IMG-VV-ALOS2002150215-200120-UBDR1.1__A-F5': "str:'VV_scan5'",
 '2 generated 216 IMG-VV-ALOS2002160216-200121-UBDR1.1__A-B6': "str:'VV_scan6'",
 '2 generated 217 IMG-VV-ALOS2002170217-200122-UBDR1.1__A-F7': "str:'VV_scan7'",
 '2 generated 218 IMG-VV-ALOS2002180218-200123-UBDR1.1__A-B8': "str:'VV_scan8'",
 '2 generated 219 IMG-VV-ALOS2002190219-200124-UBDR1.1__A-F9': "str:'VV_scan9'",
 '2 generated 220 IMG-VV-ALOS2002200220-200125-HBQR1.1__A': "str:'VV'",
 '2 generated 221 IMG-VV-ALOS2002210221-200126-HBQR1.1__A-F0': "str:'VV_scan0'",
 '2 generated 222 IMG-VV-ALOS2002220222-200127-HBQR1.1__A-B1': "str:'VV_scan1'",
 '2 generated 223 IMG-VV-ALOS2002230223-200128-HBQR1.1__A-F2': "str:'VV_scan2'",
 '2 generated 224 IMG-VV-ALOS2002240224-200101-HBQR1.1__A-B3': "str:'VV_scan3'",
 '2 generated 225 IMG-VV-ALOS2002250225-200102-HBQR1.1__A-F4': "str:'VV_scan4'",
 '2 generated 226 IMG-VV-ALOS2002260226-200103-HBQR1.1__A-B5': "str:'VV_scan5'",
 '2 generated 227 IMG-VV-ALOS2002270227-200104-HBQR1.1__A-F6': "str:'VV_scan6'",
 '2 generated 228 IMG-VV-ALOS2002280228-200105-HBQR1.1__A-B7': "str:'VV_scan7'",
 '2 generated 229 IMG-VV-ALOS2002290229-200106-HBQR1.1__A-F8': "str:'VV_scan8'",
 '2 generated 230 IMG-VV-ALOS2002300230-200107-HBQR1.1__A-B9': "str:'VV_scan9'",
 '2 generated 231 IMG-VV-ALOS2002310231-200108-FBSR1.1__A': "str:'VV'",
 '2 generated 232 IMG-VV-ALOS2002320232-200109-FBSR1.1__A-B0': "str:'VV_scan0'",
 '2 generated 233 IMG-VV-ALOS2002330233-200110-FBSR1.1__A-F1': "str:'VV_scan1'",
 '2 generated 234 IMG-VV-ALOS2002340234-200111-FBSR1.1__A-B2': "str:'VV_scan2'",
 '2 generated 235 IMG-VV-ALOS2002350235-200112-FBSR1.1__A-F3': "str:'VV_scan3'",
 '2 generated 236 IMG-VV-ALOS2002360236-200113-FBSR1.1__A-B4': "str:'VV_scan4'",
 '2 generated 237 IMG-VV-ALOS2002370237-200114-FBSR1.1__A-F5': "str:'VV_scan5'",
 '2 generated 238 IMG-VV-ALOS2002380238-200115-FBSR1.1__A-B6': "str:'VV_scan6'",
 '2 generated 239 IMG-VV-ALOS2002390239-200116-FBSR1.1__A-F7': "str:'VV_scan7'",
 '2 generated 240 IMG-VV-ALOS2002400240-200117-FBSR1.1__A-B8': "str:'VV_scan8'",
 '2 generated 241 IMG-VV-ALOS2002410241-200118-FBSR1.1__A-F9': "str:'VV_scan9'",
 '2 generated 242 IMG-VV-ALOS2002420242-200119-WWDR1.1__A': "str:'VV'",
 '2 generated 243 IMG-VV-ALOS2002430243-200120-WWDR1.1__A-F0': "str:'VV_scan0'",
 '2 generated 244 IMG-VV-ALOS2002440244-200121-WWDR1.1__A-B1': "str:'VV_scan1'",
 '2 generated 245 IMG-VV-ALOS2002450245-200122-WWDR1.1__A-F2': "str:'VV_scan2'",
 '2 generated 246 IMG-VV-ALOS2002460246-200123-WWDR1.1__A-B3': "str:'VV_scan3'",
 '2 generated 247 IMG-VV-ALOS2002470247-200124-WWDR1.1__A-F4': "str:'VV_scan4'",
 '2 generated 248 IMG-VV-ALOS2002480248-200125-WWDR1.1__A-B5': "str:'VV_scan5'",
 '2 generated 249 IMG-VV-ALOS2002490249-200126-WWDR1.1__A-F6': "str:'VV_scan6'",
 '2 generated 250 IMG-VV-ALOS2002500250-200127-WWDR1.1__A-B7': "str:'VV_scan7'",
 '2 generated 251 IMG-VV-ALOS2002510251-200128-WWDR1.1__A-F8': "str:'VV_scan8'",
 '2 generated 252 IMG-VV-ALOS2002520252-200101-WWDR1.1__A-B9': "str:'VV_scan9'",
 '2 generated 253 IMG-VV-ALOS2002530253-200102-VBSR1.1__A': "str:'VV'",
 '2 generated 254 IMG-VV-ALOS2002540254-200103-VBSR1.1__A-B0': "str:'VV_scan0'",
 '2 generated 255 IMG-VV-ALOS2002550255-200104-VBSR1.1__A-F1': "str:'VV_scan1'",
 '2 generated 256 IMG-VV-ALOS2002560256-200105-VBSR1.1__A-B2': "str:'VV_scan2'",
 '2 generated 257 IMG-VV-ALOS2002570257-200106-VBSR1.1__A-F3': "str:'VV_scan3'",
 '2 generated 258 IMG-VV-ALOS2002580258-200107-VBSR1.1__A-B4': "str:'VV_scan4'",
 '2 generated 259 IMG-VV-ALOS2002590259-200108-VBSR1.1__A-F5': "str:'VV_scan5'",
 '2 generated 260 IMG-VV-ALOS2002600260-200109-VBSR1.1__A-B6': "str:'VV_scan6'",
 '2 generated 261 IMG-VV-ALOS2002610261-200110-VBSR1.1__A-F7': "str:'VV_scan7'",
 '2 generated 262 IMG-VV-ALOS2002620262-200111-VBSR1.1__A-B8': "str:'VV_scan8'",
 '2 generated 263 IMG-VV-ALOS2002630263-200112-VBSR1.1__A-F9': "str:'VV_scan9'",
 '2 generated 264 IMG-ALOS2002640264-200113-SBSR1.1__A': "str:''",
 '2 generated 265 IMG-ALOS2002650265-200114-SBSR1.1__A-F0': "str:'scan0'",
 '2 generated 266 IMG-ALOS2002660266-200115-SBSR1.1__A-B1': "str:'scan1'",
 '2 generated 267 IMG-ALOS2002670267-200116-SBSR1.1__A-F2': "str:'scan2'",
 '2 generated 268 IMG-ALOS2002680268-200117-SBSR1.1__A-B3': "str:'scan3'",
 '2 generated 269 IMG-ALOS2002690269-200118-SBSR1.1__A-F4': "str:'scan4'",
 '2 generated 270 IMG-ALOS2002700270-200119-SBSR1.1__A-B5': "str:'scan5'",
 '2 generated 271 IMG-ALOS2002710271-200120-SBSR1.1__A-F6': "str:'scan6'",
 '2 generated 272 IMG-ALOS2002720272-200121-SBSR1.1__A-B7': "str:'scan7'",
 '2 generated 273 IMG-ALOS2002730273-200122-SBSR1.1__A-F8': "str:'scan8'",
 '2 generated 274 IMG-ALOS2002740274-200123-SBSR1.1__A-B9': "str:'scan9'",
 '2 generated 275 IMG-ALOS2002750275-200124-UBDR1.1__A': "str:''",
 '2 generated 276 IMG-ALOS2002760276-200125-UBDR1.1__A-B0': "str:'scan0'",
 '2 generated 277 IMG-ALOS2002770277-200126-UBDR1.1__A-F1': "str:'scan1'",
 '2 generated 278 IMG-ALOS2002780278-200127-UBDR1.1__A-B2': "str:'scan2'",
 '2 generated 279 IMG-ALOS2002790279-200128-UBDR1.1__A-F3': "str:'scan3'",
 '2 generated 280 IMG-ALOS2002800280-200101-UBDR1.1__A-B4': "str:'scan4'",
 '2 generated 281 IMG-ALOS2002810281-200102-UBDR1.1__A-F5': "str:'scan5'",
 '2 generated 282 IMG-ALOS2002820282-200103-UBDR1.1__A-B6': "str:'scan6'",
 '2 generated 283 IMG-ALOS2002830283-200104-UBDR1.1__A-F7': "str:'scan7'",
 '2 generated 284 IMG-ALOS2002840284-200105-UBDR1.1__A-B8': "str:'scan8'",
 '2 generated 285 IMG-ALOS2002850285-200106-UBDR1.1__A-F9': "str:'scan9'",
 '2 generated 286 IMG-ALOS2002860286-200107-HBQR1.1__A': "str:''",
 '2 generated 287 IMG-ALOS2002870287-200108-HBQR1.1__A-F0': "str:'scan0'",
 '2 generated 288 IMG-ALOS2002880288-200109-HBQR1.1__A-B1': "str:'scan1'",
 '2 generated 289 IMG-ALOS2002890289-200110-HBQR1.1__A-F2': "str:'scan2'",
 '2 generated 290 IMG-ALOS2002900290-200111-HBQR1.1__A-B3': "str:'scan3'",
 '2 generated 291 IMG-ALOS2002910291-200112-HBQR1.1__A-F4': "str:'scan4'",
 '2 generated 292 IMG-ALOS2002920292-200113-HBQR1.1__A-B5': "str:'scan5'",
 '2 generated 293 IMG-ALOS2002930293-200114-HBQR1.1__A-F6': "str:'scan6'",
 '2 generated 294 IMG-ALOS2002940294-200115-HBQR1.1__A-B7': "str:'scan7'",
 '2 generated 295 IMG-ALOS2002950295-200116-HBQR1.1__A-F8': "str:'scan8'",
 '2 generated 296 IMG-ALOS2002960296-200117-HBQR1.1__A-B9': "str:'scan9'",
 '2 generated 297 IMG-ALOS2002970297-200118-FBSR1.1__A': "str:''",
 '2 generated 298 IMG-ALOS2002980298-200119-FBSR1.1__A-B0': "str:'scan0'",
 '2 generated 299 IMG-ALOS2002990299-200120-FBSR1.1__A-F1': "str:'scan1'",
 '2 generated 300 IMG-ALOS2003000300-200121-FBSR1.1__A-B2': "str:'scan2'",
 '2 generated 301 IMG-ALOS2003010301-200122-FBSR1.1__A-F3': "str:'scan3'",
 '2 generated 302 IMG-ALOS2003020302-200123-FBSR1.1__A-B4': "str:'scan4'",
 '2 generated 303 IMG-ALOS2003030303-200124-FBSR1.1__A-F5': "str:'scan5'",
 '2 generated 304 IMG-ALOS2003040304-200125-FBSR1.1__A-B6': "str:'scan6'",
 '2 generated 305 IMG-ALOS2003050305-200126-FBSR1.1__A-F7': "str:'scan7'",
 '2 generated 306 IMG-ALOS2003060306-200127-FBSR1.1__A-B8': "str:'scan8'",
 '2 generated 307 IMG-ALOS2003070307-200128-FBSR1.1__A-F9': "str:'scan9'",
 '2 generated 308 IMG-ALOS2003080308-200101-WWDR1.1__A': "str:''",
 '2 generated 309 IMG-ALOS2003090309-200102-WWDR1.1__A-F0': "str:'scan0'",
 '2 generated 310 IMG-ALOS2003100310-200103-WWDR1.1__A-B1': "str:'scan1'",
 '2 generated 311 IMG-ALOS2003110311-200104-WWDR1.1__A-F2': "str:'scan2'",
 '2 generated 312 IMG-ALOS2003120312-200105-WWDR1.1__A-B3': "str:'scan3'",
 '2 generated 313 IMG-ALOS2003130313-200106-WWDR1.1__A-F4': "str:'scan4'",
 '2 generated 314 IMG-ALOS2003140314-200107-WWDR1.1__A-B5': "str:'scan5'",
 '2 generated 315 IMG-ALOS2003150315-200108-WWDR1.1__A-F6': "str:'scan6'",
 '2 generated 316 IMG-ALOS2003160316-200109-WWDR1.1__A-B7': "str:'scan7'",
 '2 generated 317 IMG-ALOS2003170317-200110-WWDR1.1__A-F8': "str:'scan8'",
 '2 generated 318 IMG-ALOS2003180318-200111-WWDR1.1__A-B9': "str:'scan9'",
 '2 generated 319 IMG-ALOS2003190319-200112-VBSR1.1__A': "str:''",
 '2 generated 320 IMG-ALOS2003200320-200113-VBSR1.1__A-B0': "str:'scan0'",
 '2 generated 321 IMG-ALOS2003210321-200114-VBSR1.1__A-F1': "str:'scan1'",
 '2 generated 322 IMG-ALOS2003220322-200115-VBSR1.1__A-B2': "str:'scan2'",
 '2 generated 323 IMG-ALOS2003230323-200116-VBSR1.1__A-F3': "str:'scan3'",
 '2 generated 324 IMG-ALOS2003240324-200117-VBSR1.1__A-B4': "str:'scan4'",
 '2 generated 325 IMG-ALOS2003250325-200118-VBSR1.1__A-F5': "str:'scan5'",
 '2 generated 326 IMG-ALOS2003260326-200119-VBSR1.1__A-B6': "str:'scan6'",
 '2 generated 327 IMG-ALOS2003270327-200120-VBSR1.1__A-F7': "str:'scan7'",
 '2 generated 328 IMG-ALOS2003280328-200121-VBSR1.1__A-B8': "str:'scan8'",
 '2 generated 329 IMG-ALOS2003290329-200122-VBSR1.1__A-F9': "str:'scan9'",
 '2 generated, reversed 0 IMG-ALOS2003270327-200120-VBSR1.1__A-F7': "str:'scan7'",
 '2 generated, reversed 1 IMG-ALOS2003240324-200117-VBSR1.1__A-B4': "str:'scan4'",
 '2 generated, reversed 2 IMG-ALOS2003210321-200114-VBSR1.1__A-F1': "str:'scan1'",
 '2 generated, reversed 3 IMG-ALOS2003180318-200111-WWDR1.1__A-B9': "str:'scan9'",
 '2 generated, reversed 4 IMG-ALOS2003150315-200108-WWDR1.1__A-F6': "str:'scan6'",
 '2 generated, reversed 5 IMG-ALOS2003120312-200105-WWDR1.1__A-B3': "str:'scan3'",
 '2 generated, reversed 6 IMG-ALOS2003090309-200102-WWDR1.1__A-F0': "str:'scan0'",
 '2 generated, reversed 7 IMG-ALOS2003060306-200127-FBSR1.1__A-B8': "str:'scan8'",
 '2 generated, reversed 8 IMG-ALOS2003030303-200124-FBSR1.1__A-F5': "str:'scan5'",
 '2 generated, reversed 9 IMG-ALOS2003000300-200121-FBSR1.1__A-B2': "str:'scan2'",
 '2 generated, reversed 10 IMG-ALOS2002970297-200118-FBSR1.1__A': "str:''",
 '2 generated, reversed 11 IMG-ALOS2002940294-200115-HBQR1.1__A-B7': "str:'scan7'",
 '2 generated, reversed 12 IMG-ALOS2002910291-200112-HBQR1.1__A-F4': "str:'scan4'",
 '2 generated, reversed 13 IMG-ALOS2002880288-200109-HBQR1.1__A-B1': "str:'scan1'",
 '2 generated, reversed 14 IMG-ALOS2002850285-200106-UBDR1.1__A-F9': "str:'scan9'",
 '2 generated, reversed 15 IMG-ALOS2002820282-200103-UBDR1.1__A-B6': "str:'scan6'",
 '2 generated, reversed 16 IMG-ALOS2002790279-200128-UBDR1.1__A-F3': "str:'scan3'",
 '2 generated, reversed 17 IMG-ALOS2002760276-200125-UBDR1.1__A-B0': "str:'scan0'",
 '2 generated, reversed 18 IMG-ALOS2002730273-200122-SBSR1.1__A-F8': "str:'scan8'",
 '2 generated, reversed 19 IMG-ALOS2002700270-200119-SBSR1.1__A-B5': "str:'scan5'",
 '2 generated, reversed 20 IMG-ALOS2002670267-200116-SBSR1.1__A-F2': "str:'scan2'",
 '2 generated, reversed 21 IMG-ALOS2002640264-200113-SBSR1.1__A': "str:''",
 '2 generated, reversed 22 IMG-VV-ALOS2002610261-200110-VBSR1.1__A-F7': "str:'VV_scan7'",
 '2 generated, reversed 23 IMG-VV-ALOS2002580258-200107-VBSR1.1__A-B4': "str:'VV_scan4'",
 '2 generated, reversed 24 IMG-VV-ALOS2002550255-200104-VBSR1.1__A-F1': "str:'VV_scan1'",
 '2 generated, reversed 25 IMG-VV-ALOS2002520252-200101-WWDR1.1__A-B9': "str:'VV_scan9'",
 '2 generated, reversed 26 IMG-VV-ALOS2002490249-200126-WWDR1.1__A-F6': "str:'VV_scan6'",
 '2 generated, reversed 27 IMG-VV-ALOS2002460246-200123-WWDR1.1__A-B3': "str:'VV_scan3'",
 '2 generated, reversed 28 IMG-VV-ALOS2002430243-200120-WWDR1.1__A-F0': "str:'VV_scan0'",
 '2 generated, reversed 29 IMG-VV-ALOS2002400240-200117-FBSR1.1__A-B8': "str:'VV_scan8'",
 '2 generated, reversed 30 IMG-VV-ALOS2002370237-200114-FBSR1.1__A-F5': "str:'VV_scan5'",
 '2 generated, reversed 31 IMG-VV-ALOS2002340234-200111-FBSR1.1__A-B2': "str:'VV_scan2'",
 '2 generated, reversed 32 IMG-VV-ALOS2002310231-200108-FBSR1.1__A': "str:'VV'",
 '2 generated, reversed 33 IMG-VV-ALOS2002280228-200105-HBQR1.1__A-B7': "str:'VV_scan7'",
 '2 generated, reversed 34 IMG-VV-ALOS2002250225-200102-HBQR1.1__A-F4': "str:'VV_scan4'",
 '2 generated, reversed 35 IMG-VV-ALOS2002220222-200127-HBQR1.1__A-B1': "str:'VV_scan1'",
 '2 generated, reversed 36 IMG-VV-ALOS2002190219-200124-UBDR1.1__A-F9': "str:'VV_scan9'",
 '2 generated, reversed 37 IMG-VV-ALOS2002160216-200121-UBDR1.1__A-B6': "str:'VV_scan6'",
 '2 generated, reversed 38 IMG-VV-ALOS2002130213-200118-UBDR1.1__A-F3': "str:'VV_scan3'",
 '2 generated, reversed 39 IMG-VV-ALOS2002100210-200115-UBDR1.1__A-B0': "str:'VV_scan0'",
 '2 generated, reversed 40 IMG-VV-ALOS2002070207-200112-SBSR1.1__A-F8': "str:'VV_scan8'",
 '2 generated, reversed 41 IMG-VV-ALOS2002040204-200109-SBSR1.1__A-B5': "str:'VV_scan5'",
 '2 generated, reversed 42 IMG-VV-ALOS2002010201-200106-SBSR1.1__A-F2': "str:'VV_scan2'",
 '2 generated, reversed 43 IMG-VV-ALOS2001980198-200103-SBSR1.1__A': "str:'VV'",
 '2 generated, reversed 44 IMG-VH-ALOS2001950195-200128-VBSR1.1__A-F7': "str:'VH_scan7'",
 '2 generated, reversed 45 IMG-VH-ALOS2001920192-200125-VBSR1.1__A-B4': "str:'VH_scan4'",
 '2 generated, reversed 46 IMG-VH-ALOS2001890189-200122-VBSR1.1__A-F1': "str:'VH_scan1'",
 '2 generated, reversed 47 IMG-VH-ALOS2001860186-200119-WWDR1.1__A-B9': "str:'VH_scan9'",
 '2 generated, reversed 48 IMG-VH-ALOS2001830183-200116-WWDR1.1__A-F6': "str:'VH_scan6'",
 '2 generated, reversed 49 IMG-VH-ALOS2001800180-200113-WWDR1.1__A-B3': "str:'VH_scan3'",
 '2 generated, reversed 50 IMG-VH-ALOS2001770177-200110-WWDR1.1__A-F0': "str:'VH_scan0'",
 '2 generated, reversed 51 IMG-VH-ALOS2001740174-200107-FBSR1.1__A-B8': "str:'VH_scan8'",
 '2 generated, reversed 52 IMG-VH-ALOS2001710171-200104-FBSR1.1__A-F5': "str:'VH_scan5'",
 '2 generated, reversed 53 IMG-VH-ALOS2001680168-200101-FBSR1.1__A-B2': "str:'VH_scan2'",
 '2 generated, reversed 54 IMG-VH-ALOS2001650165-200126-FBSR1.1__A': "str:'VH'",
 '2 generated, reversed 55 IMG-VH-ALOS2001620162-200123-HBQR1.1__A-B7': "str:'VH_scan7'",
 '2 generated, reversed 56 IMG-VH-ALOS2001590159-200120-HBQR1.1__A-F4': "str:'VH_scan4'",
 '2 generated, reversed 57 IMG-VH-ALOS2001560156-200117-HBQR1.1__A-B1': "str:'VH_scan1'",
 '2 generated, reversed 58 IMG-VH-ALOS2001530153-200114-UBDR1.1__A-F9': "str:'VH_scan9'",
 '2 generated, reversed 59 IMG-VH-ALOS2001500150-200111-UBDR1.1__A-B6': "str:'VH_scan6'",
 '2 generated, reversed 60 IMG-VH-ALOS2001470147-200108-UBDR1.1__A-F3': "str:'VH_scan3'",
 '2 generated, reversed 61 IMG-VH-ALOS2001440144-200105-UBDR1.1__A-B0': "str:'VH_scan0'",
 '2 generated, reversed 62 IMG-VH-ALOS2001410141-200102-SBSR1.1__A-F8': "str:'VH_scan8'",
 '2 generated, reversed 63 IMG-VH-ALOS2001380138-200127-SBSR1.1__A-B5': "str:'VH_scan5'",
 '2 generated, reversed 64 IMG-VH-ALOS2001350135-200124-SBSR1.1__A-F2': "str:'VH_scan2'",
 '2 generated, reversed 65 IMG-VH-ALOS2001320132-200121-SBSR1.1__A': "str:'VH'",
 '2 generated, reversed 66 IMG-HV-ALOS2001290129-200118-VBSR1.1__A-F7': "str:'HV_scan7'",
 '2 generated, reversed 67 IMG-HV-ALOS2001260126-200115-VBSR1.1__A-B4': "str:'HV_scan4'",
 '2 generated, reversed 68 IMG-HV-ALOS2001230123-200112-VBSR1.1__A-F1': "str:'HV_scan1'",
 '2 generated, reversed 69 IMG-HV-ALOS2001200120-200109-WWDR1.1__A-B9': "str:'HV_scan9'",
 '2 generated, reversed 70 IMG-HV-ALOS2001170117-200106-WWDR1.1__A-F6': "str:'HV_scan6'",
 '2 generated, reversed 71 IMG-HV-ALOS2001140114-200103-WWDR1.1__A-B3': "str:'HV_scan3'",
 '2 generated, reversed 72 IMG-HV-ALOS2001110111-200128-WWDR1.1__A-F0': "str:'HV_scan0'",
 '2 generated, reversed 73 IMG-HV-ALOS2001080108-200125-FBSR1.1__A-B8': "str:'HV_scan8'",
 '2 generated, reversed 74 IMG-HV-ALOS2001050105-200122-FBSR1.1__A-F5': "str:'HV_scan5'",
 '2 generated, reversed 75 IMG-HV-ALOS2001020102-200119-FBSR1.1__A-B2': "str:'HV_scan2'",
 '2 generated, reversed 76 IMG-HV-ALOS2000990099-200116-FBSR1.1__A': "str:'HV'",
 '2 generated, reversed 77 IMG-HV-ALOS2000960096-200113-HBQR1.1__A-B7': "str:'HV_scan7'",
 '2 generated, reversed 78 IMG-HV-ALOS2000930093-200110-HBQR1.1__A-F4': "str:'HV_scan4'",
 '2 generated, reversed 79 IMG-HV-ALOS2000900090-200107-HBQR1.1__A-B1': "str:'HV_scan1'",
 '2 generated, reversed 80 IMG-HV-ALOS2000870087-200104-UBDR1.1__A-F9': "str:'HV_scan9'",
 '2 generated, reversed 81 IMG-HV-ALOS2000840084-200101-UBDR1.1__A-B6': "str:'HV_scan6'",
 '2 generated, reversed 82 IMG-HV-ALOS2000810081-200126-UBDR1.1__A-F3': "str:'HV_scan3'",
 '2 generated, reversed 83 IMG-HV-ALOS2000780078-200123-UBDR1.1__A-B0': "str:'HV_scan0'",
 '2 generated, reversed 84 IMG-HV-ALOS2000750075-200120-SBSR1.1__A-F8': "str:'HV_scan8'",
 '2 generated, reversed 85 IMG-HV-ALOS2000720072-200117-SBSR1.1__A-B5': "str:'HV_scan5'",
 '2 generated, reversed 86 IMG-HV-ALOS2000690069-200114-SBSR1.1__A-F2': "str:'HV_scan2'",
 '2 generated, reversed 87 IMG-HV-ALOS2000660066-200111-SBSR1.1__A': "str:'HV'",
 '2 generated, reversed 88 IMG-HH-ALOS2000630063-200108-VBSR1.1__A-F7': "str:'HH_scan7'",
 '2 generated, reversed 89 IMG-HH-ALOS2000600060-200105-VBSR1.1__A-B4': "str:'HH_scan4'",
 '2 generated, reversed 90 IMG-HH-ALOS2000570057-200102-VBSR1.1__A-F1': "str:'HH_scan1'",
 '2 generated, reversed 91 IMG-HH-ALOS2000540054-200127-WWDR1.1__A-B9': "str:'HH_scan9'",
 '2 generated, reversed 92 IMG-HH-ALOS2000510051-200124-WWDR1.1__A-F6': "str:'HH_scan6'",
 '2 generated, reversed 93 IMG-HH-ALOS2000480048-200121-WWDR1.1__A-B3': "str:'HH_scan3'",
 '2 generated, reversed 94 IMG-HH-ALOS2000450045-200118-WWDR1.1__A-F0': "str:'HH_scan0'",
 '2 generated, reversed 95 IMG-HH-ALOS2000420042-200115-FBSR1.1__A-B8': "str:'HH_scan8'",
 '2 generated, reversed 96 IMG-HH-ALOS2000390039-200112-FBSR1.1__A-F5': "str:'HH_scan5'",
 '2 generated, reversed 97 IMG-HH-ALOS2000360036-200109-FBSR1.1__A-B2': "str:'HH_scan2'",
 '2 generated, reversed 98 IMG-HH-ALOS2000330033-200106-FBSR1.1__A': "str:'HH'",
 '2 generated, reversed 99 IMG-HH-ALOS2000300030-200103-HBQR1.1__A-B7': "str:'HH_scan7'",
 '2 generated, reversed 100 IMG-HH-ALOS2000270027-200128-HBQR1.1__A-F4': "str:'HH_scan4'",
 '2 generated, reversed 101 IMG-HH-ALOS2000240024-200125-HBQR1.1__A-B1': "str:'HH_scan1'",
 '2 generated, reversed 102 IMG-HH-ALOS2000210021-200122-UBDR1.1__A-F9': "str:'HH_scan9'",
 '2 generated, reversed 103 IMG-HH-ALOS2000180018-200119-UBDR1.1__A-B6': "str:'HH_scan6'",
 '2 generated, reversed 104 IMG-HH-ALOS2000150015-200116-UBDR1.1__A-F3': "str:'HH_scan3'",
 '2 generated, reversed 105 IMG-HH-ALOS2000120012-200113-UBDR1.1__A-B0': "str:'HH_scan0'",
 '2 generated, reversed 106 IMG-HH-ALOS2000090009-200110-SBSR1.1__A-F8': "str:'HH_scan8'",
 '2 generated, reversed 107 IMG-HH-ALOS2000060006-200107-SBSR1.1__A-B5': "str:'HH_scan5'",
 '2 generated, reversed 108 IMG-HH-ALOS2000030003-200104-SBSR1.1__A-F2': "str:'HH_scan2'",
 '2 generated, reversed 109 IMG-HH-ALOS2000000000-200101-SBSR1.1__A': "str:'HH'",
 'copy': "str:'HH_scan3'",
 '0 open_image IMG-HH-ALOS2225333100-180726-WWDR1.1__D-B3': "Group(path='HH_scan3', url=None, "
                                                            "data={'rows': Variable(dims=['rows'], "
                                                            'data=list, attrs=...), '
                                                            "'sensor_acquisition_date': "
                                                            "Variable(dims=['rows'], data=ndarray, "
                                                            "attrs=...), 'prf': "
                                                            "Variable(dims=['rows'], data=list, "
                                                            'attrs=...), '
                                                            "'slant_range_to_first_pixel': "
                                                            "Variable(dims=['rows'], data=list, "
                                                            'attrs=...), '
                                                            "'slant_range_to_mid_pixel': "
                                                            "Variable(dims=['rows'], data=list, "
                                                            'attrs=...), '
                                                            "'slant_range_to_last_pixel': "
                                                            "Variable(dims=['rows'], data=list, "
                                                            'attrs=...), '
                                                            "'doppler_centroid_value_at_first_pixel': "
                                                            "Variable(dims=['rows'], data=list, "
                                                            'attrs=...), '
                                                            "'doppler_centroid_value_at_mid_pixel': "
                                                            "Variable(dims=['rows'], data=list, "
                                                            'attrs=...), '
                                                            "'doppler_centroid_value_at_last_pixel': "
                                                            "Variable(dims=['rows'], data=list, "
                                                            'attrs=...), '
                                                            "'azimuth_fm_rate_of_first_pixel': "
                                                            "Variable(dims=['rows'], data=list, "
                                                            'attrs=...), '
                                                            "'azimuth_fm_rate_of_mid_pixel': "
                                                            "Variable(dims=['rows'], data=list, "
                                                            'attrs=...), '
                                                            "'azimuth_fm_rate_of_last_pixel': "
                                                            "Variable(dims=['rows'], data=list, "
                                                            "attrs=...), 'look_angle_of_nadir': "
                                                            "Variable(dims=['rows'], data=list, "
                                                            "attrs=...), 'azimuth_squint_angle': "
                                                            "Variable(dims=['rows'], data=list, "
                                                            'attrs=...), '
                                                            "'latitude_of_first_pixel': "
                                                            "Variable(dims=['rows'], data=list, "
                                                            'attrs=...), '
                                                            "'latitude_of_center_pixel': "
                                                            "Variable(dims=['rows'], data=list, "
                                                            "attrs=...), 'latitude_of_last_pixel': "
                                                            "Variable(dims=['rows'], data=list, "
                                                            'attrs=...), '
                                                            "'longitude_of_first_pixel': "
                                                            "Variable(dims=['rows'], data=list, "
                                                            'attrs=...), '
                                                            "'longitude_of_center_pixel': "
                                                            "Variable(dims=['rows'], data=list, "
                                                            'attrs=...), '
                                                            "'longitude_of_last_pixel': "
                                                            "Variable(dims=['rows'], data=list, "
                                                            'attrs=...), '
                                                            "'northing_of_first_pixel': "
                                                            "Variable(dims=['rows'], data=list, "
                                                            "attrs=...), 'northing_of_last_pixel': "
                                                            "Variable(dims=['rows'], data=list, "
                                                            "attrs=...), 'easting_of_first_pixel': "
                                                            "Variable(dims=['rows'], data=list, "
                                                            "attrs=...), 'easting_of_last_pixel': "
                                                            "Variable(dims=['rows'], data=list, "
                                                            "attrs=...), 'line_heading': "
                                                            "Variable(dims=['rows'], data=list, "
                                                            "attrs=...), 'data': "
                                                            "Variable(dims=['rows', 'columns'], "
                                                            'data=Array, attrs=...)}, '
                                                            "attrs={'sar_image_data_record_index': "
                                                            "1, 'sensor_parameters_update_flag': "
                                                            "0, 'sar_channel_id': "
                                                            "'single_polarization', "
                                                            "'sar_channel_code': 'L', "
                                                            "'transmitted_pulse_polarization': "
                                                            "'vertical', "
                                                            "'received_pulse_polarization': "
                                                            "'vertical', 'scan_id': 0, "
                                                            "'geographic_reference_parameter_update_flag': "
                                                            "0, 'interleaving_id': 'BSQ', "
                                                            "'coordinates': ['rows', "
                                                            "'sensor_acquisition_date', 'prf', "
                                                            "'slant_range_to_first_pixel', "
                                                            "'slant_range_to_mid_pixel', "
                                                            "'slant_range_to_last_pixel', "
                                                            "'doppler_centroid_value_at_first_pixel', "
                                                            "'doppler_centroid_value_at_mid_pixel', "
                                                            "'doppler_centroid_value_at_last_pixel', "
                                                            "'azimuth_fm_rate_of_first_pixel', "
                                                            "'azimuth_fm_rate_of_mid_pixel', "
                                                            "'azimuth_fm_rate_of_last_pixel', "
                                                            "'look_angle_of_nadir', "
                                                            "'azimuth_squint_angle', "
                                                            "'latitude_of_first_pixel', "
                                                            "'latitude_of_center_pixel', "
                                                            "'latitude_of_last_pixel', "
                                                            "'longitude_of_first_pixel', "
                                                            "'longitude_of_center_pixel', "
                                                            "'longitude_of_last_pixel', "
                                                            "'northing_of_first_pixel', "
                                                            "'northing_of_last_pixel', "
                                                            "'easting_of_first_pixel', "
                                                            "'easting_of_last_pixel', "
                                                            "'line_heading']}); name='HH_scan3'; "
                                                            "Array(url='IMG-HH-ALOS2225333100-180726-WWDR1.1__D-B3', "
                                                            "shape=(3, 3), dtype='uint16', "
                                                            'records_per_chunk=2)',
 '0 open_image IMG-HV-ALOS2290760600-191011-WWDR1.5RUA': "Group(path='HV', url=None, data={'rows': "
                                                         "Variable(dims=['rows'], data=list, "
                                                         "attrs=...), 'sensor_acquisition_date': "
                                                         "Variable(dims=['rows'], data=ndarray, "
                                                         "attrs=...), 'prf': "
                                                         "Variable(dims=['rows'], data=list, "
                                                         'attrs=...), '
                                                         "'slant_range_to_first_pixel': "
                                                         "Variable(dims=['rows'], data=list, "
                                                         "attrs=...), 'slant_range_to_mid_pixel': "
                                                         "Variable(dims=['rows'], data=list, "
                                                         "attrs=...), 'slant_range_to_last_pixel': "
                                                         "Variable(dims=['rows'], data=list, "
                                                         'attrs=...), '
                                                         "'doppler_centroid_value_at_first_pixel': "
                                                         "Variable(dims=['rows'], data=list, "
                                                         'attrs=...), '
                                                         "'doppler_centroid_value_at_mid_pixel': "
                                                         "Variable(dims=['rows'], data=list, "
                                                         'attrs=...), '
                                                         "'doppler_centroid_value_at_last_pixel': "
                                                         "Variable(dims=['rows'], data=list, "
                                                         'attrs=...), '
                                                         "'azimuth_fm_rate_of_first_pixel': "
                                                         "Variable(dims=['rows'], data=list, "
                                                         'attrs=...), '
                                                         "'azimuth_fm_rate_of_mid_pixel': "
                                                         "Variable(dims=['rows'], data=list, "
                                                         'attrs=...), '
                                                         "'azimuth_fm_rate_of_last_pixel': "
                                                         "Variable(dims=['rows'], data=list, "
                                                         "attrs=...), 'look_angle_of_nadir': "
                                                         "Variable(dims=['rows'], data=list, "
                                                         "attrs=...), 'azimuth_squint_angle': "
                                                         "Variable(dims=['rows'], data=list, "
                                                         "attrs=...), 'latitude_of_first_pixel': "
                                                         "Variable(dims=['rows'], data=list, "
                                                         "attrs=...), 'latitude_of_center_pixel': "
                                                         "Variable(dims=['rows'], data=list, "
                                                         "attrs=...), 'latitude_of_last_pixel': "
                                                         "Variable(dims=['rows'], data=list, "
                                                         "attrs=...), 'longitude_of_first_pixel': "
                                                         "Variable(dims=['rows'], data=list, "
                                                         "attrs=...), 'longitude_of_center_pixel': "
                                                         "Variable(dims=['rows'], data=list, "
                                                         "attrs=...), 'longitude_of_last_pixel': "
                                                         "Variable(dims=['rows'], data=list, "
                                                         "attrs=...), 'northing_of_first_pixel': "
                                                         "Variable(dims=['rows'], data=list, "
                                                         "attrs=...), 'northing_of_last_pixel': "
                                                         "Variable(dims=['rows'], data=list, "
                                                         "attrs=...), 'easting_of_first_pixel': "
                                                         "Variable(dims=['rows'], data=list, "
                                                         "attrs=...), 'easting_of_last_pixel': "
                                                         "Variable(dims=['rows'], data=list, "
                                                         "attrs=...), 'line_heading': "
                                                         "Variable(dims=['rows'], data=list, "
                                                         "attrs=...), 'data': "
                                                         "Variable(dims=['rows', 'columns'], "
                                                         'data=Array, attrs=...)}, '
                                                         "attrs={'sar_image_data_record_index': 1, "
                                                         "'sensor_parameters_update_flag': 0, "
                                                         "'sar_channel_id': 'single_polarization', "
                                                         "'sar_channel_code': 'L', "
                                                         "'transmitted_pulse_polarization': "
                                                         "'vertical', "
                                                         "'received_pulse_polarization': "
                                                         "'vertical', 'scan_id': 0, "
                                                         "'geographic_reference_parameter_update_flag': "
                                                         "0, 'interleaving_id': 'BSQ', "
                                                         "'coordinates': ['rows', "
                                                         "'sensor_acquisition_date', 'prf', "
                                                         "'slant_range_to_first_pixel', "
                                                         "'slant_range_to_mid_pixel', "
                                                         "'slant_range_to_last_pixel', "
                                                         "'doppler_centroid_value_at_first_pixel', "
                                                         "'doppler_centroid_value_at_mid_pixel', "
                                                         "'doppler_centroid_value_at_last_pixel', "
                                                         "'azimuth_fm_rate_of_first_pixel', "
                                                         "'azimuth_fm_rate_of_mid_pixel', "
                                                         "'azimuth_fm_rate_of_last_pixel', "
                                                         "'look_angle_of_nadir', "
                                                         "'azimuth_squint_angle', "
                                                         "'latitude_of_first_pixel', "
                                                         "'latitude_of_center_pixel', "
                                                         "'latitude_of_last_pixel', "
                                                         "'longitude_of_first_pixel', "
                                                         "'longitude_of_center_pixel', "
                                                         "'longitude_of_last_pixel', "
                                                         "'northing_of_first_pixel', "
                                                         "'northing_of_last_pixel', "
                                                         "'easting_of_first_pixel', "
                                                         "'easting_of_last_pixel', "
                                                         "'line_heading']}); name='HV'; "
                                                         "Array(url='IMG-HV-ALOS2290760600-191011-WWDR1.5RUA', "
                                                         "shape=(3, 3), dtype='uint16', "
                                                         'records_per_chunk=2)',
 '0 open_image IMG-ALOS2225333100-180726-WWDR1.1__D': "Group(path='', url=None, data={'rows': "
                                                      "Variable(dims=['rows'], data=list, "
                                                      "attrs=...), 'sensor_acquisition_date': "
                                                      "Variable(dims=['rows'], data=ndarray, "
                                                      "attrs=...), 'prf': Variable(dims=['rows'], "
                                                      'data=list, attrs=...), '
                                                      "'slant_range_to_first_pixel': "
                                                      "Variable(dims=['rows'], data=list, "
                                                      "attrs=...), 'slant_range_to_mid_pixel': "
                                                      "Variable(dims=['rows'], data=list, "
                                                      "attrs=...), 'slant_range_to_last_pixel': "
                                                      "Variable(dims=['rows'], data=list, "
                                                      'attrs=...), '
                                                      "'doppler_centroid_value_at_first_pixel': "
                                                      "Variable(dims=['rows'], data=list, "
                                                      'attrs=...), '
                                                      "'doppler_centroid_value_at_mid_pixel': "
                                                      "Variable(dims=['rows'], data=list, "
                                                      'attrs=...), '
                                                      "'doppler_centroid_value_at_last_pixel': "
                                                      "Variable(dims=['rows'], data=list, "
                                                      'attrs=...), '
                                                      "'azimuth_fm_rate_of_first_pixel': "
                                                      "Variable(dims=['rows'], data=list, "
                                                      "attrs=...), 'azimuth_fm_rate_of_mid_pixel': "
                                                      "Variable(dims=['rows'], data=list, "
                                                      'attrs=...), '
                                                      "'azimuth_fm_rate_of_last_pixel': "
                                                      "Variable(dims=['rows'], data=list, "
                                                      "attrs=...), 'look_angle_of_nadir': "
                                                      "Variable(dims=['rows'], data=list, "
                                                      "attrs=...), 'azimuth_squint_angle': "
                                                      "Variable(dims=['rows'], data=list, "
                                                      "attrs=...), 'latitude_of_first_pixel': "
                                                      "Variable(dims=['rows'], data=list, "
                                                      "attrs=...), 'latitude_of_center_pixel': "
                                                      "Variable(dims=['rows'], data=list, "
                                                      "attrs=...), 'latitude_of_last_pixel': "
                                                      "Variable(dims=['rows'], data=list, "
                                                      "attrs=...), 'longitude_of_first_pixel': "
                                                      "Variable(dims=['rows'], data=list, "
                                                      "attrs=...), 'longitude_of_center_pixel': "
                                                      "Variable(dims=['rows'], data=list, "
                                                      "attrs=...), 'longitude_of_last_pixel': "
                                                      "Variable(dims=['rows'], data=list, "
                                                      "attrs=...), 'northing_of_first_pixel': "
                                                      "Variable(dims=['rows'], data=list, "
                                                      "attrs=...), 'northing_of_last_pixel': "
                                                      "Variable(dims=['rows'], data=list, "
                                                      "attrs=...), 'easting_of_first_pixel': "
                                                      "Variable(dims=['rows'], data=list, "
                                                      "attrs=...), 'easting_of_last_pixel': "
                                                      "Variable(dims=['rows'], data=list, "
                                                      "attrs=...), 'line_heading': "
                                                      "Variable(dims=['rows'], data=list, "
                                                      "attrs=...), 'data': Variable(dims=['rows', "
                                                      "'columns'], data=Array, attrs=...)}, "
                                                      "attrs={'sar_image_data_record_index': 1, "
                                                      "'sensor_parameters_update_flag': 0, "
                                                      "'sar_channel_id': 'single_polarization', "
                                                      "'sar_channel_code': 'L', "
                                                      "'transmitted_pulse_polarization': "
                                                      "'vertical', 'received_pulse_polarization': "
                                                      "'vertical', 'scan_id': 0, "
                                                      "'geographic_reference_parameter_update_flag': "
                                                      "0, 'interleaving_id': 'BSQ', 'coordinates': "
                                                      "['rows', 'sensor_acquisition_date', 'prf', "
                                                      "'slant_range_to_first_pixel', "
                                                      "'slant_range_to_mid_pixel', "
                                                      "'slant_range_to_last_pixel', "
                                                      "'doppler_centroid_value_at_first_pixel', "
                                                      "'doppler_centroid_value_at_mid_pixel', "
                                                      "'doppler_centroid_value_at_last_pixel', "
                                                      "'azimuth_fm_rate_of_first_pixel', "
                                                      "'azimuth_fm_rate_of_mid_pixel', "
                                                      "'azimuth_fm_rate_of_last_pixel', "
                                                      "'look_angle_of_nadir', "
                                                      "'azimuth_squint_angle', "
                                                      "'latitude_of_first_pixel', "
                                                      "'latitude_of_center_pixel', "
                                                      "'latitude_of_last_pixel', "
                                                      "'longitude_of_first_pixel', "
                                                      "'longitude_of_center_pixel', "
                                                      "'longitude_of_last_pixel', "
                                                      "'northing_of_first_pixel', "
                                                      "'northing_of_last_pixel', "
                                                      "'easting_of_first_pixel', "
                                                      "'easting_of_last_pixel', 'line_heading']}); "
                                                      "name=''; "
                                                      "Array(url='IMG-ALOS2225333100-180726-WWDR1.1__D', "
                                                      "shape=(3, 3), dtype='uint16', "
                                                      'records_per_chunk=2)',
 '0 open_image IMG-HH-ALOS2225333100-180732-WWDR1.1__D-B3': 'raises ValueError: invalid scene id: '
                                                            'ALOS2225333100-180732 (cause: '
                                                            'ValueError, context: ValueError)',
 '0 open_image not-an-image': 'raises ValueError: invalid file name: not-an-image (cause: None, '
                              'context: None)',
 '1 open_image IMG-HH-ALOS2225333100-180726-WWDR1.1__D-B3': "Group(path='HH_scan3', url=None, "
                                                            "data={'rows': Variable(dims=['rows'], "
                                                            'data=list, attrs=...), '
                                                            "'sensor_acquisition_date': "
                                                            "Variable(dims=['rows'], data=ndarray, "
                                                            "attrs=...), 'prf': "
                                                            "Variable(dims=['rows'], data=list, "
                                                            'attrs=...), '
                                                            "'slant_range_to_first_pixel': "
                                                            "Variable(dims=['rows'], data=list, "
                                                            'attrs=...), '
                                                            "'slant_range_to_mid_pixel': "
                                                            "Variable(dims=['rows'], data=list, "
                                                            'attrs=...), '
                                                            "'slant_range_to_last_pixel': "
                                                            "Variable(dims=['rows'], data=list, "
                                                            'attrs=...), '
                                                            "'doppler_centroid_value_at_first_pixel': "
                                                            "Variable(dims=['rows'], data=list, "
                                                            'attrs=...), '
                                                            "'doppler_centroid_value_at_mid_pixel': "
                                                            "Variable(dims=['rows'], data=list, "
                                                            'attrs=...), '
                                                            "'doppler_centroid_value_at_last_pixel': "
                                                            "Variable(dims=['rows'], data=list, "
                                                            'attrs=...), '
                                                            "'azimuth_fm_rate_of_first_pixel': "
                                                            "Variable(dims=['rows'], data=list, "
                                                            'attrs=...), '
                                                            "'azimuth_fm_rate_of_mid_pixel': "
                                                            "Variable(dims=['rows'], data=list, "
                                                            'attrs=...), '
                                                            "'azimuth_fm_rate_of_last_pixel': "
                                                            "Variable(dims=['rows'], data=list, "
                                                            "attrs=...), 'look_angle_of_nadir': "
                                                            "Variable(dims=['rows'], data=list, "
                                                            "attrs=...), 'azimuth_squint_angle': "
                                                            "Variable(dims=['rows'], data=list, "
                                                            'attrs=...), '
                                                            "'latitude_of_first_pixel': "
                                                            "Variable(dims=['rows'], data=list, "
                                                            'attrs=...), '
                                                            "'latitude_of_center_pixel': "
                                                            "Variable(dims=['rows'], data=list, "
                                                            "attrs=...), 'latitude_of_last_pixel': "
                                                            "Variable(dims=['rows'], data=list, "
                                                            'attrs=...), '
                                                            "'longitude_of_first_pixel': "
                                                            "Variable(dims=['rows'], data=list, "
                                                            'attrs=...), '
                                                            "'longitude_of_center_pixel': "
                                                            "Variable(dims=['rows'], data=list, "
                                                            'attrs=...), '
                                                            "'longitude_of_last_pixel': "
                                                            "Variable(dims=['rows'], data=list, "
                                                            'attrs=...), '
                                                            "'northing_of_first_pixel': "
                                                            "Variable(dims=['rows'], data=list, "
                                                            "attrs=...), 'northing_of_last_pixel': "
                                                            "Variable(dims=['rows'], data=list, "
                                                            "attrs=...), 'easting_of_first_pixel': "
                                                            "Variable(dims=['rows'], data=list, "
                                                            "attrs=...), 'easting_of_last_pixel': "
                                                            "Variable(dims=['rows'], data=list, "
                                                            "attrs=...), 'line_heading': "
                                                            "Variable(dims=['rows'], data=list, "
                                                            "attrs=...), 'data': "
                                                            "Variable(dims=['rows', 'columns'], "
                                                            'data=Array, attrs=...)}, '
                                                            "attrs={'sar_image_data_record_index': "
                                                            "1, 'sensor_parameters_update_flag': "
                                                            "0, 'sar_channel_id': "
                                                            "'single_polarization', "
                                                            "'sar_channel_code': 'L', "
                                                            "'transmitted_pulse_polarization': "
                                                            "'vertical', "
                                                            "'received_pulse_polarization': "
                                                            "'vertical', 'scan_id': 0, "
                                                            "'geographic_reference_parameter_update_flag': "
                                                            "0, 'interleaving_id': 'BSQ', "
                                                            "'coordinates': ['rows', "
                                                            "'sensor_acquisition_date', 'prf', "
                                                            "'slant_range_to_first_pixel', "
                                                            "'slant_range_to_mid_pixel', "
                                                            "'slant_range_to_last_pixel', "
                                                            "'doppler_centroid_value_at_first_pixel', "
                                                            "'doppler_centroid_value_at_mid_pixel', "
                                                            "'doppler_centroid_value_at_last_pixel', "
                                                            "'azimuth_fm_rate_of_first_pixel', "
                                                            "'azimuth_fm_rate_of_mid_pixel', "
                                                            "'azimuth_fm_rate_of_last_pixel', "
                                                            "'look_angle_of_nadir', "
                                                            "'azimuth_squint_angle', "
                                                            "'latitude_of_first_pixel', "
                                                            "'latitude_of_center_pixel', "
                                                            "'latitude_of_last_pixel', "
                                                            "'longitude_of_first_pixel', "
                                                            "'longitude_of_center_pixel', "
                                                            "'longitude_of_last_pixel', "
                                                            "'northing_of_first_pixel', "
                                                            "'northing_of_last_pixel', "
                                                            "'easting_of_first_pixel', "
                                                            "'easting_of_last_pixel', "
                                                            "'line_heading']}); name='HH_scan3'; "
                                                            "Array(url='IMG-HH-ALOS2225333100-180726-WWDR1.1__D-B3', "
                                                            "shape=(3, 3), dtype='uint16', "
                                                            'records_per_chunk=2)',
 '1 open_image IMG-HV-ALOS2290760600-191011-WWDR1.5RUA': "Group(path='HV', url=None, data={'rows': "
                                                         "Variable(dims=['rows'], data=list, "
                                                         "attrs=...), 'sensor_acquisition_date': "
                                                         "Variable(dims=['rows'], data=ndarray, "
                                                         "attrs=...), 'prf': "
                                                         "Variable(dims=['rows'], data=list, "
                                                         'attrs=...), '
                                                         "'slant_range_to_first_pixel': "
                                                         "Variable(dims=['rows'], data=list, "
                                                         "attrs=...), 'slant_range_to_mid_pixel': "
                                                         "Variable(dims=['rows'], data=list, "
                                                         "attrs=...), 'slant_range_to_last_pixel': "
                                                         "Variable(dims=['rows'], data=list, "
                                                         'attrs=...), '
                                                         "'doppler_centroid_value_at_first_pixel': "
                                                         "Variable(dims=['rows'], data=list, "
                                                         'attrs=...), '
                                                         "'doppler_centroid_value_at_mid_pixel': "
                                                         "Variable(dims=['rows'], data=list, "
                                                         'attrs=...), '
                                                         "'doppler_centroid_value_at_last_pixel': "
                                                         "Variable(dims=['rows'], data=list, "
                                                         'attrs=...), '
                                                         "'azimuth_fm_rate_of_first_pixel': "
                                                         "Variable(dims=['rows'], data=list, "
                                                         'attrs=...), '
                                                         "'azimuth_fm_rate_of_mid_pixel': "
                                                         "Variable(dims=['rows'], data=list, "
                                                         'attrs=...), '
                                                         "'azimuth_fm_rate_of_last_pixel': "
                                                         "Variable(dims=['rows'], data=list, "
                                                         "attrs=...), 'look_angle_of_nadir': "
                                                         "Variable(dims=['rows'], data=list, "
                                                         "attrs=...), 'azimuth_squint_angle': "
                                                         "Variable(dims=['rows'], data=list, "
                                                         "attrs=...), 'latitude_of_first_pixel': "
                                                         "Variable(dims=['rows'], data=list, "
                                                         "attrs=...), 'latitude_of_center_pixel': "
                                                         "Variable(dims=['rows'], data=list, "
                                                         "attrs=...), 'latitude_of_last_pixel': "
                                                         "Variable(dims=['rows'], data=list, "
                                                         "attrs=...), 'longitude_of_first_pixel': "
                                                         "Variable(dims=['rows'], data=list, "
                                                         "attrs=...), 'longitude_of_center_pixel': "
                                                         "Variable(dims=['rows'], data=list, "
                                                         "attrs=...), 'longitude_of_last_pixel': "
                                                         "Variable(dims=['rows'], data=list, "
                                                         "attrs=...), 'northing_of_first_pixel': "
                                                         "Variable(dims=['rows'], data=list, "
                                                         "attrs=...), 'northing_of_last_pixel': "
                                                         "Variable(dims=['rows'], data=list, "
                                                         "attrs=...), 'easting_of_first_pixel': "
                                                         "Variable(dims=['rows'], data=list, "
                                                         "attrs=...), 'easting_of_last_pixel': "
                                                         "Variable(dims=['rows'], data=list, "
                                                         "attrs=...), 'line_heading': "
                                                         "Variable(dims=['rows'], data=list, "
                                                         "attrs=...), 'data': "
                                                         "Variable(dims=['rows', 'columns'], "
                                                         'data=Array, attrs=...)}, '
                                                         "attrs={'sar_image_data_record_index': 1, "
                                                         "'sensor_parameters_update_flag': 0, "
                                                         "'sar_channel_id': 'single_polarization', "
                                                         "'sar_channel_code': 'L', "
                                                         "'transmitted_pulse_polarization': "
                                                         "'vertical', "
                                                         "'received_pulse_polarization': "
                                                         "'vertical', 'scan_id': 0, "
                                                         "'geographic_reference_parameter_update_flag': "
                                                         "0, 'interleaving_id': 'BSQ', "
                                                         "'coordinates': ['rows', "
                                                         "'sensor_acquisition_date', 'prf', "
                                                         "'slant_range_to_first_pixel', "
                                                         "'slant_range_to_mid_pixel', "
                                                         "'slant_range_to_last_pixel', "
                                                         "'doppler_centroid_value_at_first_pixel', "
                                                         "'doppler_centroid_value_at_mid_pixel', "
                                                         "'doppler_centroid_value_at_last_pixel', "
                                                         "'azimuth_fm_rate_of_first_pixel', "
                                                         "'azimuth_fm_rate_of_mid_pixel', "
                                                         "'azimuth_fm_rate_of_last_pixel', "
                                                         "'look_angle_of_nadir', "
                                                         "'azimuth_squint_angle', "
                                                         "'latitude_of_first_pixel', "
                                                         "'latitude_of_center_pixel', "
                                                         "'latitude_of_last_pixel', "
                                                         "'longitude_of_first_pixel', "
                                                         "'longitude_of_center_pixel', "
                                                         "'longitude_of_last_pixel', "
                                                         "'northing_of_first_pixel', "
                                                         "'northing_of_last_pixel', "
                                                         "'easting_of_first_pixel', "
                                                         "'easting_of_last_pixel', "
                                                         "'line_heading']}); name='HV'; "
                                                         "Array(url='IMG-HV-ALOS2290760600-191011-WWDR1.5RUA', "
                                                         "shape=(3, 3), dtype='uint16', "
                                                         'records_per_chunk=2)',
 '1 open_image IMG-ALOS2225333100-180726-WWDR1.1__D': "Group(path='', url=None, data={'rows': "
                                                      "Variable(dims=['rows'], data=list, "
                                                      "attrs=...), 'sensor_acquisition_date': "
                                                      "Variable(dims=['rows'], data=ndarray, "
                                                      "attrs=...), 'prf': Variable(dims=['rows'], "
                                                      'data=list, attrs=...), '
                                                      "'slant_range_to_first_pixel': "
                                                      "Variable(dims=['rows'], data=list, "
                                                      "attrs=...), 'slant_range_to_mid_pixel': "
                                                      "Variable(dims=['rows'], data=list, "
                                                      "attrs=...), 'slant_range_to_last_pixel': "
                                                      "Variable(dims=['rows'], data=list, "
                                                      'attrs=...), '
                                                      "'doppler_centroid_value_at_first_pixel': "
                                                      "Variable(dims=['rows'], data=list, "
                                                      'attrs=...), '
                                                      "'doppler_centroid_value_at_mid_pixel': "
                                                      "Variable(dims=['rows'], data=list, "
                                                      'attrs=...), '
                                                      "'doppler_centroid_value_at_last_pixel': "
                                                      "Variable(dims=['rows'], data=list, "
                                                      'attrs=...), '
                                                      "'azimuth_fm_rate_of_first_pixel': "
                                                      "Variable(dims=['rows'], data=list, "
                                                      "attrs=...), 'azimuth_fm_rate_of_mid_pixel': "
                                                      "Variable(dims=['rows'], data=list, "
                                                      'attrs=...), '
                                                      "'azimuth_fm_rate_of_last_pixel': "
                                                      "Variable(dims=['rows'], data=list, "
                                                      "attrs=...), 'look_angle_of_nadir': "
                                                      "Variable(dims=['rows'], data=list, "
                                                      "attrs=...), 'azimuth_squint_angle': "
                                                      "Variable(dims=['rows'], data=list, "
                                                      "attrs=...), 'latitude_of_first_pixel': "
                                                      "Variable(dims=['rows'], data=list, "
                                                      "attrs=...), 'latitude_of_center_pixel': "
                                                      "Variable(dims=['rows'], data=list, "
                                                      "attrs=...), 'latitude_of_last_pixel': "
                                                      "Variable(dims=['rows'], data=list, "
                                                      "attrs=...), 'longitude_of_first_pixel': "
                                                      "Variable(dims=['rows'], data=list, "
                                                      "attrs=...), 'longitude_of_center_pixel': "
                                                      "Variable(dims=['rows'], data=list, "
                                                      "attrs=...), 'longitude_of_last_pixel': "
                                                      "Variable(dims=['rows'], data=list, "
                                                      "attrs=...), 'northing_of_first_pixel': "
                                                      "Variable(dims=['rows'], data=list, "
                                                      "attrs=...), 'northing_of_last_pixel': "
                                                      "Variable(dims=['rows'], data=list, "
                                                      "attrs=...), 'easting_of_first_pixel': "
                                                      "Variable(dims=['rows'], data=list, "
                                                      "attrs=...), 'easting_of_last_pixel': "
                                                      "Variable(dims=['rows'], data=list, "
                                                      "attrs=...), 'line_heading': "
                                                      "Variable(dims=['rows'], data=list, "
                                                      "attrs=...), 'data': Variable(dims=['rows', "
                                                      "'columns'], data=Array, attrs=...)}, "
                                                      "attrs={'sar_image_data_record_index': 1, "
                                                      "'sensor_parameters_update_flag': 0, "
                                                      "'sar_channel_id': 'single_polarization', "
                                                      "'sar_channel_code': 'L', "
                                                      "'transmitted_pulse_polarization': "
                                                      "'vertical', 'received_pulse_polarization': "
                                                      "'vertical', 'scan_id': 0, "
                                                      "'geographic_reference_parameter_update_flag': "
                                                      "0, 'interleaving_id': 'BSQ', 'coordinates': "
                                                      "['rows', 'sensor_acquisition_date', 'prf', "
                                                      "'slant_range_to_first_pixel', "
                                                      "'slant_range_to_mid_pixel', "
                                                      "'slant_range_to_last_pixel', "
                                                      "'doppler_centroid_value_at_first_pixel', "
                                                      "'doppler_centroid_value_at_mid_pixel', "
                                                      "'doppler_centroid_value_at_last_pixel', "
                                                      "'azimuth_fm_rate_of_first_pixel', "
                                                      "'azimuth_fm_rate_of_mid_pixel', "
                                                      "'azimuth_fm_rate_of_last_pixel', "
                                                      "'look_angle_of_nadir', "
                                                      "'azimuth_squint_angle', "
                                                      "'latitude_of_first_pixel', "
                                                      "'latitude_of_center_pixel', "
                                                      "'latitude_of_last_pixel', "
                                                      "'longitude_of_first_pixel', "
                                                      "'longitude_of_center_pixel', "
                                                      "'longitude_of_last_pixel', "
                                                      "'northing_of_first_pixel', "
                                                      "'northing_of_last_pixel', "
                                                      "'easting_of_first_pixel', "
                                                      "'easting_of_last_pixel', 'line_heading']}); "
                                                      "name=''; "
                                                      "Array(url='IMG-ALOS2225333100-180726-WWDR1.1__D', "
                                                      "shape=(3, 3), dtype='uint16', "
                                                      'records_per_chunk=2)',
 '1 open_image IMG-HH-ALOS2225333100-180732-WWDR1.1__D-B3': 'raises ValueError: invalid scene id: '
                                                            'ALOS2225333100-180732 (cause: '
                                                            'ValueError, context: ValueError)',
 '1 open_image not-an-image': 'raises ValueError: invalid file name: not-an-image (cause: None, '
                              'context: None)'}
# END EXPECTED


def test_equivalence():
    results = run_cases()
    assert list(results) == list(EXPECTED)
    for name, actual in results.items():
        assert actual == EXPECTED[name], (name, actual, EXPECTED[name])

    # public names are still where they were
    from ceos_alos2.sar_image import filename_to_groupname, open_image  # noqa: F401

    assert filename_to_groupname.__name__ == "filename_to_groupname"
    assert filename_to_groupname.__module__ == "ceos_alos2.sar_image"


if __name__ == "__main__":
    if "--record" in sys.argv:
        print(repr(run_cases()))
    else:
        test_equivalence()
        print(f"ok: {len(EXPECTED)} cases")
