"""Equivalence check for refactoring 2 (caching/decoders.py).

Run from the repository root:

    PYTHONPATH=. python _eq/2/equiv.py          # check against the recorded values
    PYTHONPATH=. python _eq/2/equiv.py --print  # print the observed values

The EXPECTED table was recorded with the unchanged code (clean HEAD); the
script has to pass both with and without patch.diff applied.
"""

import sys
import warnings

import numpy as np

from ceos_alos2.array import Array
from ceos_alos2.hierarchy import Group, Variable
from ceos_alos2.sar_image import caching
from ceos_alos2.sar_image.caching import decoders


def describe(obj):
    """Full structural description (the dataclass reprs hide several fields)."""
    if isinstance(obj, Group):
        return {
            "Group": {
                "path": obj.path,
                "url": obj.url,
                "attrs": describe(obj.attrs),
                "data": {k: describe(v) for k, v in obj.data.items()},
            }
        }
    if isinstance(obj, Variable):
        return {
            "Variable": {
                "dims": obj.dims,
                "attrs": describe(obj.attrs),
                "data": describe(obj.data),
            }
        }
    if isinstance(obj, Array):
        return {
            "Array": {
                "fs": f"{type(obj.fs).__name__}(path={obj.fs.path!r}, "
                f"fs={type(obj.fs.fs).__name__})",
                "url": obj.url,
                "byte_ranges": obj.byte_ranges,
                "shape": obj.shape,
                "dtype": obj.dtype,
                "type_code": obj.type_code,
                "records_per_chunk": obj.records_per_chunk,
                "chunk_offsets": obj.chunk_offsets,
            }
        }
    if isinstance(obj, np.ndarray):
        return {"ndarray": {"dtype": str(obj.dtype), "shape": obj.shape, "data": obj.tolist()}}
    if isinstance(obj, dict):
        return {k: describe(v) for k, v in obj.items()}
    if isinstance(obj, list):
        return [describe(v) for v in obj]
    if isinstance(obj, tuple):
        return tuple(describe(v) for v in obj)
    return obj


def observe(func):
    try:
        result = func()
    except Exception as e:  # noqa: BLE001 - the exception *is* the observation
        return f"RAISES {type(e).__module__}.{type(e).__qualname__}: {e}"
    return f"{type(result).__name__}: {describe(result)!r}"


BACKEND = {
    "__type__": "backend_array",
    "root": "memory:///path/to",
    "url": "file",
    "shape": (4, 3),
    "dtype": "complex64",
    "byte_ranges": [(5, 10), (15, 20), (25, 30), (35, 40)],
    "type_code": "C*8",
}
# the order in which the original code looked the entries up
LOOKUP_ORDER = ["root", "type_code", "url", "shape", "dtype", "byte_ranges"]


def backend(*, without=(), **overrides):
    encoded = {k: v for k, v in BACKEND.items() if k not in without}
    encoded.update(overrides)
    return encoded


def array(dtype, data, **encoding):
    return {"__type__": "array", "dtype": dtype, "data": data, "encoding": encoding}


def variable(dims, data, attrs=None):
    return {"__type__": "variable", "dims": dims, "data": data, "attrs": attrs or {}}


def group(url, data, path="/", attrs=None):
    return {"__type__": "group", "url": url, "data": data, "path": path, "attrs": attrs or {}}


def tree():
    return group(
        "s3://bucket/data",
        {
            "a": variable(["x"], array("int8", [1, 2, 3]), {"u": (1, 2)}),
            "t": variable(
                ["t"], array("datetime64[s]", [0, 2], reference="2020-01-01T00:00:01", units="s")
            ),
            "sub": group(
                None,
                {
                    "d": variable(["r", "c"], backend(), {"k": [1, (2, 3)]}),
                    "deeper": group("file:///elsewhere", {}, path="/ignored", attrs={"n": None}),
                },
                path="/sub",
                attrs={"g": 1},
            ),
        },
        attrs={"shape": (4, 3)},
    )


def passthrough_identity():
    obj = {"__type__": "something-else", "x": 1}
    return decoders.decode_hierarchy(obj, 2) is obj


TREE_JSON = (
    '{"__type__": "group", "url": null, "data": {"v": {"__type__": "variable", "dims": ["x", "y"],'
    ' "data": {"__type__": "backend_array", "root": "memory:///path/to", "url": "file",'
    ' "shape": {"__type__": "tuple", "data": [4, 3]}, "dtype": "complex64", "byte_ranges":'
    ' [{"__type__": "tuple", "data": [5, 10]}, {"__type__": "tuple", "data": [15, 20]},'
    ' {"__type__": "tuple", "data": [25, 30]}, {"__type__": "tuple", "data": [35, 40]}],'
    ' "type_code": "C*8"}, "attrs": {}}, "w": {"__type__": "variable", "dims": ["x"], "data":'
    ' {"__type__": "array", "dtype": "timedelta64[s]", "data": [1, 5], "encoding": {"units": "s"}},'
    ' "attrs": {"a": {"__type__": "tuple", "data": [1, [2]]}}}}, "path": "/", "attrs": {}}'
)


CASES = {
    # --- decode_array: in-memory arrays -----------------------------------------
    "array/int16": lambda: decoders.decode_array(array("int16", [1, 2]), 2),
    "array/float-2d": lambda: decoders.decode_array(array("float64", [[1.5, 2.0], [3.0, 4.0]]), 2),
    "array/str": lambda: decoders.decode_array(array("<U2", ["a", "bc"]), None),
    "array/bool-0d": lambda: decoders.decode_array(array("bool", True), None),
    "array/empty": lambda: decoders.decode_array(array("float32", []), None),
    "array/timedelta": lambda: decoders.decode_array(array("timedelta64[s]", [1, -3], units="s"), 1),
    "array/datetime-s": lambda: decoders.decode_array(
        array("datetime64[s]", [0, 2], reference="2020-01-01T00:00:01", units="s"), 1
    ),
    "array/datetime-ns": lambda: decoders.decode_array(
        array(
            "datetime64[ns]",
            [0, 1499999999],
            reference="2019-12-31T23:59:59.000000001",
            units="ns",
        ),
        1,
    ),
    "array/datetime-no-encoding": lambda: decoders.decode_array(
        {"__type__": "array", "dtype": "datetime64[s]", "data": [0]}, 1
    ),
    "array/datetime-no-reference": lambda: decoders.decode_array(
        array("datetime64[s]", [0], units="s"), 1
    ),
    "array/datetime-empty-encoding": lambda: decoders.decode_array(array("datetime64[s]", [0]), 1),
    "array/missing-dtype": lambda: decoders.decode_array({"__type__": "array", "data": [1]}, 1),
    "array/missing-data": lambda: decoders.decode_array({"__type__": "array", "dtype": "i2"}, 1),
    "array/invalid-dtype": lambda: decoders.decode_array(array("no-such-dtype", [1]), 1),
    "array/unhashable-dtype": lambda: decoders.decode_array(array(["i2"], [1]), 1),
    "array/bad-data": lambda: decoders.decode_array(array("int16", ["x"]), 1),
    "array/not-a-mapping": lambda: decoders.decode_array([1, 2], 1),
    # --- decode_array: backend arrays ---------------------------------------------
    "backend/rpc=2": lambda: decoders.decode_array(backend(), 2),
    "backend/rpc=3": lambda: decoders.decode_array(backend(), 3),
    "backend/rpc=None": lambda: decoders.decode_array(backend(), None),
    "backend/rpc=-1": lambda: decoders.decode_array(backend(), -1),
    "backend/rpc=100": lambda: decoders.decode_array(backend(), 100),
    "backend/rpc=auto": lambda: decoders.decode_array(backend(), "auto"),
    "backend/rpc=12B": lambda: decoders.decode_array(backend(), "12B"),
    "backend/rpc=invalid": lambda: decoders.decode_array(backend(), "a lot"),
    "backend/no-type-tag": lambda: decoders.decode_array(backend(without=["__type__"]), 2),
    "backend/other-type-tag": lambda: decoders.decode_array(backend(__type__="variable"), 2),
    "backend/unhashable-type-tag": lambda: decoders.decode_array(backend(__type__=["array"]), 2),
    "backend/local-root": lambda: decoders.decode_array(backend(root="/does/not/exist"), 2),
    "backend/extra-entries": lambda: decoders.decode_array(backend(extra=1, fs="ignored"), 2),
    "backend/empty-dict": lambda: decoders.decode_array({}, 2),
    "backend/bad-byte-ranges": lambda: decoders.decode_array(backend(byte_ranges=[1, 2]), 2),
    # first missing entry wins: the lookup order must not change
    **{
        f"backend/missing-from-{name}": (
            lambda index=index: decoders.decode_array(backend(without=LOOKUP_ORDER[index:]), 2)
        )
        for index, name in enumerate(LOOKUP_ORDER)
    },
    **{
        f"backend/missing-only-{name}": (
            lambda name=name: decoders.decode_array(backend(without=[name]), 2)
        )
        for name in LOOKUP_ORDER
    },
    "backend/missing-url-and-type_code": lambda: decoders.decode_array(
        backend(without=["url", "type_code"]), 2
    ),
    "backend/missing-byte_ranges-and-shape": lambda: decoders.decode_array(
        backend(without=["byte_ranges", "shape"]), 2
    ),
    "backend/missing-dtype-and-url": lambda: decoders.decode_array(
        backend(without=["dtype", "url"]), 2
    ),
    # --- decode_variable / decode_group / decode_hierarchy --------------------------------
    "variable/array": lambda: decoders.decode_variable(
        variable(["x"], array("int16", [1, 2]), {"a": (1, 2)}), 2
    ),
    "variable/str-dims": lambda: decoders.decode_variable(variable("x", array("i1", [1])), 2),
    "variable/backend": lambda: decoders.decode_variable(variable(["x", "y"], backend()), 3),
    "variable/missing-data": lambda: decoders.decode_variable({"dims": ["x"], "attrs": {}}, 2),
    "variable/missing-dims": lambda: decoders.decode_variable(
        {"data": array("i1", [1]), "attrs": {}}, 2
    ),
    "variable/missing-attrs": lambda: decoders.decode_variable(
        {"data": array("i1", [1]), "dims": "x"}, 2
    ),
    "group/tree": lambda: decoders.decode_group(tree(), 3),
    "group/empty": lambda: decoders.decode_group(group(None, {}, path=None), 1),
    "group/passthrough-entry": lambda: decoders.decode_group(group("u", {"x": {"a": 1}}), 1),
    "group/non-mapping-entry": lambda: decoders.decode_group(group("u", {"x": 1}), 1),
    "group/unhashable-entry-type": lambda: decoders.decode_group(
        group("u", {"x": {"__type__": []}}), 1
    ),
    "group/missing-data": lambda: decoders.decode_group({"path": "/", "url": "u", "attrs": {}}, 1),
    "group/missing-path": lambda: decoders.decode_group({"data": {}, "url": "u", "attrs": {}}, 1),
    "group/broken-entry-and-missing-path": lambda: decoders.decode_group(
        {"data": {"x": variable("x", {})}, "url": "u", "attrs": {}}, 1
    ),
    "hierarchy/group": lambda: decoders.decode_hierarchy(tree(), 2),
    "hierarchy/variable": lambda: decoders.decode_hierarchy(
        variable(["x"], array("int16", [1, 2])), 2
    ),
    "hierarchy/array-is-passed-through": lambda: decoders.decode_hierarchy(array("i2", [1]), 2),
    "hierarchy/no-type": lambda: decoders.decode_hierarchy({"a": 1}, 2),
    "hierarchy/empty": lambda: decoders.decode_hierarchy({}, 2),
    "hierarchy/type-None": lambda: decoders.decode_hierarchy({"__type__": None}, 2),
    "hierarchy/type-int": lambda: decoders.decode_hierarchy({"__type__": 1}, 2),
    "hierarchy/type-unhashable-list": lambda: decoders.decode_hierarchy({"__type__": ["group"]}, 2),
    "hierarchy/type-unhashable-dict": lambda: decoders.decode_hierarchy({"__type__": {}}, 2),
    "hierarchy/passthrough-is-identity": passthrough_identity,
    "hierarchy/not-a-mapping": lambda: decoders.decode_hierarchy([1], 2),
    "hierarchy/None": lambda: decoders.decode_hierarchy(None, 2),
    "hierarchy/keyword-call": lambda: decoders.decode_hierarchy(
        encoded=variable("x", array("i1", [1])), records_per_chunk=2
    ),
    "array/keyword-call": lambda: decoders.decode_array(
        encoded=array("i1", [1]), records_per_chunk=2
    ),
    "variable/keyword-call": lambda: decoders.decode_variable(
        encoded=variable("x", backend()), records_per_chunk=2
    ),
    "group/keyword-call": lambda: decoders.decode_group(
        encoded=group("u", {"v": variable("x", backend())}), records_per_chunk=4
    ),
    # --- postprocess / public entry point ----------------------------------------------------
    "postprocess/tuple": lambda: decoders.postprocess({"__type__": "tuple", "data": [1, [2]]}),
    "postprocess/other": lambda: decoders.postprocess({"__type__": "array", "data": [1]}),
    "decode/tree": lambda: caching.decode(TREE_JSON, 3),
    "decode/tree-rpc-None": lambda: caching.decode(TREE_JSON, records_per_chunk=None),
    "decode/top-level-unhashable-type": lambda: caching.decode('{"__type__": [1]}', 2),
    "decode/top-level-list": lambda: caching.decode("[1, 2]", 2),
    "decode/plain-object": lambda: caching.decode('{"a": {"__type__": "tuple", "data": [1]}}', 2),
    "decode/truncated": lambda: caching.decode(TREE_JSON[:100], 2),
}


EXPECTED = {
    'array/int16': (
        "ndarray: {'ndarray': {'dtype': 'int16', 'shape': (2,), 'data': [1, 2]}}"
    ),
    'array/float-2d': (
        "ndarray: {'ndarray': {'dtype': 'float64', 'shape': (2, 2), 'data': [[1.5, 2.0], [3.0, 4.0]]}}"
    ),
    'array/str': (
        "ndarray: {'ndarray': {'dtype': '<U2', 'shape': (2,), 'data': ['a', 'bc']}}"
    ),
    'array/bool-0d': (
        "ndarray: {'ndarray': {'dtype': 'bool', 'shape': (), 'data': True}}"
    ),
    'array/empty': (
        "ndarray: {'ndarray': {'dtype': 'float32', 'shape': (0,), 'data': []}}"
    ),
    'array/timedelta': (
        "ndarray: {'ndarray': {'dtype': 'timedelta64[s]', 'shape': (2,), 'data': [datetime.timedelta(seconds=1), datetime.timedelta(days=-1, seconds=86397)]}}"
    ),
    'array/datetime-s': (
        "ndarray: {'ndarray': {'dtype': 'datetime64[s]', 'shape': (2,), 'data': [datetime.datetime(2020, 1, 1, 0, 0, 1), datetime.datetime(2020, 1, 1, 0, 0, 3)]}}"
    ),
    'array/datetime-ns': (
        "ndarray: {'ndarray': {'dtype': 'datetime64[ns]', 'shape': (2,), 'data': [1577836799000000001, 1577836800500000000]}}"
    ),
    'array/datetime-no-encoding': (
        "RAISES builtins.KeyError: 'encoding'"
    ),
    'array/datetime-no-reference': (
        "RAISES builtins.KeyError: 'reference'"
    ),
    'array/datetime-empty-encoding': (
        "RAISES builtins.KeyError: 'reference'"
    ),
    'array/missing-dtype': (
        "RAISES builtins.KeyError: 'dtype'"
    ),
    'array/missing-data': (
        "RAISES builtins.KeyError: 'data'"
    ),
    'array/invalid-dtype': (
        "RAISES builtins.TypeError: data type 'no-such-dtype' not understood"
    ),
    'array/unhashable-dtype': (
        "RAISES builtins.TypeError: Field elements must be 2- or 3-tuples, got ''i2''"
    ),
    'array/bad-data': (
        "RAISES builtins.ValueError: invalid literal for int() with base 10: 'x'"
    ),
    'array/not-a-mapping': (
        "RAISES builtins.AttributeError: 'list' object has no attribute 'get'"
    ),
    'backend/rpc=2': (
        'Array: {\'Array\': {\'fs\': "DirFileSystem(path=\'/path/to\', fs=MemoryFileSystem)", \'url\': \'file\', \'byte_ranges\': [(5, 10), (15, 20), (25, 30), (35, 40)], \'shape\': (4, 3), \'dtype\': \'complex64\', \'type_code\': \'C*8\', \'records_per_chunk\': 2, \'chunk_offsets\': {0: {\'offset\': 5, \'size\': 15}, 1: {\'offset\': 25, \'size\': 15}}}}'
    ),
    'backend/rpc=3': (
        'Array: {\'Array\': {\'fs\': "DirFileSystem(path=\'/path/to\', fs=MemoryFileSystem)", \'url\': \'file\', \'byte_ranges\': [(5, 10), (15, 20), (25, 30), (35, 40)], \'shape\': (4, 3), \'dtype\': \'complex64\', \'type_code\': \'C*8\', \'records_per_chunk\': 3, \'chunk_offsets\': {0: {\'offset\': 5, \'size\': 25}, 1: {\'offset\': 35, \'size\': 5}}}}'
    ),
    'backend/rpc=None': (
        'Array: {\'Array\': {\'fs\': "DirFileSystem(path=\'/path/to\', fs=MemoryFileSystem)", \'url\': \'file\', \'byte_ranges\': [(5, 10), (15, 20), (25, 30), (35, 40)], \'shape\': (4, 3), \'dtype\': \'complex64\', \'type_code\': \'C*8\', \'records_per_chunk\': 1024, \'chunk_offsets\': {0: {\'offset\': 5, \'size\': 35}}}}'
    ),
    'backend/rpc=-1': (
        'Array: {\'Array\': {\'fs\': "DirFileSystem(path=\'/path/to\', fs=MemoryFileSystem)", \'url\': \'file\', \'byte_ranges\': [(5, 10), (15, 20), (25, 30), (35, 40)], \'shape\': (4, 3), \'dtype\': \'complex64\', \'type_code\': \'C*8\', \'records_per_chunk\': 4, \'chunk_offsets\': {0: {\'offset\': 5, \'size\': 35}}}}'
    ),
    'backend/rpc=100': (
        'Array: {\'Array\': {\'fs\': "DirFileSystem(path=\'/path/to\', fs=MemoryFileSystem)", \'url\': \'file\', \'byte_ranges\': [(5, 10), (15, 20), (25, 30), (35, 40)], \'shape\': (4, 3), \'dtype\': \'complex64\', \'type_code\': \'C*8\', \'records_per_chunk\': 4, \'chunk_offsets\': {0: {\'offset\': 5, \'size\': 35}}}}'
    ),
    'backend/rpc=auto': (
        'Array: {\'Array\': {\'fs\': "DirFileSystem(path=\'/path/to\', fs=MemoryFileSystem)", \'url\': \'file\', \'byte_ranges\': [(5, 10), (15, 20), (25, 30), (35, 40)], \'shape\': (4, 3), \'dtype\': \'complex64\', \'type_code\': \'C*8\', \'records_per_chunk\': np.int64(4), \'chunk_offsets\': {0: {\'offset\': 5, \'size\': 35}}}}'
    ),
    'backend/rpc=12B': (
        'Array: {\'Array\': {\'fs\': "DirFileSystem(path=\'/path/to\', fs=MemoryFileSystem)", \'url\': \'file\', \'byte_ranges\': [(5, 10), (15, 20), (25, 30), (35, 40)], \'shape\': (4, 3), \'dtype\': \'complex64\', \'type_code\': \'C*8\', \'records_per_chunk\': np.int64(2), \'chunk_offsets\': {0: {\'offset\': 5, \'size\': 15}, 1: {\'offset\': 25, \'size\': 15}}}}'
    ),
    'backend/rpc=invalid': (
        "RAISES builtins.ValueError: Could not interpret 'alot' as a byte unit"
    ),
    'backend/no-type-tag': (
        'Array: {\'Array\': {\'fs\': "DirFileSystem(path=\'/path/to\', fs=MemoryFileSystem)", \'url\': \'file\', \'byte_ranges\': [(5, 10), (15, 20), (25, 30), (35, 40)], \'shape\': (4, 3), \'dtype\': \'complex64\', \'type_code\': \'C*8\', \'records_per_chunk\': 2, \'chunk_offsets\': {0: {\'offset\': 5, \'size\': 15}, 1: {\'offset\': 25, \'size\': 15}}}}'
    ),
    'backend/other-type-tag': (
        'Array: {\'Array\': {\'fs\': "DirFileSystem(path=\'/path/to\', fs=MemoryFileSystem)", \'url\': \'file\', \'byte_ranges\': [(5, 10), (15, 20), (25, 30), (35, 40)], \'shape\': (4, 3), \'dtype\': \'complex64\', \'type_code\': \'C*8\', \'records_per_chunk\': 2, \'chunk_offsets\': {0: {\'offset\': 5, \'size\': 15}, 1: {\'offset\': 25, \'size\': 15}}}}'
    ),
    'backend/unhashable-type-tag': (
        'Array: {\'Array\': {\'fs\': "DirFileSystem(path=\'/path/to\', fs=MemoryFileSystem)", \'url\': \'file\', \'byte_ranges\': [(5, 10), (15, 20), (25, 30), (35, 40)], \'shape\': (4, 3), \'dtype\': \'complex64\', \'type_code\': \'C*8\', \'records_per_chunk\': 2, \'chunk_offsets\': {0: {\'offset\': 5, \'size\': 15}, 1: {\'offset\': 25, \'size\': 15}}}}'
    ),
    'backend/local-root': (
        'Array: {\'Array\': {\'fs\': "DirFileSystem(path=\'/does/not/exist\', fs=LocalFileSystem)", \'url\': \'file\', \'byte_ranges\': [(5, 10), (15, 20), (25, 30), (35, 40)], \'shape\': (4, 3), \'dtype\': \'complex64\', \'type_code\': \'C*8\', \'records_per_chunk\': 2, \'chunk_offsets\': {0: {\'offset\': 5, \'size\': 15}, 1: {\'offset\': 25, \'size\': 15}}}}'
    ),
    'backend/extra-entries': (
        'Array: {\'Array\': {\'fs\': "DirFileSystem(path=\'/path/to\', fs=MemoryFileSystem)", \'url\': \'file\', \'byte_ranges\': [(5, 10), (15, 20), (25, 30), (35, 40)], \'shape\': (4, 3), \'dtype\': \'complex64\', \'type_code\': \'C*8\', \'records_per_chunk\': 2, \'chunk_offsets\': {0: {\'offset\': 5, \'size\': 15}, 1: {\'offset\': 25, \'size\': 15}}}}'
    ),
    'backend/empty-dict': (
        "RAISES builtins.KeyError: 'root'"
    ),
    'backend/bad-byte-ranges': (
        'RAISES builtins.TypeError: cannot unpack non-iterable int object'
    ),
    'backend/missing-from-root': (
        "RAISES builtins.KeyError: 'root'"
    ),
    'backend/missing-from-type_code': (
        "RAISES builtins.KeyError: 'type_code'"
    ),
    'backend/missing-from-url': (
        "RAISES builtins.KeyError: 'url'"
    ),
    'backend/missing-from-shape': (
        "RAISES builtins.KeyError: 'shape'"
    ),
    'backend/missing-from-dtype': (
        "RAISES builtins.KeyError: 'dtype'"
    ),
    'backend/missing-from-byte_ranges': (
        "RAISES builtins.KeyError: 'byte_ranges'"
    ),
    'backend/missing-only-root': (
        "RAISES builtins.KeyError: 'root'"
    ),
    'backend/missing-only-type_code': (
        "RAISES builtins.KeyError: 'type_code'"
    ),
    'backend/missing-only-url': (
        "RAISES builtins.KeyError: 'url'"
    ),
    'backend/missing-only-shape': (
        "RAISES builtins.KeyError: 'shape'"
    ),
    'backend/missing-only-dtype': (
        "RAISES builtins.KeyError: 'dtype'"
    ),
    'backend/missing-only-byte_ranges': (
        "RAISES builtins.KeyError: 'byte_ranges'"
    ),
    'backend/missing-url-and-type_code': (
        "RAISES builtins.KeyError: 'type_code'"
    ),
    'backend/missing-byte_ranges-and-shape': (
        "RAISES builtins.KeyError: 'shape'"
    ),
    'backend/missing-dtype-and-url': (
        "RAISES builtins.KeyError: 'url'"
    ),
    'variable/array': (
        "Variable: {'Variable': {'dims': ['x'], 'attrs': {'a': (1, 2)}, 'data': {'ndarray': {'dtype': 'int16', 'shape': (2,), 'data': [1, 2]}}}}"
    ),
    'variable/str-dims': (
        "Variable: {'Variable': {'dims': ['x'], 'attrs': {}, 'data': {'ndarray': {'dtype': 'int8', 'shape': (1,), 'data': [1]}}}}"
    ),
    'variable/backend': (
        'Variable: {\'Variable\': {\'dims\': [\'x\', \'y\'], \'attrs\': {}, \'data\': {\'Array\': {\'fs\': "DirFileSystem(path=\'/path/to\', fs=MemoryFileSystem)", \'url\': \'file\', \'byte_ranges\': [(5, 10), (15, 20), (25, 30), (35, 40)], \'shape\': (4, 3), \'dtype\': \'complex64\', \'type_code\': \'C*8\', \'records_per_chunk\': 3, \'chunk_offsets\': {0: {\'offset\': 5, \'size\': 25}, 1: {\'offset\': 35, \'size\': 5}}}}}}'
    ),
    'variable/missing-data': (
        "RAISES builtins.KeyError: 'data'"
    ),
    'variable/missing-dims': (
        "RAISES builtins.KeyError: 'dims'"
    ),
    'variable/missing-attrs': (
        "RAISES builtins.KeyError: 'attrs'"
    ),
    'group/tree': (
        'Group: {\'Group\': {\'path\': \'/\', \'url\': \'s3://bucket/data\', \'attrs\': {\'shape\': (4, 3)}, \'data\': {\'a\': {\'Variable\': {\'dims\': [\'x\'], \'attrs\': {\'u\': (1, 2)}, \'data\': {\'ndarray\': {\'dtype\': \'int8\', \'shape\': (3,), \'data\': [1, 2, 3]}}}}, \'t\': {\'Variable\': {\'dims\': [\'t\'], \'attrs\': {}, \'data\': {\'ndarray\': {\'dtype\': \'datetime64[s]\', \'shape\': (2,), \'data\': [datetime.datetime(2020, 1, 1, 0, 0, 1), datetime.datetime(2020, 1, 1, 0, 0, 3)]}}}}, \'sub\': {\'Group\': {\'path\': \'/sub\', \'url\': \'s3://bucket/data\', \'attrs\': {\'g\': 1}, \'data\': {\'d\': {\'Variable\': {\'dims\': [\'r\', \'c\'], \'attrs\': {\'k\': [1, (2, 3)]}, \'data\': {\'Array\': {\'fs\': "DirFileSystem(path=\'/path/to\', fs=MemoryFileSystem)", \'url\': \'file\', \'byte_ranges\': [(5, 10), (15, 20), (25, 30), (35, 40)], \'shape\': (4, 3), \'dtype\': \'complex64\', \'type_code\': \'C*8\', \'records_per_chunk\': 3, \'chunk_offsets\': {0: {\'offset\': 5, \'size\': 25}, 1: {\'offset\': 35, \'size\': 5}}}}}}, \'deeper\': {\'Group\': {\'path\': \'/sub/deeper\', \'url\': \'file:///elsewhere\', \'attrs\': {\'n\': None}, \'data\': {}}}}}}}}}'
    ),
    'group/empty': (
        "Group: {'Group': {'path': '/', 'url': None, 'attrs': {}, 'data': {}}}"
    ),
    'group/passthrough-entry': (
        "Group: {'Group': {'path': '/', 'url': 'u', 'attrs': {}, 'data': {'x': {'a': 1}}}}"
    ),
    'group/non-mapping-entry': (
        "RAISES builtins.AttributeError: 'int' object has no attribute 'get'"
    ),
    'group/unhashable-entry-type': (
        "RAISES builtins.TypeError: unhashable type: 'list'"
    ),
    'group/missing-data': (
        "RAISES builtins.KeyError: 'data'"
    ),
    'group/missing-path': (
        "RAISES builtins.KeyError: 'path'"
    ),
    'group/broken-entry-and-missing-path': (
        "RAISES builtins.KeyError: 'root'"
    ),
    'hierarchy/group': (
        'Group: {\'Group\': {\'path\': \'/\', \'url\': \'s3://bucket/data\', \'attrs\': {\'shape\': (4, 3)}, \'data\': {\'a\': {\'Variable\': {\'dims\': [\'x\'], \'attrs\': {\'u\': (1, 2)}, \'data\': {\'ndarray\': {\'dtype\': \'int8\', \'shape\': (3,), \'data\': [1, 2, 3]}}}}, \'t\': {\'Variable\': {\'dims\': [\'t\'], \'attrs\': {}, \'data\': {\'ndarray\': {\'dtype\': \'datetime64[s]\', \'shape\': (2,), \'data\': [datetime.datetime(2020, 1, 1, 0, 0, 1), datetime.datetime(2020, 1, 1, 0, 0, 3)]}}}}, \'sub\': {\'Group\': {\'path\': \'/sub\', \'url\': \'s3://bucket/data\', \'attrs\': {\'g\': 1}, \'data\': {\'d\': {\'Variable\': {\'dims\': [\'r\', \'c\'], \'attrs\': {\'k\': [1, (2, 3)]}, \'data\': {\'Array\': {\'fs\': "DirFileSystem(path=\'/path/to\', fs=MemoryFileSystem)", \'url\': \'file\', \'byte_ranges\': [(5, 10), (15, 20), (25, 30), (35, 40)], \'shape\': (4, 3), \'dtype\': \'complex64\', \'type_code\': \'C*8\', \'records_per_chunk\': 2, \'chunk_offsets\': {0: {\'offset\': 5, \'size\': 15}, 1: {\'offset\': 25, \'size\': 15}}}}}}, \'deeper\': {\'Group\': {\'path\': \'/sub/deeper\', \'url\': \'file:///elsewhere\', \'attrs\': {\'n\': None}, \'data\': {}}}}}}}}}'
    ),
    'hierarchy/variable': (
        "Variable: {'Variable': {'dims': ['x'], 'attrs': {}, 'data': {'ndarray': {'dtype': 'int16', 'shape': (2,), 'data': [1, 2]}}}}"
    ),
    'hierarchy/array-is-passed-through': (
        "dict: {'__type__': 'array', 'dtype': 'i2', 'data': [1], 'encoding': {}}"
    ),
    'hierarchy/no-type': (
        "dict: {'a': 1}"
    ),
    'hierarchy/empty': (
        'dict: {}'
    ),
    'hierarchy/type-None': (
        "dict: {'__type__': None}"
    ),
    'hierarchy/type-int': (
        "dict: {'__type__': 1}"
    ),
    'hierarchy/type-unhashable-list': (
        "RAISES builtins.TypeError: unhashable type: 'list'"
    ),
    'hierarchy/type-unhashable-dict': (
        "RAISES builtins.TypeError: unhashable type: 'dict'"
    ),
    'hierarchy/passthrough-is-identity': (
        'bool: True'
    ),
    'hierarchy/not-a-mapping': (
        "RAISES builtins.AttributeError: 'list' object has no attribute 'get'"
    ),
    'hierarchy/None': (
        "RAISES builtins.AttributeError: 'NoneType' object has no attribute 'get'"
    ),
    'hierarchy/keyword-call': (
        "Variable: {'Variable': {'dims': ['x'], 'attrs': {}, 'data': {'ndarray': {'dtype': 'int8', 'shape': (1,), 'data': [1]}}}}"
    ),
    'array/keyword-call': (
        "ndarray: {'ndarray': {'dtype': 'int8', 'shape': (1,), 'data': [1]}}"
    ),
    'variable/keyword-call': (
        'Variable: {\'Variable\': {\'dims\': [\'x\'], \'attrs\': {}, \'data\': {\'Array\': {\'fs\': "DirFileSystem(path=\'/path/to\', fs=MemoryFileSystem)", \'url\': \'file\', \'byte_ranges\': [(5, 10), (15, 20), (25, 30), (35, 40)], \'shape\': (4, 3), \'dtype\': \'complex64\', \'type_code\': \'C*8\', \'records_per_chunk\': 2, \'chunk_offsets\': {0: {\'offset\': 5, \'size\': 15}, 1: {\'offset\': 25, \'size\': 15}}}}}}'
    ),
    'group/keyword-call': (
        'Group: {\'Group\': {\'path\': \'/\', \'url\': \'u\', \'attrs\': {}, \'data\': {\'v\': {\'Variable\': {\'dims\': [\'x\'], \'attrs\': {}, \'data\': {\'Array\': {\'fs\': "DirFileSystem(path=\'/path/to\', fs=MemoryFileSystem)", \'url\': \'file\', \'byte_ranges\': [(5, 10), (15, 20), (25, 30), (35, 40)], \'shape\': (4, 3), \'dtype\': \'complex64\', \'type_code\': \'C*8\', \'records_per_chunk\': 4, \'chunk_offsets\': {0: {\'offset\': 5, \'size\': 35}}}}}}}}}'
    ),
    'postprocess/tuple': (
        'tuple: (1, [2])'
    ),
    'postprocess/other': (
        "dict: {'__type__': 'array', 'data': [1]}"
    ),
    'decode/tree': (
        'Group: {\'Group\': {\'path\': \'/\', \'url\': None, \'attrs\': {}, \'data\': {\'v\': {\'Variable\': {\'dims\': [\'x\', \'y\'], \'attrs\': {}, \'data\': {\'Array\': {\'fs\': "DirFileSystem(path=\'/path/to\', fs=MemoryFileSystem)", \'url\': \'file\', \'byte_ranges\': [(5, 10), (15, 20), (25, 30), (35, 40)], \'shape\': (4, 3), \'dtype\': \'complex64\', \'type_code\': \'C*8\', \'records_per_chunk\': 3, \'chunk_offsets\': {0: {\'offset\': 5, \'size\': 25}, 1: {\'offset\': 35, \'size\': 5}}}}}}, \'w\': {\'Variable\': {\'dims\': [\'x\'], \'attrs\': {\'a\': (1, [2])}, \'data\': {\'ndarray\': {\'dtype\': \'timedelta64[s]\', \'shape\': (2,), \'data\': [datetime.timedelta(seconds=1), datetime.timedelta(seconds=5)]}}}}}}}'
    ),
    'decode/tree-rpc-None': (
        'Group: {\'Group\': {\'path\': \'/\', \'url\': None, \'attrs\': {}, \'data\': {\'v\': {\'Variable\': {\'dims\': [\'x\', \'y\'], \'attrs\': {}, \'data\': {\'Array\': {\'fs\': "DirFileSystem(path=\'/path/to\', fs=MemoryFileSystem)", \'url\': \'file\', \'byte_ranges\': [(5, 10), (15, 20), (25, 30), (35, 40)], \'shape\': (4, 3), \'dtype\': \'complex64\', \'type_code\': \'C*8\', \'records_per_chunk\': 1024, \'chunk_offsets\': {0: {\'offset\': 5, \'size\': 35}}}}}}, \'w\': {\'Variable\': {\'dims\': [\'x\'], \'attrs\': {\'a\': (1, [2])}, \'data\': {\'ndarray\': {\'dtype\': \'timedelta64[s]\', \'shape\': (2,), \'data\': [datetime.timedelta(seconds=1), datetime.timedelta(seconds=5)]}}}}}}}'
    ),
    'decode/top-level-unhashable-type': (
        "RAISES builtins.TypeError: unhashable type: 'list'"
    ),
    'decode/top-level-list': (
        "RAISES builtins.AttributeError: 'list' object has no attribute 'get'"
    ),
    'decode/plain-object': (
        "dict: {'a': (1,)}"
    ),
    'decode/truncated': (
        'RAISES ceos_alos2.sar_image.caching.CachingError: invalid or incomplete cache file'
    ),
}


def main():
    warnings.simplefilter("ignore", DeprecationWarning)
    observed = {name: observe(func) for name, func in CASES.items()}

    if "--print" in sys.argv[1:]:
        print("EXPECTED = {")
        for name, value in observed.items():
            print(f"    {name!r}: (\n        {value!r}\n    ),")
        print("}")
        return 0

    failures = 0
    assert set(observed) == set(EXPECTED), sorted(set(observed) ^ set(EXPECTED))
    for name, value in observed.items():
        if value != EXPECTED[name]:
            failures += 1
            print(f"MISMATCH {name}:\n  expected: {EXPECTED[name]}\n  observed: {value}")
    assert failures == 0, f"{failures} of {len(observed)} cases differ"
    print(f"OK: {len(observed)} cases identical to the recorded behaviour")
    return 0


if __name__ == "__main__":
    sys.exit(main())
