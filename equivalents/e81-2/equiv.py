"""Equivalence check for refactoring 2 (`ceos_alos2.sar_image.metadata.transform_line_metadata`).

Run as ``python equiv.py`` (or through pytest). The outcomes in ``EXPECTED`` were
recorded from the unchanged code (``python equiv.py --record``).
"""

import copy
import datetime as dt
import struct
import sys

import numpy as np

from ceos_alos2.hierarchy import Group, Variable
from ceos_alos2.sar_image import metadata
from ceos_alos2.sar_image.processed_data import processed_data_record
from ceos_alos2.sar_image.signal_data import signal_data_record
from ceos_alos2.utils import to_dict


def describe(value):
    """order- and type-sensitive description of a result"""
    if isinstance(value, Group):
        return (
            f"Group(path={value.path!r}, url={value.url!r}, data={describe(value.data)},"
            f" attrs={describe(value.attrs)})"
        )
    if isinstance(value, Variable):
        return (
            f"Variable(dims={describe(value.dims)}, data={describe(value.data)},"
            f" attrs={describe(value.attrs)})"
        )
    if isinstance(value, np.ndarray):
        return f"ndarray[{value.dtype}, {value.shape}]{value.tolist()!r}"
    if isinstance(value, dict):
        items = ", ".join(f"{describe(k)}: {describe(v)}" for k, v in value.items())
        return f"{type(value).__name__}{{{items}}}"
    if isinstance(value, (list, tuple)):
        items = ", ".join(describe(v) for v in value)
        return f"{type(value).__name__}[{items}]"
    return f"{type(value).__name__}:{value!r}"


def outcome(func, *args):
    try:
        result = func(*args)
    except BaseException as e:  # noqa: B036
        chained = type(e.__cause__).__name__ if e.__cause__ is not None else None
        return f"raises {type(e).__name__}: {e} (cause: {chained})"
    return describe(result)


def signal_record(seq, line, n_data=8, date=(2020, 100, 45_000_123), constant=False):
    head = bytearray(544)
    struct.pack_into(">IBBBBI", head, 0, seq, 50, 10, 18, 20, 544 + n_data)
    struct.pack_into(">6I", head, 12, line, 1, 2, n_data // 2, 3, 1)
    struct.pack_into(">3I", head, 36, *date)
    struct.pack_into(">4H", head, 48, 2, 0, 0, 1)
    struct.pack_into(">2I", head, 56, 2_000_000 + (0 if constant else seq), 7)
    struct.pack_into(">2H", head, 64, 1, 0)
    struct.pack_into(">4I", head, 68, 10, 20, 30, 40)
    struct.pack_into(">Q", head, 84, date[2] * 1000 + 17 * seq)
    for offset in range(92, 224, 4):
        struct.pack_into(">I", head, offset, offset * 1000 + (0 if constant else line))
    struct.pack_into(">I", head, 96, seq % 2)
    struct.pack_into(">I", head, 128, 1)
    head[224:284] = b"\x00" * 60
    struct.pack_into(">I", head, 284, 710)
    head[288:300] = b"aux" + bytes(9)
    return bytes(head) + bytes(range(n_data))


def processed_record(seq, line, n_data=6, date=(2019, 365, 86_399_999)):
    head = bytearray(192)
    struct.pack_into(">IBBBBI", head, 0, seq, 50, 11, 18, 20, 192 + n_data)
    struct.pack_into(">6I", head, 12, line, 1, 0, n_data // 2, 0, 0)
    struct.pack_into(">3I", head, 36, *date)
    struct.pack_into(">4H", head, 48, 1, 0, 1, 1)
    struct.pack_into(">2I", head, 56, 1_500_000, 0)
    for offset in range(64, 108, 4):
        struct.pack_into(">I", head, offset, offset * 100 + seq)
    struct.pack_into(">I", head, 128, 1)
    for offset in [*range(132, 160, 4), 164, 168, 176, 180]:
        struct.pack_into(">I", head, offset, offset * 10_000 + line)
    return bytes(head) + bytes(range(n_data))


def parse(struct_, records):
    content = b"".join(records)
    return to_dict(list(struct_[len(records)].parse(content)))


class Unhashable(dict):
    pass


m = {"units": "m"}
cases = {
    # cases of the test suite
    "ignored": [
        {
            "preamble": {},
            "record_start": 1,
            "actual_count_of_left_fill_pixels": 0,
            "actual_count_of_right_fill_pixels": 0,
            "actual_count_of_data_pixels": 0,
            "palsar_auxiliary_data": b"",
            "blanks2": "",
            "data": {},
        }
    ],
    "variables transformed": [{"a": (1, m)}, {"a": (2, m)}],
    "deduplicated attrs": [{"scan_id": 1}, {"scan_id": 1}],
    "dtype overrides": [
        {"sensor_acquisition_date": dt.datetime(2020, 10, 1, 12, 37, 42, 451000)},
        {"sensor_acquisition_date": dt.datetime(2020, 10, 2, 12, 37, 42, 451000)},
    ],
    "renamed": [{"sar_image_data_line_number": 1}, {"sar_image_data_line_number": 2}],
    # more
    "no records": [],
    "no records, tuple": (),
    "empty records": [{}, {}],
    "single record": [{"a": 1, "scan_id": 3, "sar_image_data_line_number": 4}],
    "iterator": iter([{"a": 1}, {"a": 2}]),
    "generator": ({"a": i, "scan_id": 1} for i in range(3)),
    "spares and blanks": [
        {"spare1": 1, "blanks": 2, "blanks12": 3, "spare_a": 4, "sparea": 5, "blanksx": 6, "a": 7},
        {"spare1": 1, "blanks": 2, "blanks12": 3, "spare_a": 4, "sparea": 5, "blanksx": 6, "a": 8},
    ],
    "nested structs": [
        {"velocity": {"x": (1, m), "y": (2, m), "spare3": 1}, "a": (0.5, {"units": "s"})},
        {"velocity": {"x": (3, m), "y": (4, m), "spare3": 1}, "a": (1.5, {"units": "s"})},
    ],
    "different keys per record": [{"a": 1, "b": 2}, {"b": 3, "c": 4}, {"c": 5, "a": 6}],
    "differing attrs, first wins": [{"a": (1, {"units": "m"})}, {"a": (2, {"units": "km"})}],
    "mixed tuple and scalar": [{"a": (1, m)}, {"a": 2}],
    "scalar then tuple": [{"a": 1}, {"a": (2, m)}],
    "three tuples": [{"a": (1, m, 3)}, {"a": (2, m, 3)}],
    "known attrs not constant": [
        {"scan_id": 1, "sar_channel_code": "L", "alos2_frame_number": 5},
        {"scan_id": 2, "sar_channel_code": "L", "alos2_frame_number": 6},
    ],
    "known attr with metadata": [{"scan_id": (1, m)}, {"scan_id": (2, m)}],
    "all known attrs": [
        {name: index for index, name in enumerate(sorted(
            [
                "sar_image_data_record_index",
                "sensor_parameters_update_flag",
                "scan_id",
                "sar_channel_code",
                "sar_channel_id",
                "onboard_range_compressed_flag",
                "chirp_type_designator",
                "platform_position_parameters_update_flag",
                "alos2_frame_number",
                "geographic_reference_parameter_update_flag",
                "transmitted_pulse_polarization",
                "received_pulse_polarization",
            ]
        ))}
    ] * 2,  # fmt: skip
    "rows key clashes with renamed key": [
        {"rows": 10, "sar_image_data_line_number": 1},
        {"rows": 20, "sar_image_data_line_number": 2},
    ],
    "renamed key before rows": [
        {"sar_image_data_line_number": 1, "rows": 10},
    ],
    "both datetime fields": [
        {
            "sensor_acquisition_date": dt.datetime(2020, 1, 1),
            "sensor_acquisition_date_microseconds": dt.datetime(2020, 1, 1, 0, 0, 0, 17),
        },
        {
            "sensor_acquisition_date": dt.datetime(2020, 1, 1, 0, 0, 1),
            "sensor_acquisition_date_microseconds": dt.datetime(2020, 1, 1, 0, 0, 1, 34),
        },
    ],
    "datetime strings": [
        {"sensor_acquisition_date": "2020-01-01T00:00:00"},
        {"sensor_acquisition_date": "2020-01-02"},
    ],
    "invalid datetime": [{"sensor_acquisition_date": "not a date"}],
    "datetime with metadata": [
        {"sensor_acquisition_date": (dt.datetime(2020, 1, 1), {"calendar": "utc"})},
    ],
    "list values": [{"a": [1, 2]}, {"a": [3, 4]}],
    "tuple-of-dict values": [{"a": ({"b": 1}, {"c": 2})}, {"a": ({"b": 3}, {"c": 2})}],
    "none values": [{"a": None}, {"a": None}],
    "data and preamble only": [{"data": {"start": 1, "stop": 2}, "preamble": {"record_type": 10}}],
    # failures
    "record is none": [None],
    "record is int": [5],
    "metadata is int": 5,
    "metadata is none": None,
    "record is a list of pairs": [[("a", 1)]],
    "second record is int": [{"a": 1}, 3],
    "metadata is a string": "ab",
    "metadata is a mapping": {"a": 1},
    "integer keys": [{1: 2}],
    "integer keys in ignored field": [{"data": {1: 2}}],
    "unhashable in known attr": [{"scan_id": []}],
    "single non-mapping iterable": [iter([{"a": 1}, {"a": 2}])],
    # parsed records
    "signal data records": parse(
        signal_data_record, [signal_record(seq, 10 + seq) for seq in range(1, 5)]
    ),
    "signal data records, day rollover": parse(
        signal_data_record,
        [
            signal_record(1, 1, date=(2020, 366, 86_399_999)),
            signal_record(2, 2, date=(2021, 1, 0)),
        ],
    ),
    "signal data records, constant": parse(
        signal_data_record, [signal_record(seq, seq, n_data=0, constant=True) for seq in (1, 2)]
    ),
    "single signal data record": parse(signal_data_record, [signal_record(1, 1)]),
    "processed data records": parse(
        processed_data_record, [processed_record(seq, seq * 2) for seq in range(1, 4)]
    ),
}


def run_cases():
    results = {}
    for name, records in cases.items():
        # iterators are consumed, everything else must not be modified
        checkable = isinstance(records, (list, tuple, dict))
        before = describe(copy.deepcopy(records)) if checkable else ""
        checkable = checkable and " object at 0x" not in before
        results[name] = outcome(metadata.transform_line_metadata, records)
        if checkable:
            assert before == describe(records), name
    return results


def check_fresh_results():
    records = [
        {"a": (1, {"units": "m"}), "scan_id": 1, "sar_image_data_line_number": 1},
        {"a": (2, {"units": "m"}), "scan_id": 1, "sar_image_data_line_number": 2},
    ]
    first = metadata.transform_line_metadata(records)
    # modifying one result has no influence on the next
    first.attrs["scan_id"] = 2
    first.attrs["new"] = 1
    first.data["rows"].dims.append("x")
    first.data["a"].data.append(3)
    del first.data["a"]

    second = metadata.transform_line_metadata(records)
    assert second.attrs == {"scan_id": 1}
    assert list(second.data) == ["a", "rows"]
    assert second.data["rows"].dims == ["rows"]
    assert second.data["a"].data == [1, 2]


EXPECTED = {'ignored': "Group(path='/', url=None, data=dict{}, attrs=dict{})",
 'variables transformed': "Group(path='/', url=None, data=dict{str:'a': "
                          "Variable(dims=list[str:'rows'], data=list[int:1, int:2], "
                          "attrs=dict{str:'units': str:'m'})}, attrs=dict{})",
 'deduplicated attrs': "Group(path='/', url=None, data=dict{}, attrs=dict{str:'scan_id': int:1})",
 'dtype overrides': "Group(path='/', url=None, data=dict{str:'sensor_acquisition_date': "
                    "Variable(dims=list[str:'rows'], data=ndarray[datetime64[ns], "
                    '(2,)][1601555862451000000, 1601642262451000000], attrs=dict{})}, '
                    'attrs=dict{})',
 'renamed': "Group(path='/', url=None, data=dict{str:'rows': Variable(dims=list[str:'rows'], "
            'data=list[int:1, int:2], attrs=dict{})}, attrs=dict{})',
 'no records': "Group(path='/', url=None, data=dict{}, attrs=dict{})",
 'no records, tuple': "Group(path='/', url=None, data=dict{}, attrs=dict{})",
 'empty records': "Group(path='/', url=None, data=dict{}, attrs=dict{})",
 'single record': "Group(path='/', url=None, data=dict{str:'a': Variable(dims=list[str:'rows'], "
                  "data=list[int:1], attrs=dict{}), str:'rows': Variable(dims=list[str:'rows'], "
                  "data=list[int:4], attrs=dict{})}, attrs=dict{str:'scan_id': int:3})",
 'iterator': "Group(path='/', url=None, data=dict{str:'a': Variable(dims=list[str:'rows'], "
             'data=list[int:1, int:2], attrs=dict{})}, attrs=dict{})',
 'generator': "Group(path='/', url=None, data=dict{str:'a': Variable(dims=list[str:'rows'], "
              "data=list[int:0, int:1, int:2], attrs=dict{})}, attrs=dict{str:'scan_id': int:1})",
 'spares and blanks': "Group(path='/', url=None, data=dict{str:'spare_a': "
                      "Variable(dims=list[str:'rows'], data=list[int:4, int:4], attrs=dict{}), "
                      "str:'sparea': Variable(dims=list[str:'rows'], data=list[int:5, int:5], "
                      "attrs=dict{}), str:'blanksx': Variable(dims=list[str:'rows'], "
                      "data=list[int:6, int:6], attrs=dict{}), str:'a': "
                      "Variable(dims=list[str:'rows'], data=list[int:7, int:8], attrs=dict{})}, "
                      'attrs=dict{})',
 'nested structs': "Group(path='/', url=None, data=dict{str:'velocity': "
                   "Variable(dims=list[str:'rows'], data=list[dict{str:'x': tuple[int:1, "
                   "dict{str:'units': str:'m'}], str:'y': tuple[int:2, dict{str:'units': "
                   "str:'m'}]}, dict{str:'x': tuple[int:3, dict{str:'units': str:'m'}], str:'y': "
                   "tuple[int:4, dict{str:'units': str:'m'}]}], attrs=dict{}), str:'a': "
                   "Variable(dims=list[str:'rows'], data=list[float:0.5, float:1.5], "
                   "attrs=dict{str:'units': str:'s'})}, attrs=dict{})",
 'different keys per record': "Group(path='/', url=None, data=dict{str:'a': "
                              "Variable(dims=list[str:'rows'], data=list[int:1, int:6], "
                              "attrs=dict{}), str:'b': Variable(dims=list[str:'rows'], "
                              "data=list[int:2, int:3], attrs=dict{}), str:'c': "
                              "Variable(dims=list[str:'rows'], data=list[int:4, int:5], "
                              'attrs=dict{})}, attrs=dict{})',
 'differing attrs, first wins': "Group(path='/', url=None, data=dict{str:'a': "
                                "Variable(dims=list[str:'rows'], data=list[int:1, int:2], "
                                "attrs=dict{str:'units': str:'m'})}, attrs=dict{})",
 'mixed tuple and scalar': "raises TypeError: 'int' object is not iterable (cause: None)",
 'scalar then tuple': "Group(path='/', url=None, data=dict{str:'a': "
                      "Variable(dims=list[str:'rows'], data=list[int:1, tuple[int:2, "
                      "dict{str:'units': str:'m'}]], attrs=dict{})}, attrs=dict{})",
 'three tuples': 'raises ValueError: too many values to unpack (expected 2) (cause: None)',
 'known attrs not constant': "Group(path='/', url=None, data=dict{}, attrs=dict{str:'scan_id': "
                             "int:1, str:'sar_channel_code': str:'L'})",
 'known attr with metadata': "Group(path='/', url=None, data=dict{}, attrs=dict{str:'scan_id': "
                             'int:1})',
 'all known attrs': "Group(path='/', url=None, data=dict{}, "
                    "attrs=dict{str:'chirp_type_designator': int:1, "
                    "str:'geographic_reference_parameter_update_flag': int:2, "
                    "str:'onboard_range_compressed_flag': int:3, "
                    "str:'platform_position_parameters_update_flag': int:4, "
                    "str:'received_pulse_polarization': int:5, str:'sar_channel_code': int:6, "
                    "str:'sar_channel_id': int:7, str:'sar_image_data_record_index': int:8, "
                    "str:'scan_id': int:9, str:'sensor_parameters_update_flag': int:10, "
                    "str:'transmitted_pulse_polarization': int:11})",
 'rows key clashes with renamed key': "Group(path='/', url=None, data=dict{str:'rows': "
                                      "Variable(dims=list[str:'rows'], data=list[int:1, int:2], "
                                      'attrs=dict{})}, attrs=dict{})',
 'renamed key before rows': "Group(path='/', url=None, data=dict{str:'rows': "
                            "Variable(dims=list[str:'rows'], data=list[int:10], attrs=dict{})}, "
                            'attrs=dict{})',
 'both datetime fields': "Group(path='/', url=None, data=dict{str:'sensor_acquisition_date': "
                         "Variable(dims=list[str:'rows'], data=ndarray[datetime64[ns], "
                         '(2,)][1577836800000000000, 1577836801000000000], attrs=dict{}), '
                         "str:'sensor_acquisition_date_microseconds': "
                         "Variable(dims=list[str:'rows'], data=ndarray[datetime64[ns], "
                         '(2,)][1577836800000017000, 1577836801000034000], attrs=dict{})}, '
                         'attrs=dict{})',
 'datetime strings': "Group(path='/', url=None, data=dict{str:'sensor_acquisition_date': "
                     "Variable(dims=list[str:'rows'], data=ndarray[datetime64[ns], "
                     '(2,)][1577836800000000000, 1577923200000000000], attrs=dict{})}, '
                     'attrs=dict{})',
 'invalid datetime': 'raises ValueError: Error parsing datetime string "not a date" at position 0 '
                     '(cause: None)',
 'datetime with metadata': "Group(path='/', url=None, data=dict{str:'sensor_acquisition_date': "
                           "Variable(dims=list[str:'rows'], data=ndarray[datetime64[ns], "
                           "(1,)][1577836800000000000], attrs=dict{str:'calendar': str:'utc'})}, "
                           'attrs=dict{})',
 'list values': "Group(path='/', url=None, data=dict{str:'a': Variable(dims=list[str:'rows'], "
                'data=list[list[int:1, int:2], list[int:3, int:4]], attrs=dict{})}, attrs=dict{})',
 'tuple-of-dict values': "Group(path='/', url=None, data=dict{str:'a': "
                         "Variable(dims=list[str:'rows'], data=list[dict{str:'b': int:1}, "
                         "dict{str:'b': int:3}], attrs=dict{str:'c': int:2})}, attrs=dict{})",
 'none values': "Group(path='/', url=None, data=dict{str:'a': Variable(dims=list[str:'rows'], "
                'data=list[NoneType:None, NoneType:None], attrs=dict{})}, attrs=dict{})',
 'data and preamble only': "Group(path='/', url=None, data=dict{}, attrs=dict{})",
 'record is none': "raises AttributeError: 'curry' object has no attribute 'items' (cause: None)",
 'record is int': "raises AttributeError: 'curry' object has no attribute 'items' (cause: None)",
 'metadata is int': 'raises TypeError: toolz.dicttoolz.merge_with() argument after * must be an '
                    'iterable, not int (cause: None)',
 'metadata is none': 'raises TypeError: toolz.dicttoolz.merge_with() argument after * must be an '
                     'iterable, not NoneType (cause: None)',
 'record is a list of pairs': "raises AttributeError: 'tuple' object has no attribute 'items' "
                              '(cause: None)',
 'second record is int': "raises AttributeError: 'int' object has no attribute 'items' (cause: "
                         'None)',
 'metadata is a string': "raises AttributeError: 'str' object has no attribute 'items' (cause: "
                         'None)',
 'metadata is a mapping': "raises AttributeError: 'str' object has no attribute 'items' (cause: "
                          'None)',
 'integer keys': "raises AttributeError: 'int' object has no attribute 'startswith' (cause: None)",
 'integer keys in ignored field': "raises AttributeError: 'int' object has no attribute "
                                  "'startswith' (cause: None)",
 'unhashable in known attr': 'raises ValueError: not enough values to unpack (expected 3, got 0) '
                             '(cause: None)',
 'single non-mapping iterable': "Group(path='/', url=None, data=dict{str:'a': "
                                "Variable(dims=list[str:'rows'], data=list[int:1, int:2], "
                                'attrs=dict{})}, attrs=dict{})',
 'signal data records': "Group(path='/', url=None, data=dict{str:'rows': "
                        "Variable(dims=list[str:'rows'], data=list[int:11, int:12, int:13, "
                        "int:14], attrs=dict{}), str:'sensor_acquisition_date': "
                        "Variable(dims=list[str:'rows'], data=ndarray[datetime64[ns], "
                        '(4,)][1586435400123000000, 1586435400123000000, 1586435400123000000, '
                        "1586435400123000000], attrs=dict{}), str:'prf': "
                        "Variable(dims=list[str:'rows'], data=list[int:2000001, int:2000002, "
                        "int:2000003, int:2000004], attrs=dict{str:'units': str:'mHz'}), "
                        "str:'chirp_length': Variable(dims=list[str:'rows'], data=list[int:10, "
                        "int:10, int:10, int:10], attrs=dict{str:'units': str:'ns'}), "
                        "str:'chirp_constant_coefficient': Variable(dims=list[str:'rows'], "
                        "data=list[int:20, int:20, int:20, int:20], attrs=dict{str:'units': "
                        "str:'Hz'}), str:'chirp_linear_coefficient': "
                        "Variable(dims=list[str:'rows'], data=list[int:30, int:30, int:30, "
                        "int:30], attrs=dict{str:'units': str:'Hz/µs'}), "
                        "str:'chirp_quadratic_coefficient': Variable(dims=list[str:'rows'], "
                        "data=list[int:40, int:40, int:40, int:40], attrs=dict{str:'units': "
                        "str:'Hz/µs^2'}), str:'sensor_acquisition_date_microseconds': "
                        "Variable(dims=list[str:'rows'], data=ndarray[datetime64[ns], "
                        '(4,)][1586435400123017000, 1586435400123034000, 1586435400123051000, '
                        "1586435400123068000], attrs=dict{}), str:'receiver_gain': "
                        "Variable(dims=list[str:'rows'], data=list[int:92011, int:92012, "
                        "int:92013, int:92014], attrs=dict{str:'units': str:'dB'}), "
                        "str:'invalid_line_flag': Variable(dims=list[str:'rows'], "
                        'data=list[bool:True, bool:False, bool:True, bool:False], attrs=dict{}), '
                        "str:'elevation_angle_at_nadir_of_antenna': "
                        "Variable(dims=list[str:'rows'], data=list[dict{str:'electronic': "
                        "tuple[int:100011, dict{str:'units': str:'deg'}], str:'mechanic': "
                        "tuple[int:104011, dict{str:'units': str:'deg'}]}, dict{str:'electronic': "
                        "tuple[int:100012, dict{str:'units': str:'deg'}], str:'mechanic': "
                        "tuple[int:104012, dict{str:'units': str:'deg'}]}, dict{str:'electronic': "
                        "tuple[int:100013, dict{str:'units': str:'deg'}], str:'mechanic': "
                        "tuple[int:104013, dict{str:'units': str:'deg'}]}, dict{str:'electronic': "
                        "tuple[int:100014, dict{str:'units': str:'deg'}], str:'mechanic': "
                        "tuple[int:104014, dict{str:'units': str:'deg'}]}], attrs=dict{}), "
                        "str:'antenna_squint_angle': Variable(dims=list[str:'rows'], "
                        "data=list[dict{str:'electronic': tuple[int:108011, dict{str:'units': "
                        "str:'deg'}], str:'mechanic': tuple[int:112011, dict{str:'units': "
                        "str:'deg'}]}, dict{str:'electronic': tuple[int:108012, dict{str:'units': "
                        "str:'deg'}], str:'mechanic': tuple[int:112012, dict{str:'units': "
                        "str:'deg'}]}, dict{str:'electronic': tuple[int:108013, dict{str:'units': "
                        "str:'deg'}], str:'mechanic': tuple[int:112013, dict{str:'units': "
                        "str:'deg'}]}, dict{str:'electronic': tuple[int:108014, dict{str:'units': "
                        "str:'deg'}], str:'mechanic': tuple[int:112014, dict{str:'units': "
                        "str:'deg'}]}], attrs=dict{}), str:'slant_range_to_first_data_sample': "
                        "Variable(dims=list[str:'rows'], data=list[int:116011, int:116012, "
                        "int:116013, int:116014], attrs=dict{str:'units': str:'m'}), "
                        "str:'data_record_window_position': Variable(dims=list[str:'rows'], "
                        'data=list[int:120011, int:120012, int:120013, int:120014], '
                        "attrs=dict{str:'units': str:'ns'}), str:'platform_latitude': "
                        "Variable(dims=list[str:'rows'], data=list[float:0.132011, float:0.132012, "
                        "float:0.132013, float:0.132014], attrs=dict{str:'units': str:'deg'}), "
                        "str:'platform_longitude': Variable(dims=list[str:'rows'], "
                        'data=list[float:0.136011, float:0.136012, float:0.136013, '
                        "float:0.136014], attrs=dict{str:'units': str:'deg'}), "
                        "str:'platform_altitude': Variable(dims=list[str:'rows'], "
                        'data=list[int:140011, int:140012, int:140013, int:140014], '
                        "attrs=dict{str:'units': str:'deg'}), str:'platform_ground_speed': "
                        "Variable(dims=list[str:'rows'], data=list[int:144011, int:144012, "
                        "int:144013, int:144014], attrs=dict{str:'units': str:'cm/s'}), "
                        "str:'platform_velocity': Variable(dims=list[str:'rows'], "
                        "data=list[dict{str:'x': tuple[int:148011, dict{str:'units': str:'cm/s'}], "
                        "str:'y': tuple[int:152011, dict{str:'units': str:'cm/s'}], str:'z': "
                        "tuple[int:156011, dict{str:'units': str:'cm/s'}]}, dict{str:'x': "
                        "tuple[int:148012, dict{str:'units': str:'cm/s'}], str:'y': "
                        "tuple[int:152012, dict{str:'units': str:'cm/s'}], str:'z': "
                        "tuple[int:156012, dict{str:'units': str:'cm/s'}]}, dict{str:'x': "
                        "tuple[int:148013, dict{str:'units': str:'cm/s'}], str:'y': "
                        "tuple[int:152013, dict{str:'units': str:'cm/s'}], str:'z': "
                        "tuple[int:156013, dict{str:'units': str:'cm/s'}]}, dict{str:'x': "
                        "tuple[int:148014, dict{str:'units': str:'cm/s'}], str:'y': "
                        "tuple[int:152014, dict{str:'units': str:'cm/s'}], str:'z': "
                        "tuple[int:156014, dict{str:'units': str:'cm/s'}]}], attrs=dict{}), "
                        "str:'platform_acceleration': Variable(dims=list[str:'rows'], "
                        "data=list[dict{str:'x': tuple[int:160011, dict{str:'units': "
                        "str:'cm/s^2'}], str:'y': tuple[int:164011, dict{str:'units': "
                        "str:'cm/s^2'}], str:'z': tuple[int:168011, dict{str:'units': "
                        "str:'cm/s^2'}]}, dict{str:'x': tuple[int:160012, dict{str:'units': "
                        "str:'cm/s^2'}], str:'y': tuple[int:164012, dict{str:'units': "
                        "str:'cm/s^2'}], str:'z': tuple[int:168012, dict{str:'units': "
                        "str:'cm/s^2'}]}, dict{str:'x': tuple[int:160013, dict{str:'units': "
                        "str:'cm/s^2'}], str:'y': tuple[int:164013, dict{str:'units': "
                        "str:'cm/s^2'}], str:'z': tuple[int:168013, dict{str:'units': "
                        "str:'cm/s^2'}]}, dict{str:'x': tuple[int:160014, dict{str:'units': "
                        "str:'cm/s^2'}], str:'y': tuple[int:164014, dict{str:'units': "
                        "str:'cm/s^2'}], str:'z': tuple[int:168014, dict{str:'units': "
                        "str:'cm/s^2'}]}], attrs=dict{}), str:'platform_track_angle': "
                        "Variable(dims=list[str:'rows'], data=list[float:0.172011, float:0.172012, "
                        "float:0.172013, float:0.172014], attrs=dict{str:'units': str:'deg'}), "
                        "str:'platform_true_track_angle': Variable(dims=list[str:'rows'], "
                        'data=list[float:0.176011, float:0.176012, float:0.176013, '
                        "float:0.176014], attrs=dict{str:'units': str:'deg'}), "
                        "str:'platform_attitude': Variable(dims=list[str:'rows'], "
                        "data=list[dict{str:'pitch': tuple[float:0.180011, dict{str:'units': "
                        "str:'deg'}], str:'roll': tuple[float:0.18401099999999998, "
                        "dict{str:'units': str:'deg'}], str:'yaw': "
                        "tuple[float:0.18801099999999998, dict{str:'units': str:'deg'}]}, "
                        "dict{str:'pitch': tuple[float:0.180012, dict{str:'units': str:'deg'}], "
                        "str:'roll': tuple[float:0.18401199999999998, dict{str:'units': "
                        "str:'deg'}], str:'yaw': tuple[float:0.18801199999999998, "
                        "dict{str:'units': str:'deg'}]}, dict{str:'pitch': "
                        "tuple[float:0.18001299999999998, dict{str:'units': str:'deg'}], "
                        "str:'roll': tuple[float:0.18401299999999998, dict{str:'units': "
                        "str:'deg'}], str:'yaw': tuple[float:0.18801299999999999, "
                        "dict{str:'units': str:'deg'}]}, dict{str:'pitch': "
                        "tuple[float:0.18001399999999998, dict{str:'units': str:'deg'}], "
                        "str:'roll': tuple[float:0.18401399999999998, dict{str:'units': "
                        "str:'deg'}], str:'yaw': tuple[float:0.188014, dict{str:'units': "
                        "str:'deg'}]}], attrs=dict{}), str:'latitude_of_first_pixel': "
                        "Variable(dims=list[str:'rows'], data=list[float:0.192011, float:0.192012, "
                        "float:0.192013, float:0.192014], attrs=dict{str:'units': str:'deg'}), "
                        "str:'latitude_of_center_pixel': Variable(dims=list[str:'rows'], "
                        'data=list[float:0.196011, float:0.196012, float:0.196013, '
                        "float:0.196014], attrs=dict{str:'units': str:'deg'}), "
                        "str:'latitude_of_last_pixel': Variable(dims=list[str:'rows'], "
                        'data=list[float:0.200011, float:0.200012, float:0.200013, '
                        "float:0.200014], attrs=dict{str:'units': str:'deg'}), "
                        "str:'longitude_of_first_pixel': Variable(dims=list[str:'rows'], "
                        'data=list[float:0.204011, float:0.204012, float:0.204013, '
                        "float:0.204014], attrs=dict{str:'units': str:'deg'}), "
                        "str:'longitude_of_center_pixel': Variable(dims=list[str:'rows'], "
                        'data=list[float:0.208011, float:0.208012, float:0.208013, '
                        "float:0.208014], attrs=dict{str:'units': str:'deg'}), "
                        "str:'longitude_of_last_pixel': Variable(dims=list[str:'rows'], "
                        'data=list[float:0.21201099999999998, float:0.21201199999999998, '
                        'float:0.21201299999999998, float:0.21201399999999998], '
                        "attrs=dict{str:'units': str:'deg'}), str:'burst_number': "
                        "Variable(dims=list[str:'rows'], data=list[int:216011, int:216012, "
                        "int:216013, int:216014], attrs=dict{}), str:'line_number_in_this_burst': "
                        "Variable(dims=list[str:'rows'], data=list[int:220011, int:220012, "
                        'int:220013, int:220014], attrs=dict{})}, '
                        "attrs=dict{str:'sar_image_data_record_index': int:1, "
                        "str:'sensor_parameters_update_flag': int:1, str:'sar_channel_id': "
                        "str:'dual_polarization', str:'sar_channel_code': str:'L', "
                        "str:'transmitted_pulse_polarization': str:'horizontal', "
                        "str:'received_pulse_polarization': str:'vertical', str:'scan_id': int:7, "
                        "str:'onboard_range_compressed_flag': bool:True, "
                        "str:'chirp_type_designator': str:'linear_fm_chirp', "
                        "str:'platform_position_parameters_update_flag': str:'update'})",
 'signal data records, day rollover': "Group(path='/', url=None, data=dict{str:'rows': "
                                      "Variable(dims=list[str:'rows'], data=list[int:1, int:2], "
                                      "attrs=dict{}), str:'sensor_acquisition_date': "
                                      "Variable(dims=list[str:'rows'], "
                                      'data=ndarray[datetime64[ns], (2,)][1609459199999000000, '
                                      "1609459200000000000], attrs=dict{}), str:'prf': "
                                      "Variable(dims=list[str:'rows'], data=list[int:2000001, "
                                      "int:2000002], attrs=dict{str:'units': str:'mHz'}), "
                                      "str:'chirp_length': Variable(dims=list[str:'rows'], "
                                      "data=list[int:10, int:10], attrs=dict{str:'units': "
                                      "str:'ns'}), str:'chirp_constant_coefficient': "
                                      "Variable(dims=list[str:'rows'], data=list[int:20, int:20], "
                                      "attrs=dict{str:'units': str:'Hz'}), "
                                      "str:'chirp_linear_coefficient': "
                                      "Variable(dims=list[str:'rows'], data=list[int:30, int:30], "
                                      "attrs=dict{str:'units': str:'Hz/µs'}), "
                                      "str:'chirp_quadratic_coefficient': "
                                      "Variable(dims=list[str:'rows'], data=list[int:40, int:40], "
                                      "attrs=dict{str:'units': str:'Hz/µs^2'}), "
                                      "str:'sensor_acquisition_date_microseconds': "
                                      "Variable(dims=list[str:'rows'], "
                                      'data=ndarray[datetime64[ns], (2,)][1609459199999017000, '
                                      "1609459200000034000], attrs=dict{}), str:'receiver_gain': "
                                      "Variable(dims=list[str:'rows'], data=list[int:92001, "
                                      "int:92002], attrs=dict{str:'units': str:'dB'}), "
                                      "str:'invalid_line_flag': Variable(dims=list[str:'rows'], "
                                      'data=list[bool:True, bool:False], attrs=dict{}), '
                                      "str:'elevation_angle_at_nadir_of_antenna': "
                                      "Variable(dims=list[str:'rows'], "
                                      "data=list[dict{str:'electronic': tuple[int:100001, "
                                      "dict{str:'units': str:'deg'}], str:'mechanic': "
                                      "tuple[int:104001, dict{str:'units': str:'deg'}]}, "
                                      "dict{str:'electronic': tuple[int:100002, dict{str:'units': "
                                      "str:'deg'}], str:'mechanic': tuple[int:104002, "
                                      "dict{str:'units': str:'deg'}]}], attrs=dict{}), "
                                      "str:'antenna_squint_angle': Variable(dims=list[str:'rows'], "
                                      "data=list[dict{str:'electronic': tuple[int:108001, "
                                      "dict{str:'units': str:'deg'}], str:'mechanic': "
                                      "tuple[int:112001, dict{str:'units': str:'deg'}]}, "
                                      "dict{str:'electronic': tuple[int:108002, dict{str:'units': "
                                      "str:'deg'}], str:'mechanic': tuple[int:112002, "
                                      "dict{str:'units': str:'deg'}]}], attrs=dict{}), "
                                      "str:'slant_range_to_first_data_sample': "
                                      "Variable(dims=list[str:'rows'], data=list[int:116001, "
                                      "int:116002], attrs=dict{str:'units': str:'m'}), "
                                      "str:'data_record_window_position': "
                                      "Variable(dims=list[str:'rows'], data=list[int:120001, "
                                      "int:120002], attrs=dict{str:'units': str:'ns'}), "
                                      "str:'platform_latitude': Variable(dims=list[str:'rows'], "
                                      'data=list[float:0.132001, float:0.13200199999999998], '
                                      "attrs=dict{str:'units': str:'deg'}), "
                                      "str:'platform_longitude': Variable(dims=list[str:'rows'], "
                                      'data=list[float:0.13600099999999998, '
                                      "float:0.13600199999999998], attrs=dict{str:'units': "
                                      "str:'deg'}), str:'platform_altitude': "
                                      "Variable(dims=list[str:'rows'], data=list[int:140001, "
                                      "int:140002], attrs=dict{str:'units': str:'deg'}), "
                                      "str:'platform_ground_speed': "
                                      "Variable(dims=list[str:'rows'], data=list[int:144001, "
                                      "int:144002], attrs=dict{str:'units': str:'cm/s'}), "
                                      "str:'platform_velocity': Variable(dims=list[str:'rows'], "
                                      "data=list[dict{str:'x': tuple[int:148001, dict{str:'units': "
                                      "str:'cm/s'}], str:'y': tuple[int:152001, dict{str:'units': "
                                      "str:'cm/s'}], str:'z': tuple[int:156001, dict{str:'units': "
                                      "str:'cm/s'}]}, dict{str:'x': tuple[int:148002, "
                                      "dict{str:'units': str:'cm/s'}], str:'y': tuple[int:152002, "
                                      "dict{str:'units': str:'cm/s'}], str:'z': tuple[int:156002, "
                                      "dict{str:'units': str:'cm/s'}]}], attrs=dict{}), "
                                      "str:'platform_acceleration': "
                                      "Variable(dims=list[str:'rows'], data=list[dict{str:'x': "
                                      "tuple[int:160001, dict{str:'units': str:'cm/s^2'}], "
                                      "str:'y': tuple[int:164001, dict{str:'units': "
                                      "str:'cm/s^2'}], str:'z': tuple[int:168001, "
                                      "dict{str:'units': str:'cm/s^2'}]}, dict{str:'x': "
                                      "tuple[int:160002, dict{str:'units': str:'cm/s^2'}], "
                                      "str:'y': tuple[int:164002, dict{str:'units': "
                                      "str:'cm/s^2'}], str:'z': tuple[int:168002, "
                                      "dict{str:'units': str:'cm/s^2'}]}], attrs=dict{}), "
                                      "str:'platform_track_angle': Variable(dims=list[str:'rows'], "
                                      'data=list[float:0.172001, float:0.172002], '
                                      "attrs=dict{str:'units': str:'deg'}), "
                                      "str:'platform_true_track_angle': "
                                      "Variable(dims=list[str:'rows'], data=list[float:0.176001, "
                                      "float:0.176002], attrs=dict{str:'units': str:'deg'}), "
                                      "str:'platform_attitude': Variable(dims=list[str:'rows'], "
                                      "data=list[dict{str:'pitch': tuple[float:0.180001, "
                                      "dict{str:'units': str:'deg'}], str:'roll': "
                                      "tuple[float:0.184001, dict{str:'units': str:'deg'}], "
                                      "str:'yaw': tuple[float:0.188001, dict{str:'units': "
                                      "str:'deg'}]}, dict{str:'pitch': tuple[float:0.180002, "
                                      "dict{str:'units': str:'deg'}], str:'roll': "
                                      "tuple[float:0.184002, dict{str:'units': str:'deg'}], "
                                      "str:'yaw': tuple[float:0.188002, dict{str:'units': "
                                      "str:'deg'}]}], attrs=dict{}), "
                                      "str:'latitude_of_first_pixel': "
                                      "Variable(dims=list[str:'rows'], data=list[float:0.192001, "
                                      "float:0.19200199999999998], attrs=dict{str:'units': "
                                      "str:'deg'}), str:'latitude_of_center_pixel': "
                                      "Variable(dims=list[str:'rows'], "
                                      'data=list[float:0.19600099999999998, '
                                      "float:0.19600199999999998], attrs=dict{str:'units': "
                                      "str:'deg'}), str:'latitude_of_last_pixel': "
                                      "Variable(dims=list[str:'rows'], "
                                      'data=list[float:0.20000099999999998, '
                                      "float:0.20000199999999999], attrs=dict{str:'units': "
                                      "str:'deg'}), str:'longitude_of_first_pixel': "
                                      "Variable(dims=list[str:'rows'], data=list[float:0.204001, "
                                      "float:0.204002], attrs=dict{str:'units': str:'deg'}), "
                                      "str:'longitude_of_center_pixel': "
                                      "Variable(dims=list[str:'rows'], data=list[float:0.208001, "
                                      "float:0.208002], attrs=dict{str:'units': str:'deg'}), "
                                      "str:'longitude_of_last_pixel': "
                                      "Variable(dims=list[str:'rows'], data=list[float:0.212001, "
                                      "float:0.212002], attrs=dict{str:'units': str:'deg'}), "
                                      "str:'burst_number': Variable(dims=list[str:'rows'], "
                                      'data=list[int:216001, int:216002], attrs=dict{}), '
                                      "str:'line_number_in_this_burst': "
                                      "Variable(dims=list[str:'rows'], data=list[int:220001, "
                                      'int:220002], attrs=dict{})}, '
                                      "attrs=dict{str:'sar_image_data_record_index': int:1, "
                                      "str:'sensor_parameters_update_flag': int:1, "
                                      "str:'sar_channel_id': str:'dual_polarization', "
                                      "str:'sar_channel_code': str:'L', "
                                      "str:'transmitted_pulse_polarization': str:'horizontal', "
                                      "str:'received_pulse_polarization': str:'vertical', "
                                      "str:'scan_id': int:7, str:'onboard_range_compressed_flag': "
                                      "bool:True, str:'chirp_type_designator': "
                                      "str:'linear_fm_chirp', "
                                      "str:'platform_position_parameters_update_flag': "
                                      "str:'update'})",
 'signal data records, constant': "Group(path='/', url=None, data=dict{str:'rows': "
                                  "Variable(dims=list[str:'rows'], data=list[int:1, int:2], "
                                  "attrs=dict{}), str:'sensor_acquisition_date': "
                                  "Variable(dims=list[str:'rows'], data=ndarray[datetime64[ns], "
                                  '(2,)][1586435400123000000, 1586435400123000000], attrs=dict{}), '
                                  "str:'prf': Variable(dims=list[str:'rows'], "
                                  "data=list[int:2000000, int:2000000], attrs=dict{str:'units': "
                                  "str:'mHz'}), str:'chirp_length': "
                                  "Variable(dims=list[str:'rows'], data=list[int:10, int:10], "
                                  "attrs=dict{str:'units': str:'ns'}), "
                                  "str:'chirp_constant_coefficient': "
                                  "Variable(dims=list[str:'rows'], data=list[int:20, int:20], "
                                  "attrs=dict{str:'units': str:'Hz'}), "
                                  "str:'chirp_linear_coefficient': Variable(dims=list[str:'rows'], "
                                  "data=list[int:30, int:30], attrs=dict{str:'units': "
                                  "str:'Hz/µs'}), str:'chirp_quadratic_coefficient': "
                                  "Variable(dims=list[str:'rows'], data=list[int:40, int:40], "
                                  "attrs=dict{str:'units': str:'Hz/µs^2'}), "
                                  "str:'sensor_acquisition_date_microseconds': "
                                  "Variable(dims=list[str:'rows'], data=ndarray[datetime64[ns], "
                                  '(2,)][1586435400123017000, 1586435400123034000], attrs=dict{}), '
                                  "str:'receiver_gain': Variable(dims=list[str:'rows'], "
                                  "data=list[int:92000, int:92000], attrs=dict{str:'units': "
                                  "str:'dB'}), str:'invalid_line_flag': "
                                  "Variable(dims=list[str:'rows'], data=list[bool:True, "
                                  'bool:False], attrs=dict{}), '
                                  "str:'elevation_angle_at_nadir_of_antenna': "
                                  "Variable(dims=list[str:'rows'], "
                                  "data=list[dict{str:'electronic': tuple[int:100000, "
                                  "dict{str:'units': str:'deg'}], str:'mechanic': "
                                  "tuple[int:104000, dict{str:'units': str:'deg'}]}, "
                                  "dict{str:'electronic': tuple[int:100000, dict{str:'units': "
                                  "str:'deg'}], str:'mechanic': tuple[int:104000, "
                                  "dict{str:'units': str:'deg'}]}], attrs=dict{}), "
                                  "str:'antenna_squint_angle': Variable(dims=list[str:'rows'], "
                                  "data=list[dict{str:'electronic': tuple[int:108000, "
                                  "dict{str:'units': str:'deg'}], str:'mechanic': "
                                  "tuple[int:112000, dict{str:'units': str:'deg'}]}, "
                                  "dict{str:'electronic': tuple[int:108000, dict{str:'units': "
                                  "str:'deg'}], str:'mechanic': tuple[int:112000, "
                                  "dict{str:'units': str:'deg'}]}], attrs=dict{}), "
                                  "str:'slant_range_to_first_data_sample': "
                                  "Variable(dims=list[str:'rows'], data=list[int:116000, "
                                  "int:116000], attrs=dict{str:'units': str:'m'}), "
                                  "str:'data_record_window_position': "
                                  "Variable(dims=list[str:'rows'], data=list[int:120000, "
                                  "int:120000], attrs=dict{str:'units': str:'ns'}), "
                                  "str:'platform_latitude': Variable(dims=list[str:'rows'], "
                                  "data=list[float:0.132, float:0.132], attrs=dict{str:'units': "
                                  "str:'deg'}), str:'platform_longitude': "
                                  "Variable(dims=list[str:'rows'], "
                                  'data=list[float:0.13599999999999998, '
                                  "float:0.13599999999999998], attrs=dict{str:'units': "
                                  "str:'deg'}), str:'platform_altitude': "
                                  "Variable(dims=list[str:'rows'], data=list[int:140000, "
                                  "int:140000], attrs=dict{str:'units': str:'deg'}), "
                                  "str:'platform_ground_speed': Variable(dims=list[str:'rows'], "
                                  "data=list[int:144000, int:144000], attrs=dict{str:'units': "
                                  "str:'cm/s'}), str:'platform_velocity': "
                                  "Variable(dims=list[str:'rows'], data=list[dict{str:'x': "
                                  "tuple[int:148000, dict{str:'units': str:'cm/s'}], str:'y': "
                                  "tuple[int:152000, dict{str:'units': str:'cm/s'}], str:'z': "
                                  "tuple[int:156000, dict{str:'units': str:'cm/s'}]}, "
                                  "dict{str:'x': tuple[int:148000, dict{str:'units': str:'cm/s'}], "
                                  "str:'y': tuple[int:152000, dict{str:'units': str:'cm/s'}], "
                                  "str:'z': tuple[int:156000, dict{str:'units': str:'cm/s'}]}], "
                                  "attrs=dict{}), str:'platform_acceleration': "
                                  "Variable(dims=list[str:'rows'], data=list[dict{str:'x': "
                                  "tuple[int:160000, dict{str:'units': str:'cm/s^2'}], str:'y': "
                                  "tuple[int:164000, dict{str:'units': str:'cm/s^2'}], str:'z': "
                                  "tuple[int:168000, dict{str:'units': str:'cm/s^2'}]}, "
                                  "dict{str:'x': tuple[int:160000, dict{str:'units': "
                                  "str:'cm/s^2'}], str:'y': tuple[int:164000, dict{str:'units': "
                                  "str:'cm/s^2'}], str:'z': tuple[int:168000, dict{str:'units': "
                                  "str:'cm/s^2'}]}], attrs=dict{}), str:'platform_track_angle': "
                                  "Variable(dims=list[str:'rows'], data=list[float:0.172, "
                                  "float:0.172], attrs=dict{str:'units': str:'deg'}), "
                                  "str:'platform_true_track_angle': "
                                  "Variable(dims=list[str:'rows'], data=list[float:0.176, "
                                  "float:0.176], attrs=dict{str:'units': str:'deg'}), "
                                  "str:'platform_attitude': Variable(dims=list[str:'rows'], "
                                  "data=list[dict{str:'pitch': tuple[float:0.18, dict{str:'units': "
                                  "str:'deg'}], str:'roll': tuple[float:0.184, dict{str:'units': "
                                  "str:'deg'}], str:'yaw': tuple[float:0.188, dict{str:'units': "
                                  "str:'deg'}]}, dict{str:'pitch': tuple[float:0.18, "
                                  "dict{str:'units': str:'deg'}], str:'roll': tuple[float:0.184, "
                                  "dict{str:'units': str:'deg'}], str:'yaw': tuple[float:0.188, "
                                  "dict{str:'units': str:'deg'}]}], attrs=dict{}), "
                                  "str:'latitude_of_first_pixel': Variable(dims=list[str:'rows'], "
                                  "data=list[float:0.192, float:0.192], attrs=dict{str:'units': "
                                  "str:'deg'}), str:'latitude_of_center_pixel': "
                                  "Variable(dims=list[str:'rows'], "
                                  'data=list[float:0.19599999999999998, '
                                  "float:0.19599999999999998], attrs=dict{str:'units': "
                                  "str:'deg'}), str:'latitude_of_last_pixel': "
                                  "Variable(dims=list[str:'rows'], "
                                  'data=list[float:0.19999999999999998, '
                                  "float:0.19999999999999998], attrs=dict{str:'units': "
                                  "str:'deg'}), str:'longitude_of_first_pixel': "
                                  "Variable(dims=list[str:'rows'], data=list[float:0.204, "
                                  "float:0.204], attrs=dict{str:'units': str:'deg'}), "
                                  "str:'longitude_of_center_pixel': "
                                  "Variable(dims=list[str:'rows'], data=list[float:0.208, "
                                  "float:0.208], attrs=dict{str:'units': str:'deg'}), "
                                  "str:'longitude_of_last_pixel': Variable(dims=list[str:'rows'], "
                                  "data=list[float:0.212, float:0.212], attrs=dict{str:'units': "
                                  "str:'deg'}), str:'burst_number': "
                                  "Variable(dims=list[str:'rows'], data=list[int:216000, "
                                  "int:216000], attrs=dict{}), str:'line_number_in_this_burst': "
                                  "Variable(dims=list[str:'rows'], data=list[int:220000, "
                                  'int:220000], attrs=dict{})}, '
                                  "attrs=dict{str:'sar_image_data_record_index': int:1, "
                                  "str:'sensor_parameters_update_flag': int:1, "
                                  "str:'sar_channel_id': str:'dual_polarization', "
                                  "str:'sar_channel_code': str:'L', "
                                  "str:'transmitted_pulse_polarization': str:'horizontal', "
                                  "str:'received_pulse_polarization': str:'vertical', "
                                  "str:'scan_id': int:7, str:'onboard_range_compressed_flag': "
                                  "bool:True, str:'chirp_type_designator': str:'linear_fm_chirp', "
                                  "str:'platform_position_parameters_update_flag': str:'update'})",
 'single signal data record': "Group(path='/', url=None, data=dict{str:'rows': "
                              "Variable(dims=list[str:'rows'], data=list[int:1], attrs=dict{}), "
                              "str:'sensor_acquisition_date': Variable(dims=list[str:'rows'], "
                              'data=ndarray[datetime64[ns], (1,)][1586435400123000000], '
                              "attrs=dict{}), str:'prf': Variable(dims=list[str:'rows'], "
                              "data=list[int:2000001], attrs=dict{str:'units': str:'mHz'}), "
                              "str:'chirp_length': Variable(dims=list[str:'rows'], "
                              "data=list[int:10], attrs=dict{str:'units': str:'ns'}), "
                              "str:'chirp_constant_coefficient': Variable(dims=list[str:'rows'], "
                              "data=list[int:20], attrs=dict{str:'units': str:'Hz'}), "
                              "str:'chirp_linear_coefficient': Variable(dims=list[str:'rows'], "
                              "data=list[int:30], attrs=dict{str:'units': str:'Hz/µs'}), "
                              "str:'chirp_quadratic_coefficient': Variable(dims=list[str:'rows'], "
                              "data=list[int:40], attrs=dict{str:'units': str:'Hz/µs^2'}), "
                              "str:'sensor_acquisition_date_microseconds': "
                              "Variable(dims=list[str:'rows'], data=ndarray[datetime64[ns], "
                              "(1,)][1586435400123017000], attrs=dict{}), str:'receiver_gain': "
                              "Variable(dims=list[str:'rows'], data=list[int:92001], "
                              "attrs=dict{str:'units': str:'dB'}), str:'invalid_line_flag': "
                              "Variable(dims=list[str:'rows'], data=list[bool:True], "
                              "attrs=dict{}), str:'elevation_angle_at_nadir_of_antenna': "
                              "Variable(dims=list[str:'rows'], data=list[dict{str:'electronic': "
                              "tuple[int:100001, dict{str:'units': str:'deg'}], str:'mechanic': "
                              "tuple[int:104001, dict{str:'units': str:'deg'}]}], attrs=dict{}), "
                              "str:'antenna_squint_angle': Variable(dims=list[str:'rows'], "
                              "data=list[dict{str:'electronic': tuple[int:108001, "
                              "dict{str:'units': str:'deg'}], str:'mechanic': tuple[int:112001, "
                              "dict{str:'units': str:'deg'}]}], attrs=dict{}), "
                              "str:'slant_range_to_first_data_sample': "
                              "Variable(dims=list[str:'rows'], data=list[int:116001], "
                              "attrs=dict{str:'units': str:'m'}), "
                              "str:'data_record_window_position': Variable(dims=list[str:'rows'], "
                              "data=list[int:120001], attrs=dict{str:'units': str:'ns'}), "
                              "str:'platform_latitude': Variable(dims=list[str:'rows'], "
                              "data=list[float:0.132001], attrs=dict{str:'units': str:'deg'}), "
                              "str:'platform_longitude': Variable(dims=list[str:'rows'], "
                              "data=list[float:0.13600099999999998], attrs=dict{str:'units': "
                              "str:'deg'}), str:'platform_altitude': "
                              "Variable(dims=list[str:'rows'], data=list[int:140001], "
                              "attrs=dict{str:'units': str:'deg'}), str:'platform_ground_speed': "
                              "Variable(dims=list[str:'rows'], data=list[int:144001], "
                              "attrs=dict{str:'units': str:'cm/s'}), str:'platform_velocity': "
                              "Variable(dims=list[str:'rows'], data=list[dict{str:'x': "
                              "tuple[int:148001, dict{str:'units': str:'cm/s'}], str:'y': "
                              "tuple[int:152001, dict{str:'units': str:'cm/s'}], str:'z': "
                              "tuple[int:156001, dict{str:'units': str:'cm/s'}]}], attrs=dict{}), "
                              "str:'platform_acceleration': Variable(dims=list[str:'rows'], "
                              "data=list[dict{str:'x': tuple[int:160001, dict{str:'units': "
                              "str:'cm/s^2'}], str:'y': tuple[int:164001, dict{str:'units': "
                              "str:'cm/s^2'}], str:'z': tuple[int:168001, dict{str:'units': "
                              "str:'cm/s^2'}]}], attrs=dict{}), str:'platform_track_angle': "
                              "Variable(dims=list[str:'rows'], data=list[float:0.172001], "
                              "attrs=dict{str:'units': str:'deg'}), "
                              "str:'platform_true_track_angle': Variable(dims=list[str:'rows'], "
                              "data=list[float:0.176001], attrs=dict{str:'units': str:'deg'}), "
                              "str:'platform_attitude': Variable(dims=list[str:'rows'], "
                              "data=list[dict{str:'pitch': tuple[float:0.180001, dict{str:'units': "
                              "str:'deg'}], str:'roll': tuple[float:0.184001, dict{str:'units': "
                              "str:'deg'}], str:'yaw': tuple[float:0.188001, dict{str:'units': "
                              "str:'deg'}]}], attrs=dict{}), str:'latitude_of_first_pixel': "
                              "Variable(dims=list[str:'rows'], data=list[float:0.192001], "
                              "attrs=dict{str:'units': str:'deg'}), "
                              "str:'latitude_of_center_pixel': Variable(dims=list[str:'rows'], "
                              "data=list[float:0.19600099999999998], attrs=dict{str:'units': "
                              "str:'deg'}), str:'latitude_of_last_pixel': "
                              "Variable(dims=list[str:'rows'], "
                              "data=list[float:0.20000099999999998], attrs=dict{str:'units': "
                              "str:'deg'}), str:'longitude_of_first_pixel': "
                              "Variable(dims=list[str:'rows'], data=list[float:0.204001], "
                              "attrs=dict{str:'units': str:'deg'}), "
                              "str:'longitude_of_center_pixel': Variable(dims=list[str:'rows'], "
                              "data=list[float:0.208001], attrs=dict{str:'units': str:'deg'}), "
                              "str:'longitude_of_last_pixel': Variable(dims=list[str:'rows'], "
                              "data=list[float:0.212001], attrs=dict{str:'units': str:'deg'}), "
                              "str:'burst_number': Variable(dims=list[str:'rows'], "
                              'data=list[int:216001], attrs=dict{}), '
                              "str:'line_number_in_this_burst': Variable(dims=list[str:'rows'], "
                              'data=list[int:220001], attrs=dict{})}, '
                              "attrs=dict{str:'sar_image_data_record_index': int:1, "
                              "str:'sensor_parameters_update_flag': int:1, str:'sar_channel_id': "
                              "str:'dual_polarization', str:'sar_channel_code': str:'L', "
                              "str:'transmitted_pulse_polarization': str:'horizontal', "
                              "str:'received_pulse_polarization': str:'vertical', str:'scan_id': "
                              "int:7, str:'onboard_range_compressed_flag': bool:True, "
                              "str:'chirp_type_designator': str:'linear_fm_chirp', "
                              "str:'platform_position_parameters_update_flag': str:'update'})",
 'processed data records': "Group(path='/', url=None, data=dict{str:'rows': "
                           "Variable(dims=list[str:'rows'], data=list[int:2, int:4, int:6], "
                           "attrs=dict{}), str:'sensor_acquisition_date': "
                           "Variable(dims=list[str:'rows'], data=ndarray[datetime64[ns], "
                           '(3,)][1577836799999000000, 1577836799999000000, 1577836799999000000], '
                           "attrs=dict{}), str:'prf': Variable(dims=list[str:'rows'], "
                           'data=list[int:1500000, int:1500000, int:1500000], '
                           "attrs=dict{str:'units': str:'mHz'}), str:'slant_range_to_first_pixel': "
                           "Variable(dims=list[str:'rows'], data=list[int:6401, int:6402, "
                           "int:6403], attrs=dict{str:'units': str:'m'}), "
                           "str:'slant_range_to_mid_pixel': Variable(dims=list[str:'rows'], "
                           "data=list[int:6801, int:6802, int:6803], attrs=dict{str:'units': "
                           "str:'m'}), str:'slant_range_to_last_pixel': "
                           "Variable(dims=list[str:'rows'], data=list[int:7201, int:7202, "
                           "int:7203], attrs=dict{str:'units': str:'m'}), "
                           "str:'doppler_centroid_value_at_first_pixel': "
                           "Variable(dims=list[str:'rows'], data=list[float:7.601, float:7.602, "
                           "float:7.603], attrs=dict{str:'units': str:'Hz'}), "
                           "str:'doppler_centroid_value_at_mid_pixel': "
                           "Variable(dims=list[str:'rows'], data=list[float:8.001, float:8.002, "
                           "float:8.003], attrs=dict{str:'units': str:'Hz'}), "
                           "str:'doppler_centroid_value_at_last_pixel': "
                           "Variable(dims=list[str:'rows'], data=list[float:8.401, "
                           "float:8.402000000000001, float:8.403], attrs=dict{str:'units': "
                           "str:'Hz'}), str:'azimuth_fm_rate_of_first_pixel': "
                           "Variable(dims=list[str:'rows'], data=list[int:8801, int:8802, "
                           "int:8803], attrs=dict{str:'units': str:'Hz/ms'}), "
                           "str:'azimuth_fm_rate_of_mid_pixel': Variable(dims=list[str:'rows'], "
                           "data=list[int:9201, int:9202, int:9203], attrs=dict{str:'units': "
                           "str:'Hz/ms'}), str:'azimuth_fm_rate_of_last_pixel': "
                           "Variable(dims=list[str:'rows'], data=list[int:9601, int:9602, "
                           "int:9603], attrs=dict{str:'units': str:'Hz/ms'}), "
                           "str:'look_angle_of_nadir': Variable(dims=list[str:'rows'], "
                           'data=list[float:0.010001, float:0.010001999999999999, float:0.010003], '
                           "attrs=dict{str:'units': str:'deg'}), str:'azimuth_squint_angle': "
                           "Variable(dims=list[str:'rows'], data=list[float:0.010400999999999999, "
                           "float:0.010402, float:0.010402999999999999], attrs=dict{str:'units': "
                           "str:'deg'}), str:'latitude_of_first_pixel': "
                           "Variable(dims=list[str:'rows'], data=list[float:1.320002, "
                           "float:1.320004, float:1.320006], attrs=dict{str:'units': str:'deg'}), "
                           "str:'latitude_of_center_pixel': Variable(dims=list[str:'rows'], "
                           'data=list[float:1.360002, float:1.360004, float:1.360006], '
                           "attrs=dict{str:'units': str:'deg'}), str:'latitude_of_last_pixel': "
                           "Variable(dims=list[str:'rows'], data=list[float:1.400002, "
                           "float:1.400004, float:1.4000059999999999], attrs=dict{str:'units': "
                           "str:'deg'}), str:'longitude_of_first_pixel': "
                           "Variable(dims=list[str:'rows'], data=list[float:1.440002, "
                           "float:1.4400039999999998, float:1.440006], attrs=dict{str:'units': "
                           "str:'deg'}), str:'longitude_of_center_pixel': "
                           "Variable(dims=list[str:'rows'], data=list[float:1.480002, "
                           "float:1.4800039999999999, float:1.480006], attrs=dict{str:'units': "
                           "str:'deg'}), str:'longitude_of_last_pixel': "
                           "Variable(dims=list[str:'rows'], data=list[float:1.5200019999999999, "
                           "float:1.520004, float:1.520006], attrs=dict{str:'units': str:'deg'}), "
                           "str:'northing_of_first_pixel': Variable(dims=list[str:'rows'], "
                           'data=list[int:1560002, int:1560004, int:1560006], '
                           "attrs=dict{str:'units': str:'m'}), str:'northing_of_last_pixel': "
                           "Variable(dims=list[str:'rows'], data=list[int:1640002, int:1640004, "
                           "int:1640006], attrs=dict{str:'units': str:'m'}), "
                           "str:'easting_of_first_pixel': Variable(dims=list[str:'rows'], "
                           'data=list[int:1680002, int:1680004, int:1680006], '
                           "attrs=dict{str:'units': str:'m'}), str:'easting_of_last_pixel': "
                           "Variable(dims=list[str:'rows'], data=list[int:1760002, int:1760004, "
                           "int:1760006], attrs=dict{str:'units': str:'m'}), str:'line_heading': "
                           "Variable(dims=list[str:'rows'], data=list[float:1.8000019999999999, "
                           "float:1.800004, float:1.800006], attrs=dict{str:'units': str:'deg'})}, "
                           "attrs=dict{str:'sar_image_data_record_index': int:1, "
                           "str:'sensor_parameters_update_flag': int:0, str:'sar_channel_id': "
                           "str:'single_polarization', str:'sar_channel_code': str:'L', "
                           "str:'transmitted_pulse_polarization': str:'vertical', "
                           "str:'received_pulse_polarization': str:'vertical', str:'scan_id': "
                           "int:0, str:'geographic_reference_parameter_update_flag': int:1})"}
# END EXPECTED


def test_equivalence():
    results = run_cases()
    assert list(results) == list(EXPECTED)
    for name, actual in results.items():
        assert actual == EXPECTED[name], (name, actual, EXPECTED[name])

    check_fresh_results()


if __name__ == "__main__":
    if "--record" in sys.argv:
        print(repr(run_cases()))
    else:
        test_equivalence()
        print(f"ok: {len(EXPECTED)} cases")
