"""Equivalence check for refactoring 4: ``ceos_alos2.sar_image.io.read_metadata``.

Run as::

    cd /tmp/wt9/e71 && PYTHONPATH=/tmp/wt9/e71 /venv/bin/python _eq/4/equiv.py

(or through pytest). ``EXPECTED`` was recorded from the unchanged code with
``python _eq/4/equiv.py --record``; the script has to pass with and without the patch.
"""

import hashlib
import inspect
import io
import pprint
import struct
import sys

import fsspec
import numpy as np
from construct import Int8ub, Seek, Struct, Tell, this

import ceos_alos2.sar_image.io as sio

LOG = []


# --------------------------------------------------------------------------- helpers
def describe_exception(exc):
    if exc is None:
        return None
    return {
        "type": f"{type(exc).__module__}.{type(exc).__qualname__}",
        "message": str(exc),
        "args": repr(exc.args),
        "cause": describe_exception(exc.__cause__),
        "context": describe_exception(exc.__context__),
        "suppress_context": exc.__suppress_context__,
    }


def typed(obj):
    """repr that also shows container / scalar types"""
    if isinstance(obj, dict):
        return {"dict": [(k, typed(v)) for k, v in obj.items()]}
    if isinstance(obj, (list, tuple)):
        return {type(obj).__name__: [typed(v) for v in obj]}
    return f"{type(obj).__name__}:{obj!r}"


def compact(value, limit=400):
    text = repr(value)
    if len(text) <= limit:
        return text
    return f"sha256:{hashlib.sha256(text.encode()).hexdigest()} len={len(text)}"


class LoggedFile:
    """file-like object offering nothing but a logged ``read``"""

    def __init__(self, content):
        self._f = io.BytesIO(content)

    def read(self, size=-1):
        position = self._f.tell()
        data = self._f.read(size)
        LOG.append(("read", position, size, len(data)))
        return data


def outcome(content, *args, **kwargs):
    LOG.clear()
    f = content if hasattr(content, "read") else LoggedFile(content)
    try:
        result = sio.read_metadata(f, *args, **kwargs)
    except BaseException as e:  # noqa: B902
        out = {"raised": compact(describe_exception(e), limit=1500)}
    else:
        header, metadata = result
        out = {
            "result_type": type(result).__name__,
            "header": compact(typed(header)),
            "metadata": compact(typed(metadata)),
            "n": len(metadata),
            "positions": compact(
                [
                    (m.get("record_start"), m["data"].get("start"), m["data"].get("stop"))
                    for m in metadata
                    if isinstance(m, dict) and isinstance(m.get("data"), dict)
                ],
                limit=1200,
            ),
        }
    out["log"] = compact(list(LOG), limit=1200)
    LOG.clear()
    return out


def make_record(kind, seq, length, *, line=1, year=2020, day=170, ms=1234, type_code=None, declared=None):
    prefix = {10: 544, 11: 192}[kind]
    buf = bytearray(max(length, prefix))
    buf[0:4] = struct.pack(">I", seq)
    buf[4] = 50
    buf[5] = kind if type_code is None else type_code
    buf[6] = 18
    buf[7] = 20
    buf[8:12] = struct.pack(">I", length if declared is None else declared)
    buf[12:16] = struct.pack(">I", line)
    buf[16:20] = struct.pack(">I", 1)
    buf[36:48] = struct.pack(">III", year, day, ms + seq)
    buf[48:50] = struct.pack(">H", 2)
    buf[52:56] = struct.pack(">HH", 0, 1)
    buf[56:60] = struct.pack(">I", 2_000_000 + seq)
    buf[60:64] = struct.pack(">I", 3)
    if kind == 10:
        buf[84:92] = struct.pack(">Q", 1_000_000 * seq + 17)
        buf[284:288] = struct.pack(">I", 700)
    else:
        buf[64:68] = struct.pack(">I", 750_000 + seq)
    for index in range(prefix, len(buf)):
        buf[index] = (index * 7 + seq) % 251
    return bytes(buf)


def make_descriptor(n_records, record_length, *, type_code="IU2", lines=1, groups=4):
    buf = bytearray(b" " * 720)
    buf[0:12] = struct.pack(">IBBBBI", 1, 50, 192, 18, 18, 720)

    def put(offset, width, value):
        buf[offset : offset + width] = str(value).rjust(width).encode()

    put(180, 6, n_records)
    put(186, 6, record_length)
    put(232, 4, 1)
    put(236, 8, lines)
    put(248, 8, groups)
    buf[268:272] = b"BSQ "
    buf[428:432] = type_code.ljust(4).encode()
    return bytes(buf)


def make_image(kind, n, record_length, *, declared_n=None, declared_length=None, **kwargs):
    descriptor = make_descriptor(
        n if declared_n is None else declared_n,
        record_length if declared_length is None else declared_length,
    )
    records = [make_record(kind, i + 1, record_length, line=i + 1, **kwargs) for i in range(n)]
    return descriptor + b"".join(records)


class Patched:
    def __init__(self, name, value):
        self.name, self.value = name, value

    def __enter__(self):
        self.old = getattr(sio, self.name)
        setattr(sio, self.name, self.value)

    def __exit__(self, *exc_info):
        setattr(sio, self.name, self.old)
        return False


# --------------------------------------------------------------------------- cases
def run():
    results = {}

    slc = make_image(10, 7, 576)
    grd = make_image(11, 10, 204)

    chunkings = [1, 2, 3, 4, 5, 6, 7, 8, 9, 10, 11, 64, 1024, 4096, 10**9]
    for rpc in chunkings:
        results[f"slc-rpc{rpc}"] = outcome(slc, rpc)
        results[f"grd-rpc{rpc}"] = outcome(grd, records_per_chunk=rpc)
    results["slc-default"] = outcome(slc)
    results["grd-default"] = outcome(grd)
    results["one-record"] = outcome(make_image(11, 1, 204), 1)
    results["one-record-rpc2"] = outcome(make_image(11, 1, 204), 2)
    results["no-data-part"] = outcome(make_image(11, 3, 192), 2)
    results["trailing-garbage"] = outcome(grd + b"\xff" * 500, 4)

    # unusual chunk sizes
    for name, rpc in {
        "zero": 0,
        "minus1": -1,
        "minus3": -3,
        "minus100": -100,
        "none": None,
        "str": "auto",
        "float": 2.5,
        "float-integral": 5.0,
        "inf": float("inf"),
        "nan": float("nan"),
        "true": True,
        "false": False,
        "np-int": np.int64(3),
        "np-uint8": np.uint8(3),
        "list": [3],
    }.items():
        results[f"rpc-{name}"] = outcome(grd, rpc)
        results[f"rpc-{name}-empty-image"] = outcome(make_image(11, 0, 204), rpc)

    # descriptor fields
    results["no-records"] = outcome(make_image(11, 0, 204), 2)
    results["no-records-default"] = outcome(make_image(11, 0, 204))
    results["blank-count"] = outcome(make_image(11, 3, 204, declared_n=""), 2)
    results["blank-count-rpc-1"] = outcome(make_image(11, 3, 204, declared_n=""), 1)
    results["blank-length"] = outcome(make_image(11, 3, 204, declared_length=""), 2)
    results["blank-length-no-records"] = outcome(make_image(11, 0, 204, declared_length=""), 2)
    results["zero-length"] = outcome(make_image(11, 3, 204, declared_length=0), 2)
    results["count-too-small"] = outcome(make_image(11, 5, 204, declared_n=3), 2)
    results["count-too-large"] = outcome(make_image(11, 5, 204, declared_n=8), 2)
    results["count-too-large-rpc3"] = outcome(make_image(11, 5, 204, declared_n=8), 3)
    results["count-too-large-partial"] = outcome(make_image(11, 5, 204, declared_n=8)[:-10], 2)
    results["count-too-large-one-chunk"] = outcome(make_image(11, 5, 204, declared_n=8), 100)
    results["length-too-small"] = outcome(make_image(11, 4, 204, declared_length=200), 2)
    results["length-too-large"] = outcome(make_image(11, 4, 204, declared_length=408), 2)
    results["length-half"] = outcome(make_image(11, 4, 204, declared_length=102), 2)
    results["record-declares-other-length"] = outcome(make_image(11, 4, 204, declared=200), 2)
    results["record-declares-larger-length"] = outcome(make_image(11, 4, 204, declared=250), 2)
    results["nondigit-count"] = outcome(slc[:180] + b"12x   " + slc[186:], 2)
    results["truncated-descriptor"] = outcome(slc[:500], 2)
    results["empty-file"] = outcome(b"", 2)
    results["descriptor-only"] = outcome(slc[:720], 2)

    # record problems: which chunk fails, how far has been read
    bad_type = (
        make_descriptor(6, 204)
        + b"".join(make_record(11, i + 1, 204) for i in range(3))
        + make_record(11, 4, 204, type_code=42)
        + b"".join(make_record(11, i + 5, 204) for i in range(2))
    )
    for rpc in (1, 2, 3, 4, 6):
        results[f"bad-type-4th-rpc{rpc}"] = outcome(bad_type, rpc)
    bad_year = (
        make_descriptor(5, 204)
        + b"".join(make_record(11, i + 1, 204) for i in range(4))
        + make_record(11, 5, 204, year=0)
    )
    for rpc in (1, 2, 5):
        results[f"bad-year-5th-rpc{rpc}"] = outcome(bad_year, rpc)
    mixed = make_descriptor(4, 576) + b"".join(
        make_record(kind, i + 1, 576) for i, kind in enumerate([10, 10, 11, 11])
    )
    for rpc in (1, 2, 3, 4):
        results[f"mixed-kinds-rpc{rpc}"] = outcome(mixed, rpc)
    results["truncated-last-record"] = outcome(grd[:-1], 3)
    results["truncated-mid-chunk"] = outcome(grd[: 720 + 204 * 4 + 17], 3)
    results["truncated-at-chunk-border"] = outcome(grd[: 720 + 204 * 6], 3)

    # file objects
    results["bytesio"] = outcome(io.BytesIO(grd), 4)
    fs = fsspec.filesystem("memory")
    fs.pipe("/eq4/image", grd)
    with fs.open("/eq4/image", mode="rb") as f:
        results["memory-file"] = outcome(f, 4)
        results["memory-file-position"] = f.tell()
    fs.rm("/eq4/image")
    prepositioned = LoggedFile(b"junk" + grd)
    prepositioned._f.seek(4)
    results["prepositioned"] = outcome(prepositioned, 4)
    results["no-read-method"] = outcome_no_read(grd)

    class ShortReads(LoggedFile):
        def read(self, size=-1):
            return super().read(min(size, 300) if size >= 0 else size)

    results["short-reads"] = outcome(ShortReads(grd), 1)
    results["short-reads-rpc2"] = outcome(ShortReads(make_image(11, 4, 100 + 192)), 2)

    # module globals are looked up at call time (the suite monkeypatches them)
    dummy_header = {"number_of_sar_data_records": 3, "sar_data_record_length": 17}
    content = b"\x03\x0e" + b"".join(
        struct.pack(">IBBBBI", n, 0, 11, 0, 0, 17) + bytes([n + 2, 0, 0, 0, 0]) for n in (1, 2, 3)
    )
    dummy_record_types = {
        11: Struct(
            "preamble" / sio.record_preamble,
            "record_start" / Tell,
            "a" / Int8ub,
            "data" / Struct("start" / Tell, "stop" / Seek(this.start + 4)),
        ),
    }

    def dummy_descriptor(header):
        def read_file_descriptor(f):
            LOG.append(("read_file_descriptor",))
            f.read(2)
            return header

        return read_file_descriptor

    with Patched("record_types", dummy_record_types):
        for rpc in (1, 2, 3, 4):
            with Patched("read_file_descriptor", dummy_descriptor(dummy_header)):
                results[f"suite-rpc{rpc}"] = outcome(content, records_per_chunk=rpc)
        headers = {
            "empty": {},
            "no-length": {"number_of_sar_data_records": 3},
            "no-count": {"sar_data_record_length": 17},
            "none": None,
            "count-none": {"number_of_sar_data_records": None, "sar_data_record_length": 17},
            "length-none": {"number_of_sar_data_records": 3, "sar_data_record_length": None},
            "length-none-no-records": {"number_of_sar_data_records": 0, "sar_data_record_length": None},
            "length-none-negative": {"number_of_sar_data_records": -1, "sar_data_record_length": None},
            "length-str": {"number_of_sar_data_records": 3, "sar_data_record_length": "17"},
            "length-str-no-records": {"number_of_sar_data_records": 0, "sar_data_record_length": "17"},
            "length-float": {"number_of_sar_data_records": 3, "sar_data_record_length": 17.0},
            "count-float": {"number_of_sar_data_records": 3.0, "sar_data_record_length": 17},
            "count-fraction": {"number_of_sar_data_records": 2.5, "sar_data_record_length": 17},
            "count-nan": {"number_of_sar_data_records": float("nan"), "sar_data_record_length": 17},
            "count-inf": {"number_of_sar_data_records": float("inf"), "sar_data_record_length": 17},
            "count-str": {"number_of_sar_data_records": "3", "sar_data_record_length": 17},
            "extra-keys": dummy_header | {"_io": "dropped", "nested": {"_io": 1, "x": (1, 2)}},
        }
        for name, header in headers.items():
            for rpc in (2, 1024):
                with Patched("read_file_descriptor", dummy_descriptor(header)):
                    results[f"header-{name}-rpc{rpc}"] = outcome(content, rpc)

        # interleaving of reading, parsing and offset adjustment
        original_parse, original_adjust = sio.parse_chunk, sio.adjust_offsets

        def parse_chunk(*args, **kwargs):
            LOG.append(("parse_chunk", len(args[0]), args[1:], kwargs))
            return original_parse(*args, **kwargs)

        def adjust_offsets(*args, **kwargs):
            size = len(args[0]) if hasattr(args[0], "__len__") else type(args[0]).__name__
            LOG.append(("adjust_offsets", size, args[1:], kwargs))
            return original_adjust(*args, **kwargs)

        def failing_adjust(*args, **kwargs):
            LOG.append(("adjust_offsets", len(args[0]), args[1:], kwargs))
            if kwargs.get("offset", 0) > 720:
                raise RuntimeError("second chunk")
            return original_adjust(*args, **kwargs)

        def parse_returns_generator(*args, **kwargs):
            LOG.append(("parse_chunk", len(args[0]), args[1:], kwargs))
            return iter(original_parse(*args, **kwargs))

        with Patched("read_file_descriptor", dummy_descriptor(dummy_header)), Patched(
            "parse_chunk", parse_chunk
        ):
            with Patched("adjust_offsets", adjust_offsets):
                for rpc in (1, 2, 3):
                    results[f"interleaving-rpc{rpc}"] = outcome(content, rpc)
                results["interleaving-truncated"] = outcome(content[:-3], 2)
            with Patched("adjust_offsets", failing_adjust):
                results["interleaving-adjust-fails"] = outcome(content, 1)
        with Patched("read_file_descriptor", dummy_descriptor(dummy_header)), Patched(
            "parse_chunk", parse_returns_generator
        ), Patched("adjust_offsets", adjust_offsets):
            results["parse-returns-iterator"] = outcome(content, 2)

        def raising_descriptor(f):
            LOG.append(("read_file_descriptor",))
            raise OSError("descriptor")

        with Patched("read_file_descriptor", raising_descriptor):
            results["descriptor-raises"] = outcome(content, 2)

    # the real descriptor reader on its own
    LOG.clear()
    descriptor = sio.read_file_descriptor(LoggedFile(slc))
    results["read_file_descriptor"] = {
        "log": list(LOG),
        "type": type(descriptor).__name__,
        "count": descriptor.number_of_sar_data_records,
        "length": descriptor.sar_data_record_length,
    }
    LOG.clear()

    results["signatures"] = {
        name: str(inspect.signature(getattr(sio, name)))
        for name in ("read_metadata", "read_file_descriptor", "parse_chunk", "adjust_offsets")
    }
    results["public-names"] = sorted(
        name
        for name in (
            "parse_chunk",
            "record_types",
            "record_preamble",
            "adjust_offsets",
            "read_file_descriptor",
            "read_metadata",
            "concat",
            "to_dict",
            "itertools",
            "math",
            "signal_data_record",
            "processed_data_record",
            "file_descriptor_record",
        )
        if hasattr(sio, name)
    )
    return results


def outcome_no_read(content):
    class Nothing:
        pass

    LOG.clear()
    try:
        sio.read_metadata(Nothing(), 2)
    except BaseException as e:  # noqa: B902
        return {"raised": compact(describe_exception(e), limit=1500)}
    return {"returned": True}


EXPECTED = None  # filled in below by --record


def test_equivalence():
    assert sio.__file__.startswith("/tmp/wt9/e71/"), sio.__file__
    actual = run()
    assert sorted(actual) == sorted(EXPECTED)
    for name in EXPECTED:
        assert actual[name] == EXPECTED[name], (
            f"{name}:\n{pprint.pformat(actual[name])}\n!=\n{pprint.pformat(EXPECTED[name])}"
        )


# EXPECTED-BEGIN
EXPECTED = {'bad-type-4th-rpc1': {'log': "[('read', 0, 720, 720), ('read', 720, 204, 204), ('read', 924, 204, "
                              "204), ('read', 1128, 204, 204), ('read', 1332, 204, 204)]",
                       'raised': "{'type': 'builtins.ValueError', 'message': 'unknown record type "
                                 'code: 42\', \'args\': "(\'unknown record type code: 42\',)", '
                                 "'cause': None, 'context': None, 'suppress_context': False}"},
 'bad-type-4th-rpc2': {'header': 'sha256:a8fbec418a11bef3fa07ca391635b227630615649739910292390c36ffdb68ec '
                                 'len=3143',
                       'log': "[('read', 0, 720, 720), ('read', 720, 408, 408), ('read', 1128, "
                              "408, 408), ('read', 1536, 408, 408)]",
                       'metadata': 'sha256:92b2069caf417acec1d75eadc6b3932be2f75250a7a1c5ca74b3280ef555eaca '
                                   'len=18930',
                       'n': 6,
                       'positions': '[(720, 912, 924), (924, 1116, 1128), (1128, 1320, 1332), '
                                    '(1332, 1524, 1536), (1536, 1728, 1740), (1740, 1932, 1944)]',
                       'result_type': 'tuple'},
 'bad-type-4th-rpc3': {'log': "[('read', 0, 720, 720), ('read', 720, 612, 612), ('read', 1332, "
                              '612, 612)]',
                       'raised': "{'type': 'builtins.ValueError', 'message': 'unknown record type "
                                 'code: 42\', \'args\': "(\'unknown record type code: 42\',)", '
                                 "'cause': None, 'context': None, 'suppress_context': False}"},
 'bad-type-4th-rpc4': {'header': 'sha256:a8fbec418a11bef3fa07ca391635b227630615649739910292390c36ffdb68ec '
                                 'len=3143',
                       'log': "[('read', 0, 720, 720), ('read', 720, 816, 816), ('read', 1536, "
                              '408, 408)]',
                       'metadata': 'sha256:92b2069caf417acec1d75eadc6b3932be2f75250a7a1c5ca74b3280ef555eaca '
                                   'len=18930',
                       'n': 6,
                       'positions': '[(720, 912, 924), (924, 1116, 1128), (1128, 1320, 1332), '
                                    '(1332, 1524, 1536), (1536, 1728, 1740), (1740, 1932, 1944)]',
                       'result_type': 'tuple'},
 'bad-type-4th-rpc6': {'header': 'sha256:a8fbec418a11bef3fa07ca391635b227630615649739910292390c36ffdb68ec '
                                 'len=3143',
                       'log': "[('read', 0, 720, 720), ('read', 720, 1224, 1224)]",
                       'metadata': 'sha256:92b2069caf417acec1d75eadc6b3932be2f75250a7a1c5ca74b3280ef555eaca '
                                   'len=18930',
                       'n': 6,
                       'positions': '[(720, 912, 924), (924, 1116, 1128), (1128, 1320, 1332), '
                                    '(1332, 1524, 1536), (1536, 1728, 1740), (1740, 1932, 1944)]',
                       'result_type': 'tuple'},
 'bad-year-5th-rpc1': {'log': "[('read', 0, 720, 720), ('read', 720, 204, 204), ('read', 924, 204, "
                              "204), ('read', 1128, 204, 204), ('read', 1332, 204, 204), ('read', "
                              '1536, 204, 204)]',
                       'raised': "{'type': 'builtins.ValueError', 'message': 'year 0 is out of "
                                 'range\', \'args\': "(\'year 0 is out of range\',)", \'cause\': '
                                 "None, 'context': None, 'suppress_context': False}"},
 'bad-year-5th-rpc2': {'log': "[('read', 0, 720, 720), ('read', 720, 408, 408), ('read', 1128, "
                              "408, 408), ('read', 1536, 204, 204)]",
                       'raised': "{'type': 'builtins.ValueError', 'message': 'year 0 is out of "
                                 'range\', \'args\': "(\'year 0 is out of range\',)", \'cause\': '
                                 "None, 'context': None, 'suppress_context': False}"},
 'bad-year-5th-rpc5': {'log': "[('read', 0, 720, 720), ('read', 720, 1020, 1020)]",
                       'raised': "{'type': 'builtins.ValueError', 'message': 'year 0 is out of "
                                 'range\', \'args\': "(\'year 0 is out of range\',)", \'cause\': '
                                 "None, 'context': None, 'suppress_context': False}"},
 'blank-count': {'header': 'sha256:b5f32f29ecfb475094c0ccf1626b18b05f766e02d71fe80274dccef538380ff3 '
                           'len=3144',
                 'log': "[('read', 0, 720, 720)]",
                 'metadata': "{'list': []}",
                 'n': 0,
                 'positions': '[]',
                 'result_type': 'tuple'},
 'blank-count-rpc-1': {'header': 'sha256:b5f32f29ecfb475094c0ccf1626b18b05f766e02d71fe80274dccef538380ff3 '
                                 'len=3144',
                       'log': "[('read', 0, 720, 720)]",
                       'metadata': "{'list': []}",
                       'n': 0,
                       'positions': '[]',
                       'result_type': 'tuple'},
 'blank-length': {'log': "[('read', 0, 720, 720), ('read', 720, -2, 612)]",
                  'raised': "{'type': 'construct.core.RangeError', 'message': 'Error in path "
                            '(parsing)\\ninvalid count -612\', \'args\': "(\'Error in path '
                            '(parsing)\\\\ninvalid count -612\',)", \'cause\': None, \'context\': '
                            "None, 'suppress_context': False}"},
 'blank-length-no-records': {'header': 'sha256:a5ab325167629b8bb0e9935d2f1c8eba8590522390b99455ad075dd9b7299909 '
                                       'len=3142',
                             'log': "[('read', 0, 720, 720)]",
                             'metadata': "{'list': []}",
                             'n': 0,
                             'positions': '[]',
                             'result_type': 'tuple'},
 'bytesio': {'header': 'sha256:e3d59bfaca2ead7c0b7b35a560fcd878d9c7a725c1bfb88c14c6f047392b10e1 '
                       'len=3144',
             'log': '[]',
             'metadata': 'sha256:a4c3f3a1825d8f2493c8809df453d7c444b0c97a389db79881bbf2ad7126e632 '
                         'len=31548',
             'n': 10,
             'positions': '[(720, 912, 924), (924, 1116, 1128), (1128, 1320, 1332), (1332, 1524, '
                          '1536), (1536, 1728, 1740), (1740, 1932, 1944), (1944, 2136, 2148), '
                          '(2148, 2340, 2352), (2352, 2544, 2556), (2556, 2748, 2760)]',
             'result_type': 'tuple'},
 'count-too-large': {'log': "[('read', 0, 720, 720), ('read', 720, 408, 408), ('read', 1128, 408, "
                            "408), ('read', 1536, 408, 204), ('read', 1740, 408, 0)]",
                     'raised': "{'type': 'construct.core.StreamError', 'message': 'Error in path "
                               '(parsing) -> record_sequence_number\\nstream read less than '
                               'specified amount, expected 4, found 0\', \'args\': "(\'Error in '
                               'path (parsing) -> record_sequence_number\\\\nstream read less than '
                               'specified amount, expected 4, found 0\',)", \'cause\': None, '
                               "'context': None, 'suppress_context': False}"},
 'count-too-large-one-chunk': {'header': 'sha256:78cf8606f1b806db1a092e1b0ced0c40dfa8d7bda241ef4ca5c53a2057935fe0 '
                                         'len=3143',
                               'log': "[('read', 0, 720, 720), ('read', 720, 1632, 1020)]",
                               'metadata': 'sha256:ae4e80ac40ac13f1821f6264df9ab694921e52b525b21ae4ce5d1cfeebab1464 '
                                           'len=15776',
                               'n': 5,
                               'positions': '[(720, 912, 924), (924, 1116, 1128), (1128, 1320, '
                                            '1332), (1332, 1524, 1536), (1536, 1728, 1740)]',
                               'result_type': 'tuple'},
 'count-too-large-partial': {'log': "[('read', 0, 720, 720), ('read', 720, 408, 408), ('read', "
                                    "1128, 408, 408), ('read', 1536, 408, 194)]",
                             'raised': "{'type': 'builtins.ValueError', 'message': 'sizes "
                                       "mismatch: chunksize is 0 but got 194 bytes', 'args': "
                                       '"(\'sizes mismatch: chunksize is 0 but got 194 bytes\',)", '
                                       "'cause': None, 'context': None, 'suppress_context': "
                                       'False}'},
 'count-too-large-rpc3': {'log': "[('read', 0, 720, 720), ('read', 720, 612, 612), ('read', 1332, "
                                 "612, 408), ('read', 1740, 408, 0)]",
                          'raised': "{'type': 'construct.core.StreamError', 'message': 'Error in "
                                    'path (parsing) -> record_sequence_number\\nstream read less '
                                    "than specified amount, expected 4, found 0', 'args': "
                                    '"(\'Error in path (parsing) -> '
                                    'record_sequence_number\\\\nstream read less than specified '
                                    'amount, expected 4, found 0\',)", \'cause\': None, '
                                    "'context': None, 'suppress_context': False}"},
 'count-too-small': {'header': 'sha256:45650308c4bb004ccd06c4b0d2ef0230680e298ae305382fbdd78d881cad797c '
                               'len=3143',
                     'log': "[('read', 0, 720, 720), ('read', 720, 408, 408), ('read', 1128, 204, "
                            '204)]',
                     'metadata': 'sha256:d5fdd6b39c3f0d651f92d9479b74198eb864b11b1282b02e24d90926d2cb540a '
                                 'len=9468',
                     'n': 3,
                     'positions': '[(720, 912, 924), (924, 1116, 1128), (1128, 1320, 1332)]',
                     'result_type': 'tuple'},
 'descriptor-only': {'log': "[('read', 0, 720, 720), ('read', 720, 1152, 0)]",
                     'raised': "{'type': 'construct.core.StreamError', 'message': 'Error in path "
                               '(parsing) -> record_sequence_number\\nstream read less than '
                               'specified amount, expected 4, found 0\', \'args\': "(\'Error in '
                               'path (parsing) -> record_sequence_number\\\\nstream read less than '
                               'specified amount, expected 4, found 0\',)", \'cause\': None, '
                               "'context': None, 'suppress_context': False}"},
 'descriptor-raises': {'log': "[('read_file_descriptor',)]",
                       'raised': "{'type': 'builtins.OSError', 'message': 'descriptor', 'args': "
                                 '"(\'descriptor\',)", \'cause\': None, \'context\': None, '
                                 "'suppress_context': False}"},
 'empty-file': {'log': "[('read', 0, 720, 0)]",
                'raised': "{'type': 'construct.core.StreamError', 'message': 'Error in path "
                          '(parsing) -> preamble -> record_sequence_number\\nstream read less than '
                          'specified amount, expected 4, found 0\', \'args\': "(\'Error in path '
                          '(parsing) -> preamble -> record_sequence_number\\\\nstream read less '
                          'than specified amount, expected 4, found 0\',)", \'cause\': None, '
                          "'context': None, 'suppress_context': False}"},
 'grd-default': {'header': 'sha256:e3d59bfaca2ead7c0b7b35a560fcd878d9c7a725c1bfb88c14c6f047392b10e1 '
                           'len=3144',
                 'log': "[('read', 0, 720, 720), ('read', 720, 2040, 2040)]",
                 'metadata': 'sha256:a4c3f3a1825d8f2493c8809df453d7c444b0c97a389db79881bbf2ad7126e632 '
                             'len=31548',
                 'n': 10,
                 'positions': '[(720, 912, 924), (924, 1116, 1128), (1128, 1320, 1332), (1332, '
                              '1524, 1536), (1536, 1728, 1740), (1740, 1932, 1944), (1944, 2136, '
                              '2148), (2148, 2340, 2352), (2352, 2544, 2556), (2556, 2748, 2760)]',
                 'result_type': 'tuple'},
 'grd-rpc1': {'header': 'sha256:e3d59bfaca2ead7c0b7b35a560fcd878d9c7a725c1bfb88c14c6f047392b10e1 '
                        'len=3144',
              'log': "[('read', 0, 720, 720), ('read', 720, 204, 204), ('read', 924, 204, 204), "
                     "('read', 1128, 204, 204), ('read', 1332, 204, 204), ('read', 1536, 204, "
                     "204), ('read', 1740, 204, 204), ('read', 1944, 204, 204), ('read', 2148, "
                     "204, 204), ('read', 2352, 204, 204), ('read', 2556, 204, 204)]",
              'metadata': 'sha256:a4c3f3a1825d8f2493c8809df453d7c444b0c97a389db79881bbf2ad7126e632 '
                          'len=31548',
              'n': 10,
              'positions': '[(720, 912, 924), (924, 1116, 1128), (1128, 1320, 1332), (1332, 1524, '
                           '1536), (1536, 1728, 1740), (1740, 1932, 1944), (1944, 2136, 2148), '
                           '(2148, 2340, 2352), (2352, 2544, 2556), (2556, 2748, 2760)]',
              'result_type': 'tuple'},
 'grd-rpc10': {'header': 'sha256:e3d59bfaca2ead7c0b7b35a560fcd878d9c7a725c1bfb88c14c6f047392b10e1 '
                         'len=3144',
               'log': "[('read', 0, 720, 720), ('read', 720, 2040, 2040)]",
               'metadata': 'sha256:a4c3f3a1825d8f2493c8809df453d7c444b0c97a389db79881bbf2ad7126e632 '
                           'len=31548',
               'n': 10,
               'positions': '[(720, 912, 924), (924, 1116, 1128), (1128, 1320, 1332), (1332, 1524, '
                            '1536), (1536, 1728, 1740), (1740, 1932, 1944), (1944, 2136, 2148), '
                            '(2148, 2340, 2352), (2352, 2544, 2556), (2556, 2748, 2760)]',
               'result_type': 'tuple'},
 'grd-rpc1000000000': {'header': 'sha256:e3d59bfaca2ead7c0b7b35a560fcd878d9c7a725c1bfb88c14c6f047392b10e1 '
                                 'len=3144',
                       'log': "[('read', 0, 720, 720), ('read', 720, 2040, 2040)]",
                       'metadata': 'sha256:a4c3f3a1825d8f2493c8809df453d7c444b0c97a389db79881bbf2ad7126e632 '
                                   'len=31548',
                       'n': 10,
                       'positions': '[(720, 912, 924), (924, 1116, 1128), (1128, 1320, 1332), '
                                    '(1332, 1524, 1536), (1536, 1728, 1740), (1740, 1932, 1944), '
                                    '(1944, 2136, 2148), (2148, 2340, 2352), (2352, 2544, 2556), '
                                    '(2556, 2748, 2760)]',
                       'result_type': 'tuple'},
 'grd-rpc1024': {'header': 'sha256:e3d59bfaca2ead7c0b7b35a560fcd878d9c7a725c1bfb88c14c6f047392b10e1 '
                           'len=3144',
                 'log': "[('read', 0, 720, 720), ('read', 720, 2040, 2040)]",
                 'metadata': 'sha256:a4c3f3a1825d8f2493c8809df453d7c444b0c97a389db79881bbf2ad7126e632 '
                             'len=31548',
                 'n': 10,
                 'positions': '[(720, 912, 924), (924, 1116, 1128), (1128, 1320, 1332), (1332, '
                              '1524, 1536), (1536, 1728, 1740), (1740, 1932, 1944), (1944, 2136, '
                              '2148), (2148, 2340, 2352), (2352, 2544, 2556), (2556, 2748, 2760)]',
                 'result_type': 'tuple'},
 'grd-rpc11': {'header': 'sha256:e3d59bfaca2ead7c0b7b35a560fcd878d9c7a725c1bfb88c14c6f047392b10e1 '
                         'len=3144',
               'log': "[('read', 0, 720, 720), ('read', 720, 2040, 2040)]",
               'metadata': 'sha256:a4c3f3a1825d8f2493c8809df453d7c444b0c97a389db79881bbf2ad7126e632 '
                           'len=31548',
               'n': 10,
               'positions': '[(720, 912, 924), (924, 1116, 1128), (1128, 1320, 1332), (1332, 1524, '
                            '1536), (1536, 1728, 1740), (1740, 1932, 1944), (1944, 2136, 2148), '
                            '(2148, 2340, 2352), (2352, 2544, 2556), (2556, 2748, 2760)]',
               'result_type': 'tuple'},
 'grd-rpc2': {'header': 'sha256:e3d59bfaca2ead7c0b7b35a560fcd878d9c7a725c1bfb88c14c6f047392b10e1 '
                        'len=3144',
              'log': "[('read', 0, 720, 720), ('read', 720, 408, 408), ('read', 1128, 408, 408), "
                     "('read', 1536, 408, 408), ('read', 1944, 408, 408), ('read', 2352, 408, "
                     '408)]',
              'metadata': 'sha256:a4c3f3a1825d8f2493c8809df453d7c444b0c97a389db79881bbf2ad7126e632 '
                          'len=31548',
              'n': 10,
              'positions': '[(720, 912, 924), (924, 1116, 1128), (1128, 1320, 1332), (1332, 1524, '
                           '1536), (1536, 1728, 1740), (1740, 1932, 1944), (1944, 2136, 2148), '
                           '(2148, 2340, 2352), (2352, 2544, 2556), (2556, 2748, 2760)]',
              'result_type': 'tuple'},
 'grd-rpc3': {'header': 'sha256:e3d59bfaca2ead7c0b7b35a560fcd878d9c7a725c1bfb88c14c6f047392b10e1 '
                        'len=3144',
              'log': "[('read', 0, 720, 720), ('read', 720, 612, 612), ('read', 1332, 612, 612), "
                     "('read', 1944, 612, 612), ('read', 2556, 204, 204)]",
              'metadata': 'sha256:a4c3f3a1825d8f2493c8809df453d7c444b0c97a389db79881bbf2ad7126e632 '
                          'len=31548',
              'n': 10,
              'positions': '[(720, 912, 924), (924, 1116, 1128), (1128, 1320, 1332), (1332, 1524, '
                           '1536), (1536, 1728, 1740), (1740, 1932, 1944), (1944, 2136, 2148), '
                           '(2148, 2340, 2352), (2352, 2544, 2556), (2556, 2748, 2760)]',
              'result_type': 'tuple'},
 'grd-rpc4': {'header': 'sha256:e3d59bfaca2ead7c0b7b35a560fcd878d9c7a725c1bfb88c14c6f047392b10e1 '
                        'len=3144',
              'log': "[('read', 0, 720, 720), ('read', 720, 816, 816), ('read', 1536, 816, 816), "
                     "('read', 2352, 408, 408)]",
              'metadata': 'sha256:a4c3f3a1825d8f2493c8809df453d7c444b0c97a389db79881bbf2ad7126e632 '
                          'len=31548',
              'n': 10,
              'positions': '[(720, 912, 924), (924, 1116, 1128), (1128, 1320, 1332), (1332, 1524, '
                           '1536), (1536, 1728, 1740), (1740, 1932, 1944), (1944, 2136, 2148), '
                           '(2148, 2340, 2352), (2352, 2544, 2556), (2556, 2748, 2760)]',
              'result_type': 'tuple'},
 'grd-rpc4096': {'header': 'sha256:e3d59bfaca2ead7c0b7b35a560fcd878d9c7a725c1bfb88c14c6f047392b10e1 '
                           'len=3144',
                 'log': "[('read', 0, 720, 720), ('read', 720, 2040, 2040)]",
                 'metadata': 'sha256:a4c3f3a1825d8f2493c8809df453d7c444b0c97a389db79881bbf2ad7126e632 '
                             'len=31548',
                 'n': 10,
                 'positions': '[(720, 912, 924), (924, 1116, 1128), (1128, 1320, 1332), (1332, '
                              '1524, 1536), (1536, 1728, 1740), (1740, 1932, 1944), (1944, 2136, '
                              '2148), (2148, 2340, 2352), (2352, 2544, 2556), (2556, 2748, 2760)]',
                 'result_type': 'tuple'},
 'grd-rpc5': {'header': 'sha256:e3d59bfaca2ead7c0b7b35a560fcd878d9c7a725c1bfb88c14c6f047392b10e1 '
                        'len=3144',
              'log': "[('read', 0, 720, 720), ('read', 720, 1020, 1020), ('read', 1740, 1020, "
                     '1020)]',
              'metadata': 'sha256:a4c3f3a1825d8f2493c8809df453d7c444b0c97a389db79881bbf2ad7126e632 '
                          'len=31548',
              'n': 10,
              'positions': '[(720, 912, 924), (924, 1116, 1128), (1128, 1320, 1332), (1332, 1524, '
                           '1536), (1536, 1728, 1740), (1740, 1932, 1944), (1944, 2136, 2148), '
                           '(2148, 2340, 2352), (2352, 2544, 2556), (2556, 2748, 2760)]',
              'result_type': 'tuple'},
 'grd-rpc6': {'header': 'sha256:e3d59bfaca2ead7c0b7b35a560fcd878d9c7a725c1bfb88c14c6f047392b10e1 '
                        'len=3144',
              'log': "[('read', 0, 720, 720), ('read', 720, 1224, 1224), ('read', 1944, 816, 816)]",
              'metadata': 'sha256:a4c3f3a1825d8f2493c8809df453d7c444b0c97a389db79881bbf2ad7126e632 '
                          'len=31548',
              'n': 10,
              'positions': '[(720, 912, 924), (924, 1116, 1128), (1128, 1320, 1332), (1332, 1524, '
                           '1536), (1536, 1728, 1740), (1740, 1932, 1944), (1944, 2136, 2148), '
                           '(2148, 2340, 2352), (2352, 2544, 2556), (2556, 2748, 2760)]',
              'result_type': 'tuple'},
 'grd-rpc64': {'header': 'sha256:e3d59bfaca2ead7c0b7b35a560fcd878d9c7a725c1bfb88c14c6f047392b10e1 '
                         'len=3144',
               'log': "[('read', 0, 720, 720), ('read', 720, 2040, 2040)]",
               'metadata': 'sha256:a4c3f3a1825d8f2493c8809df453d7c444b0c97a389db79881bbf2ad7126e632 '
                           'len=31548',
               'n': 10,
               'positions': '[(720, 912, 924), (924, 1116, 1128), (1128, 1320, 1332), (1332, 1524, '
                            '1536), (1536, 1728, 1740), (1740, 1932, 1944), (1944, 2136, 2148), '
                            '(2148, 2340, 2352), (2352, 2544, 2556), (2556, 2748, 2760)]',
               'result_type': 'tuple'},
 'grd-rpc7': {'header': 'sha256:e3d59bfaca2ead7c0b7b35a560fcd878d9c7a725c1bfb88c14c6f047392b10e1 '
                        'len=3144',
              'log': "[('read', 0, 720, 720), ('read', 720, 1428, 1428), ('read', 2148, 612, 612)]",
              'metadata': 'sha256:a4c3f3a1825d8f2493c8809df453d7c444b0c97a389db79881bbf2ad7126e632 '
                          'len=31548',
              'n': 10,
              'positions': '[(720, 912, 924), (924, 1116, 1128), (1128, 1320, 1332), (1332, 1524, '
                           '1536), (1536, 1728, 1740), (1740, 1932, 1944), (1944, 2136, 2148), '
                           '(2148, 2340, 2352), (2352, 2544, 2556), (2556, 2748, 2760)]',
              'result_type': 'tuple'},
 'grd-rpc8': {'header': 'sha256:e3d59bfaca2ead7c0b7b35a560fcd878d9c7a725c1bfb88c14c6f047392b10e1 '
                        'len=3144',
              'log': "[('read', 0, 720, 720), ('read', 720, 1632, 1632), ('read', 2352, 408, 408)]",
              'metadata': 'sha256:a4c3f3a1825d8f2493c8809df453d7c444b0c97a389db79881bbf2ad7126e632 '
                          'len=31548',
              'n': 10,
              'positions': '[(720, 912, 924), (924, 1116, 1128), (1128, 1320, 1332), (1332, 1524, '
                           '1536), (1536, 1728, 1740), (1740, 1932, 1944), (1944, 2136, 2148), '
                           '(2148, 2340, 2352), (2352, 2544, 2556), (2556, 2748, 2760)]',
              'result_type': 'tuple'},
 'grd-rpc9': {'header': 'sha256:e3d59bfaca2ead7c0b7b35a560fcd878d9c7a725c1bfb88c14c6f047392b10e1 '
                        'len=3144',
              'log': "[('read', 0, 720, 720), ('read', 720, 1836, 1836), ('read', 2556, 204, 204)]",
              'metadata': 'sha256:a4c3f3a1825d8f2493c8809df453d7c444b0c97a389db79881bbf2ad7126e632 '
                          'len=31548',
              'n': 10,
              'positions': '[(720, 912, 924), (924, 1116, 1128), (1128, 1320, 1332), (1332, 1524, '
                           '1536), (1536, 1728, 1740), (1740, 1932, 1944), (1944, 2136, 2148), '
                           '(2148, 2340, 2352), (2352, 2544, 2556), (2556, 2748, 2760)]',
              'result_type': 'tuple'},
 'header-count-float-rpc1024': {'log': "[('read_file_descriptor',), ('read', 0, 2, 2)]",
                                'raised': "{'type': 'builtins.TypeError', 'message': "
                                          '"argument should be integer or None, not \'float\'", '
                                          '\'args\': \'("argument should be integer or None, not '
                                          '\\\'float\\\'",)\', \'cause\': None, \'context\': None, '
                                          "'suppress_context': False}"},
 'header-count-float-rpc2': {'log': "[('read_file_descriptor',), ('read', 0, 2, 2), ('read', 2, "
                                    '34, 34)]',
                             'raised': '{\'type\': \'builtins.TypeError\', \'message\': "argument '
                                       'should be integer or None, not \'float\'", \'args\': '
                                       '\'("argument should be integer or None, not '
                                       '\\\'float\\\'",)\', \'cause\': None, \'context\': None, '
                                       "'suppress_context': False}"},
 'header-count-fraction-rpc1024': {'log': "[('read_file_descriptor',), ('read', 0, 2, 2)]",
                                   'raised': "{'type': 'builtins.TypeError', 'message': "
                                             '"argument should be integer or None, not \'float\'", '
                                             '\'args\': \'("argument should be integer or None, '
                                             'not \\\'float\\\'",)\', \'cause\': None, '
                                             "'context': None, 'suppress_context': False}"},
 'header-count-fraction-rpc2': {'log': "[('read_file_descriptor',), ('read', 0, 2, 2), ('read', 2, "
                                       '34, 34)]',
                                'raised': "{'type': 'builtins.TypeError', 'message': "
                                          '"argument should be integer or None, not \'float\'", '
                                          '\'args\': \'("argument should be integer or None, not '
                                          '\\\'float\\\'",)\', \'cause\': None, \'context\': None, '
                                          "'suppress_context': False}"},
 'header-count-inf-rpc1024': {'log': "[('read_file_descriptor',), ('read', 0, 2, 2)]",
                              'raised': "{'type': 'builtins.OverflowError', 'message': 'cannot "
                                        'convert float infinity to integer\', \'args\': "(\'cannot '
                                        'convert float infinity to integer\',)", \'cause\': None, '
                                        "'context': None, 'suppress_context': False}"},
 'header-count-inf-rpc2': {'log': "[('read_file_descriptor',), ('read', 0, 2, 2)]",
                           'raised': "{'type': 'builtins.OverflowError', 'message': 'cannot "
                                     'convert float infinity to integer\', \'args\': "(\'cannot '
                                     'convert float infinity to integer\',)", \'cause\': None, '
                                     "'context': None, 'suppress_context': False}"},
 'header-count-nan-rpc1024': {'log': "[('read_file_descriptor',), ('read', 0, 2, 2)]",
                              'raised': "{'type': 'builtins.ValueError', 'message': 'cannot "
                                        'convert float NaN to integer\', \'args\': "(\'cannot '
                                        'convert float NaN to integer\',)", \'cause\': None, '
                                        "'context': None, 'suppress_context': False}"},
 'header-count-nan-rpc2': {'log': "[('read_file_descriptor',), ('read', 0, 2, 2)]",
                           'raised': "{'type': 'builtins.ValueError', 'message': 'cannot convert "
                                     'float NaN to integer\', \'args\': "(\'cannot convert float '
                                     'NaN to integer\',)", \'cause\': None, \'context\': None, '
                                     "'suppress_context': False}"},
 'header-count-none-rpc1024': {'log': "[('read_file_descriptor',), ('read', 0, 2, 2)]",
                               'raised': "{'type': 'builtins.TypeError', 'message': "
                                         '"unsupported operand type(s) for /: \'NoneType\' and '
                                         '\'int\'", \'args\': \'("unsupported operand type(s) for '
                                         '/: \\\'NoneType\\\' and \\\'int\\\'",)\', \'cause\': '
                                         "None, 'context': None, 'suppress_context': False}"},
 'header-count-none-rpc2': {'log': "[('read_file_descriptor',), ('read', 0, 2, 2)]",
                            'raised': "{'type': 'builtins.TypeError', 'message': "
                                      '"unsupported operand type(s) for /: \'NoneType\' and '
                                      '\'int\'", \'args\': \'("unsupported operand type(s) for /: '
                                      '\\\'NoneType\\\' and \\\'int\\\'",)\', \'cause\': None, '
                                      "'context': None, 'suppress_context': False}"},
 'header-count-str-rpc1024': {'log': "[('read_file_descriptor',), ('read', 0, 2, 2)]",
                              'raised': "{'type': 'builtins.TypeError', 'message': "
                                        '"unsupported operand type(s) for /: \'str\' and \'int\'", '
                                        '\'args\': \'("unsupported operand type(s) for /: '
                                        '\\\'str\\\' and \\\'int\\\'",)\', \'cause\': None, '
                                        "'context': None, 'suppress_context': False}"},
 'header-count-str-rpc2': {'log': "[('read_file_descriptor',), ('read', 0, 2, 2)]",
                           'raised': '{\'type\': \'builtins.TypeError\', \'message\': "unsupported '
                                     'operand type(s) for /: \'str\' and \'int\'", \'args\': '
                                     '\'("unsupported operand type(s) for /: \\\'str\\\' and '
                                     '\\\'int\\\'",)\', \'cause\': None, \'context\': None, '
                                     "'suppress_context': False}"},
 'header-empty-rpc1024': {'log': "[('read_file_descriptor',), ('read', 0, 2, 2)]",
                          'raised': "{'type': 'builtins.KeyError', 'message': "
                                    '"\'number_of_sar_data_records\'", \'args\': '
                                    '"(\'number_of_sar_data_records\',)", \'cause\': None, '
                                    "'context': None, 'suppress_context': False}"},
 'header-empty-rpc2': {'log': "[('read_file_descriptor',), ('read', 0, 2, 2)]",
                       'raised': "{'type': 'builtins.KeyError', 'message': "
                                 '"\'number_of_sar_data_records\'", \'args\': '
                                 '"(\'number_of_sar_data_records\',)", \'cause\': None, '
                                 "'context': None, 'suppress_context': False}"},
 'header-extra-keys-rpc1024': {'header': "{'dict': [('number_of_sar_data_records', 'int:3'), "
                                         "('sar_data_record_length', 'int:17'), ('nested', "
                                         "{'dict': [('x', {'tuple': ['int:1', 'int:2']})]})]}",
                               'log': "[('read_file_descriptor',), ('read', 0, 2, 2), ('read', 2, "
                                      '51, 51)]',
                               'metadata': 'sha256:987ab2029626e6d86b1b0736833b02664f881577b05a6c11d0204130f2253868 '
                                           'len=1051',
                               'n': 3,
                               'positions': '[(732, 733, 737), (749, 750, 754), (766, 767, 771)]',
                               'result_type': 'tuple'},
 'header-extra-keys-rpc2': {'header': "{'dict': [('number_of_sar_data_records', 'int:3'), "
                                      "('sar_data_record_length', 'int:17'), ('nested', {'dict': "
                                      "[('x', {'tuple': ['int:1', 'int:2']})]})]}",
                            'log': "[('read_file_descriptor',), ('read', 0, 2, 2), ('read', 2, 34, "
                                   "34), ('read', 36, 17, 17)]",
                            'metadata': 'sha256:987ab2029626e6d86b1b0736833b02664f881577b05a6c11d0204130f2253868 '
                                        'len=1051',
                            'n': 3,
                            'positions': '[(732, 733, 737), (749, 750, 754), (766, 767, 771)]',
                            'result_type': 'tuple'},
 'header-length-float-rpc1024': {'log': "[('read_file_descriptor',), ('read', 0, 2, 2)]",
                                 'raised': "{'type': 'builtins.TypeError', 'message': "
                                           '"argument should be integer or None, not \'float\'", '
                                           '\'args\': \'("argument should be integer or None, not '
                                           '\\\'float\\\'",)\', \'cause\': None, \'context\': '
                                           "None, 'suppress_context': False}"},
 'header-length-float-rpc2': {'log': "[('read_file_descriptor',), ('read', 0, 2, 2)]",
                              'raised': '{\'type\': \'builtins.TypeError\', \'message\': "argument '
                                        'should be integer or None, not \'float\'", \'args\': '
                                        '\'("argument should be integer or None, not '
                                        '\\\'float\\\'",)\', \'cause\': None, \'context\': None, '
                                        "'suppress_context': False}"},
 'header-length-none-negative-rpc1024': {'log': "[('read_file_descriptor',), ('read', 0, 2, 2)]",
                                         'raised': "{'type': 'builtins.TypeError', 'message': "
                                                   '"unsupported operand type(s) for *: \'int\' '
                                                   'and \'NoneType\'", \'args\': \'("unsupported '
                                                   "operand type(s) for *: \\'int\\' and "
                                                   '\\\'NoneType\\\'",)\', \'cause\': None, '
                                                   "'context': None, 'suppress_context': False}"},
 'header-length-none-negative-rpc2': {'log': "[('read_file_descriptor',), ('read', 0, 2, 2)]",
                                      'raised': "{'type': 'builtins.TypeError', 'message': "
                                                '"unsupported operand type(s) for *: \'int\' and '
                                                '\'NoneType\'", \'args\': \'("unsupported operand '
                                                "type(s) for *: \\'int\\' and "
                                                '\\\'NoneType\\\'",)\', \'cause\': None, '
                                                "'context': None, 'suppress_context': False}"},
 'header-length-none-no-records-rpc1024': {'log': "[('read_file_descriptor',), ('read', 0, 2, 2)]",
                                           'raised': "{'type': 'builtins.TypeError', 'message': "
                                                     '"unsupported operand type(s) for *: \'int\' '
                                                     'and \'NoneType\'", \'args\': \'("unsupported '
                                                     "operand type(s) for *: \\'int\\' and "
                                                     '\\\'NoneType\\\'",)\', \'cause\': None, '
                                                     "'context': None, 'suppress_context': False}"},
 'header-length-none-no-records-rpc2': {'log': "[('read_file_descriptor',), ('read', 0, 2, 2)]",
                                        'raised': "{'type': 'builtins.TypeError', 'message': "
                                                  '"unsupported operand type(s) for *: \'int\' and '
                                                  '\'NoneType\'", \'args\': \'("unsupported '
                                                  "operand type(s) for *: \\'int\\' and "
                                                  '\\\'NoneType\\\'",)\', \'cause\': None, '
                                                  "'context': None, 'suppress_context': False}"},
 'header-length-none-rpc1024': {'log': "[('read_file_descriptor',), ('read', 0, 2, 2)]",
                                'raised': "{'type': 'builtins.TypeError', 'message': "
                                          '"unsupported operand type(s) for *: \'int\' and '
                                          '\'NoneType\'", \'args\': \'("unsupported operand '
                                          'type(s) for *: \\\'int\\\' and \\\'NoneType\\\'",)\', '
                                          "'cause': None, 'context': None, 'suppress_context': "
                                          'False}'},
 'header-length-none-rpc2': {'log': "[('read_file_descriptor',), ('read', 0, 2, 2)]",
                             'raised': "{'type': 'builtins.TypeError', 'message': "
                                       '"unsupported operand type(s) for *: \'int\' and '
                                       '\'NoneType\'", \'args\': \'("unsupported operand type(s) '
                                       'for *: \\\'int\\\' and \\\'NoneType\\\'",)\', \'cause\': '
                                       "None, 'context': None, 'suppress_context': False}"},
 'header-length-str-no-records-rpc1024': {'log': "[('read_file_descriptor',), ('read', 0, 2, 2)]",
                                          'raised': "{'type': 'builtins.TypeError', 'message': "
                                                    '\'can only concatenate str (not "int") to '
                                                    "str', 'args': '(\\'can only concatenate str "
                                                    '(not "int") to str\\\',)\', \'cause\': None, '
                                                    "'context': None, 'suppress_context': False}"},
 'header-length-str-no-records-rpc2': {'log': "[('read_file_descriptor',), ('read', 0, 2, 2)]",
                                       'raised': "{'type': 'builtins.TypeError', 'message': 'can "
                                                 'only concatenate str (not "int") to str\', '
                                                 "'args': '(\\'can only concatenate str (not "
                                                 '"int") to str\\\',)\', \'cause\': None, '
                                                 "'context': None, 'suppress_context': False}"},
 'header-length-str-rpc1024': {'log': "[('read_file_descriptor',), ('read', 0, 2, 2)]",
                               'raised': "{'type': 'builtins.TypeError', 'message': 'can only "
                                         'concatenate str (not "int") to str\', \'args\': '
                                         '\'(\\\'can only concatenate str (not "int") to '
                                         "str\\',)', 'cause': None, 'context': None, "
                                         "'suppress_context': False}"},
 'header-length-str-rpc2': {'log': "[('read_file_descriptor',), ('read', 0, 2, 2)]",
                            'raised': "{'type': 'builtins.TypeError', 'message': 'can only "
                                      'concatenate str (not "int") to str\', \'args\': \'(\\\'can '
                                      'only concatenate str (not "int") to str\\\',)\', \'cause\': '
                                      "None, 'context': None, 'suppress_context': False}"},
 'header-no-count-rpc1024': {'log': "[('read_file_descriptor',), ('read', 0, 2, 2)]",
                             'raised': "{'type': 'builtins.KeyError', 'message': "
                                       '"\'number_of_sar_data_records\'", \'args\': '
                                       '"(\'number_of_sar_data_records\',)", \'cause\': None, '
                                       "'context': None, 'suppress_context': False}"},
 'header-no-count-rpc2': {'log': "[('read_file_descriptor',), ('read', 0, 2, 2)]",
                          'raised': "{'type': 'builtins.KeyError', 'message': "
                                    '"\'number_of_sar_data_records\'", \'args\': '
                                    '"(\'number_of_sar_data_records\',)", \'cause\': None, '
                                    "'context': None, 'suppress_context': False}"},
 'header-no-length-rpc1024': {'log': "[('read_file_descriptor',), ('read', 0, 2, 2)]",
                              'raised': "{'type': 'builtins.KeyError', 'message': "
                                        '"\'sar_data_record_length\'", \'args\': '
                                        '"(\'sar_data_record_length\',)", \'cause\': None, '
                                        "'context': None, 'suppress_context': False}"},
 'header-no-length-rpc2': {'log': "[('read_file_descriptor',), ('read', 0, 2, 2)]",
                           'raised': "{'type': 'builtins.KeyError', 'message': "
                                     '"\'sar_data_record_length\'", \'args\': '
                                     '"(\'sar_data_record_length\',)", \'cause\': None, '
                                     "'context': None, 'suppress_context': False}"},
 'header-none-rpc1024': {'log': "[('read_file_descriptor',), ('read', 0, 2, 2)]",
                         'raised': '{\'type\': \'builtins.TypeError\', \'message\': "\'NoneType\' '
                                   'object is not subscriptable", \'args\': \'("\\\'NoneType\\\' '
                                   'object is not subscriptable",)\', \'cause\': None, '
                                   "'context': None, 'suppress_context': False}"},
 'header-none-rpc2': {'log': "[('read_file_descriptor',), ('read', 0, 2, 2)]",
                      'raised': '{\'type\': \'builtins.TypeError\', \'message\': "\'NoneType\' '
                                'object is not subscriptable", \'args\': \'("\\\'NoneType\\\' '
                                'object is not subscriptable",)\', \'cause\': None, \'context\': '
                                "None, 'suppress_context': False}"},
 'interleaving-adjust-fails': {'log': "[('read_file_descriptor',), ('read', 0, 2, 2), ('read', 2, "
                                      "17, 17), ('parse_chunk', 17, (17,), {}), ('adjust_offsets', "
                                      "1, (), {'offset': 720}), ('read', 19, 17, 17), "
                                      "('parse_chunk', 17, (17,), {}), ('adjust_offsets', 1, (), "
                                      "{'offset': 737})]",
                               'raised': "{'type': 'builtins.RuntimeError', 'message': 'second "
                                         'chunk\', \'args\': "(\'second chunk\',)", \'cause\': '
                                         "None, 'context': None, 'suppress_context': False}"},
 'interleaving-rpc1': {'header': "{'dict': [('number_of_sar_data_records', 'int:3'), "
                                 "('sar_data_record_length', 'int:17')]}",
                       'log': "[('read_file_descriptor',), ('read', 0, 2, 2), ('read', 2, 17, 17), "
                              "('parse_chunk', 17, (17,), {}), ('adjust_offsets', 1, (), "
                              "{'offset': 720}), ('read', 19, 17, 17), ('parse_chunk', 17, (17,), "
                              "{}), ('adjust_offsets', 1, (), {'offset': 737}), ('read', 36, 17, "
                              "17), ('parse_chunk', 17, (17,), {}), ('adjust_offsets', 1, (), "
                              "{'offset': 754})]",
                       'metadata': 'sha256:987ab2029626e6d86b1b0736833b02664f881577b05a6c11d0204130f2253868 '
                                   'len=1051',
                       'n': 3,
                       'positions': '[(732, 733, 737), (749, 750, 754), (766, 767, 771)]',
                       'result_type': 'tuple'},
 'interleaving-rpc2': {'header': "{'dict': [('number_of_sar_data_records', 'int:3'), "
                                 "('sar_data_record_length', 'int:17')]}",
                       'log': "[('read_file_descriptor',), ('read', 0, 2, 2), ('read', 2, 34, 34), "
                              "('parse_chunk', 34, (17,), {}), ('adjust_offsets', 2, (), "
                              "{'offset': 720}), ('read', 36, 17, 17), ('parse_chunk', 17, (17,), "
                              "{}), ('adjust_offsets', 1, (), {'offset': 754})]",
                       'metadata': 'sha256:987ab2029626e6d86b1b0736833b02664f881577b05a6c11d0204130f2253868 '
                                   'len=1051',
                       'n': 3,
                       'positions': '[(732, 733, 737), (749, 750, 754), (766, 767, 771)]',
                       'result_type': 'tuple'},
 'interleaving-rpc3': {'header': "{'dict': [('number_of_sar_data_records', 'int:3'), "
                                 "('sar_data_record_length', 'int:17')]}",
                       'log': "[('read_file_descriptor',), ('read', 0, 2, 2), ('read', 2, 51, 51), "
                              "('parse_chunk', 51, (17,), {}), ('adjust_offsets', 3, (), "
                              "{'offset': 720})]",
                       'metadata': 'sha256:987ab2029626e6d86b1b0736833b02664f881577b05a6c11d0204130f2253868 '
                                   'len=1051',
                       'n': 3,
                       'positions': '[(732, 733, 737), (749, 750, 754), (766, 767, 771)]',
                       'result_type': 'tuple'},
 'interleaving-truncated': {'log': "[('read_file_descriptor',), ('read', 0, 2, 2), ('read', 2, 34, "
                                   "34), ('parse_chunk', 34, (17,), {}), ('adjust_offsets', 2, (), "
                                   "{'offset': 720}), ('read', 36, 17, 14), ('parse_chunk', 14, "
                                   '(17,), {})]',
                            'raised': "{'type': 'builtins.ValueError', 'message': 'sizes mismatch: "
                                      'chunksize is 0 but got 14 bytes\', \'args\': "(\'sizes '
                                      'mismatch: chunksize is 0 but got 14 bytes\',)", \'cause\': '
                                      "None, 'context': None, 'suppress_context': False}"},
 'length-half': {'log': "[('read', 0, 720, 720), ('read', 720, 204, 204)]",
                 'raised': "{'type': 'construct.core.StreamError', 'message': 'Error in path "
                           '(parsing) -> preamble -> record_sequence_number\\nstream read less '
                           'than specified amount, expected 4, found 0\', \'args\': "(\'Error in '
                           'path (parsing) -> preamble -> record_sequence_number\\\\nstream read '
                           'less than specified amount, expected 4, found 0\',)", \'cause\': None, '
                           "'context': None, 'suppress_context': False}"},
 'length-too-large': {'log': "[('read', 0, 720, 720), ('read', 720, 816, 816), ('read', 1536, 816, "
                             '0)]',
                      'raised': "{'type': 'construct.core.StreamError', 'message': 'Error in path "
                                '(parsing) -> record_sequence_number\\nstream read less than '
                                'specified amount, expected 4, found 0\', \'args\': "(\'Error in '
                                'path (parsing) -> record_sequence_number\\\\nstream read less '
                                'than specified amount, expected 4, found 0\',)", \'cause\': None, '
                                "'context': None, 'suppress_context': False}"},
 'length-too-small': {'log': "[('read', 0, 720, 720), ('read', 720, 400, 400), ('read', 1120, 400, "
                             '400)]',
                      'raised': "{'type': 'builtins.ValueError', 'message': 'unknown record type "
                                'code: 154\', \'args\': "(\'unknown record type code: 154\',)", '
                                "'cause': None, 'context': None, 'suppress_context': False}"},
 'memory-file': {'header': 'sha256:e3d59bfaca2ead7c0b7b35a560fcd878d9c7a725c1bfb88c14c6f047392b10e1 '
                           'len=3144',
                 'log': '[]',
                 'metadata': 'sha256:a4c3f3a1825d8f2493c8809df453d7c444b0c97a389db79881bbf2ad7126e632 '
                             'len=31548',
                 'n': 10,
                 'positions': '[(720, 912, 924), (924, 1116, 1128), (1128, 1320, 1332), (1332, '
                              '1524, 1536), (1536, 1728, 1740), (1740, 1932, 1944), (1944, 2136, '
                              '2148), (2148, 2340, 2352), (2352, 2544, 2556), (2556, 2748, 2760)]',
                 'result_type': 'tuple'},
 'memory-file-position': 2760,
 'mixed-kinds-rpc1': {'header': 'sha256:6c3e201191fa6a93c3b0ee762e0714d418dd8a6942dd54e8beac5bc6affcc333 '
                                'len=3143',
                      'log': "[('read', 0, 720, 720), ('read', 720, 576, 576), ('read', 1296, 576, "
                             "576), ('read', 1872, 576, 576), ('read', 2448, 576, 576)]",
                      'metadata': 'sha256:4a12b8afd17e681e443f1d28b135c72ea9f25ca1e7869d7f9b7da547515629ad '
                                  'len=14855',
                      'n': 4,
                      'positions': '[(720, 1264, 1296), (1296, 1840, 1872), (1872, 2064, 2448), '
                                   '(2448, 2640, 3024)]',
                      'result_type': 'tuple'},
 'mixed-kinds-rpc2': {'header': 'sha256:6c3e201191fa6a93c3b0ee762e0714d418dd8a6942dd54e8beac5bc6affcc333 '
                                'len=3143',
                      'log': "[('read', 0, 720, 720), ('read', 720, 1152, 1152), ('read', 1872, "
                             '1152, 1152)]',
                      'metadata': 'sha256:4a12b8afd17e681e443f1d28b135c72ea9f25ca1e7869d7f9b7da547515629ad '
                                  'len=14855',
                      'n': 4,
                      'positions': '[(720, 1264, 1296), (1296, 1840, 1872), (1872, 2064, 2448), '
                                   '(2448, 2640, 3024)]',
                      'result_type': 'tuple'},
 'mixed-kinds-rpc3': {'header': 'sha256:6c3e201191fa6a93c3b0ee762e0714d418dd8a6942dd54e8beac5bc6affcc333 '
                                'len=3143',
                      'log': "[('read', 0, 720, 720), ('read', 720, 1728, 1728), ('read', 2448, "
                             '576, 576)]',
                      'metadata': 'sha256:3c4f4d7dcaa1f2ad6ad60166a7c33668f680b0d5b54fc50e2fdab355b4e07f0c '
                                  'len=17148',
                      'n': 4,
                      'positions': '[(720, 1264, 1296), (1296, 1840, 1872), (1872, 2416, 2448), '
                                   '(2448, 2640, 3024)]',
                      'result_type': 'tuple'},
 'mixed-kinds-rpc4': {'header': 'sha256:6c3e201191fa6a93c3b0ee762e0714d418dd8a6942dd54e8beac5bc6affcc333 '
                                'len=3143',
                      'log': "[('read', 0, 720, 720), ('read', 720, 2304, 2304)]",
                      'metadata': 'sha256:87fc2feae013d9c58707f7895e49b9e415df109e3bf9666d3a0526e204a15cbd '
                                  'len=19436',
                      'n': 4,
                      'positions': '[(720, 1264, 1296), (1296, 1840, 1872), (1872, 2416, 2448), '
                                   '(2448, 2992, 3024)]',
                      'result_type': 'tuple'},
 'no-data-part': {'header': 'sha256:a3483888067c6056f9eef8ea4d00ca3388f965e5f348e360875b345ca70083ab '
                            'len=3143',
                  'log': "[('read', 0, 720, 720), ('read', 720, 384, 384), ('read', 1104, 192, "
                         '192)]',
                  'metadata': 'sha256:2c47f663b3c552ab53aad7acdcf0949a5868b2db1925ee26b3b358fece956811 '
                              'len=9465',
                  'n': 3,
                  'positions': '[(720, 912, 912), (912, 1104, 1104), (1104, 1296, 1296)]',
                  'result_type': 'tuple'},
 'no-read-method': {'raised': '{\'type\': \'builtins.AttributeError\', \'message\': "\'Nothing\' '
                              'object has no attribute \'read\'", \'args\': \'("\\\'Nothing\\\' '
                              'object has no attribute \\\'read\\\'",)\', \'cause\': None, '
                              "'context': None, 'suppress_context': False}"},
 'no-records': {'header': 'sha256:e83ba957632ba35784ded54899d14377b70794ab416c9d1442c94c7529167b4e '
                          'len=3143',
                'log': "[('read', 0, 720, 720)]",
                'metadata': "{'list': []}",
                'n': 0,
                'positions': '[]',
                'result_type': 'tuple'},
 'no-records-default': {'header': 'sha256:e83ba957632ba35784ded54899d14377b70794ab416c9d1442c94c7529167b4e '
                                  'len=3143',
                        'log': "[('read', 0, 720, 720)]",
                        'metadata': "{'list': []}",
                        'n': 0,
                        'positions': '[]',
                        'result_type': 'tuple'},
 'nondigit-count': {'log': "[('read', 0, 720, 720)]",
                    'raised': '{\'type\': \'builtins.ValueError\', \'message\': "invalid literal '
                              'for int() with base 10: \'12x\'", \'args\': \'("invalid literal for '
                              'int() with base 10: \\\'12x\\\'",)\', \'cause\': None, \'context\': '
                              "None, 'suppress_context': False}"},
 'one-record': {'header': 'sha256:dcb8888a8202f474ed9d265b9e8b11decdb918881cf6515a72ae74028c6f1e7d '
                          'len=3143',
                'log': "[('read', 0, 720, 720), ('read', 720, 204, 204)]",
                'metadata': 'sha256:e196043aca841e7cb0eced77c8b448463eb6698b586307f324056237cec71415 '
                            'len=3161',
                'n': 1,
                'positions': '[(720, 912, 924)]',
                'result_type': 'tuple'},
 'one-record-rpc2': {'header': 'sha256:dcb8888a8202f474ed9d265b9e8b11decdb918881cf6515a72ae74028c6f1e7d '
                               'len=3143',
                     'log': "[('read', 0, 720, 720), ('read', 720, 204, 204)]",
                     'metadata': 'sha256:e196043aca841e7cb0eced77c8b448463eb6698b586307f324056237cec71415 '
                                 'len=3161',
                     'n': 1,
                     'positions': '[(720, 912, 924)]',
                     'result_type': 'tuple'},
 'parse-returns-iterator': {'header': "{'dict': [('number_of_sar_data_records', 'int:3'), "
                                      "('sar_data_record_length', 'int:17')]}",
                            'log': "[('read_file_descriptor',), ('read', 0, 2, 2), ('read', 2, 34, "
                                   "34), ('parse_chunk', 34, (17,), {}), ('adjust_offsets', "
                                   "'list_iterator', (), {'offset': 720}), ('read', 36, 17, 17), "
                                   "('parse_chunk', 17, (17,), {}), ('adjust_offsets', "
                                   "'list_iterator', (), {'offset': 754})]",
                            'metadata': 'sha256:987ab2029626e6d86b1b0736833b02664f881577b05a6c11d0204130f2253868 '
                                        'len=1051',
                            'n': 3,
                            'positions': '[(732, 733, 737), (749, 750, 754), (766, 767, 771)]',
                            'result_type': 'tuple'},
 'prepositioned': {'header': 'sha256:e3d59bfaca2ead7c0b7b35a560fcd878d9c7a725c1bfb88c14c6f047392b10e1 '
                             'len=3144',
                   'log': "[('read', 4, 720, 720), ('read', 724, 816, 816), ('read', 1540, 816, "
                          "816), ('read', 2356, 408, 408)]",
                   'metadata': 'sha256:a4c3f3a1825d8f2493c8809df453d7c444b0c97a389db79881bbf2ad7126e632 '
                               'len=31548',
                   'n': 10,
                   'positions': '[(720, 912, 924), (924, 1116, 1128), (1128, 1320, 1332), (1332, '
                                '1524, 1536), (1536, 1728, 1740), (1740, 1932, 1944), (1944, 2136, '
                                '2148), (2148, 2340, 2352), (2352, 2544, 2556), (2556, 2748, '
                                '2760)]',
                   'result_type': 'tuple'},
 'public-names': ['adjust_offsets',
                  'concat',
                  'file_descriptor_record',
                  'itertools',
                  'math',
                  'parse_chunk',
                  'processed_data_record',
                  'read_file_descriptor',
                  'read_metadata',
                  'record_preamble',
                  'record_types',
                  'signal_data_record',
                  'to_dict'],
 'read_file_descriptor': {'count': 7,
                          'length': 576,
                          'log': [('read', 0, 720, 720)],
                          'type': 'Container'},
 'record-declares-larger-length': {'log': "[('read', 0, 720, 720), ('read', 720, 408, 408)]",
                                   'raised': "{'type': 'builtins.ValueError', 'message': 'year 0 "
                                             'is out of range\', \'args\': "(\'year 0 is out of '
                                             'range\',)", \'cause\': None, \'context\': None, '
                                             "'suppress_context': False}"},
 'record-declares-other-length': {'log': "[('read', 0, 720, 720), ('read', 720, 408, 408)]",
                                  'raised': "{'type': 'builtins.ValueError', 'message': 'year 0 is "
                                            'out of range\', \'args\': "(\'year 0 is out of '
                                            'range\',)", \'cause\': None, \'context\': None, '
                                            "'suppress_context': False}"},
 'rpc-false': {'log': "[('read', 0, 720, 720)]",
               'raised': "{'type': 'builtins.ZeroDivisionError', 'message': 'division by zero', "
                         '\'args\': "(\'division by zero\',)", \'cause\': None, \'context\': None, '
                         "'suppress_context': False}"},
 'rpc-false-empty-image': {'log': "[('read', 0, 720, 720)]",
                           'raised': "{'type': 'builtins.ZeroDivisionError', 'message': 'division "
                                     'by zero\', \'args\': "(\'division by zero\',)", \'cause\': '
                                     "None, 'context': None, 'suppress_context': False}"},
 'rpc-float': {'log': "[('read', 0, 720, 720)]",
               'raised': '{\'type\': \'builtins.TypeError\', \'message\': "argument should be '
                         'integer or None, not \'float\'", \'args\': \'("argument should be '
                         'integer or None, not \\\'float\\\'",)\', \'cause\': None, \'context\': '
                         "None, 'suppress_context': False}"},
 'rpc-float-empty-image': {'header': 'sha256:e83ba957632ba35784ded54899d14377b70794ab416c9d1442c94c7529167b4e '
                                     'len=3143',
                           'log': "[('read', 0, 720, 720)]",
                           'metadata': "{'list': []}",
                           'n': 0,
                           'positions': '[]',
                           'result_type': 'tuple'},
 'rpc-float-integral': {'log': "[('read', 0, 720, 720)]",
                        'raised': '{\'type\': \'builtins.TypeError\', \'message\': "argument '
                                  'should be integer or None, not \'float\'", \'args\': '
                                  '\'("argument should be integer or None, not \\\'float\\\'",)\', '
                                  "'cause': None, 'context': None, 'suppress_context': False}"},
 'rpc-float-integral-empty-image': {'header': 'sha256:e83ba957632ba35784ded54899d14377b70794ab416c9d1442c94c7529167b4e '
                                              'len=3143',
                                    'log': "[('read', 0, 720, 720)]",
                                    'metadata': "{'list': []}",
                                    'n': 0,
                                    'positions': '[]',
                                    'result_type': 'tuple'},
 'rpc-inf': {'header': 'sha256:e3d59bfaca2ead7c0b7b35a560fcd878d9c7a725c1bfb88c14c6f047392b10e1 '
                       'len=3144',
             'log': "[('read', 0, 720, 720)]",
             'metadata': "{'list': []}",
             'n': 0,
             'positions': '[]',
             'result_type': 'tuple'},
 'rpc-inf-empty-image': {'header': 'sha256:e83ba957632ba35784ded54899d14377b70794ab416c9d1442c94c7529167b4e '
                                   'len=3143',
                         'log': "[('read', 0, 720, 720)]",
                         'metadata': "{'list': []}",
                         'n': 0,
                         'positions': '[]',
                         'result_type': 'tuple'},
 'rpc-list': {'log': "[('read', 0, 720, 720)]",
              'raised': '{\'type\': \'builtins.TypeError\', \'message\': "unsupported operand '
                        'type(s) for /: \'int\' and \'list\'", \'args\': \'("unsupported operand '
                        'type(s) for /: \\\'int\\\' and \\\'list\\\'",)\', \'cause\': None, '
                        "'context': None, 'suppress_context': False}"},
 'rpc-list-empty-image': {'log': "[('read', 0, 720, 720)]",
                          'raised': '{\'type\': \'builtins.TypeError\', \'message\': "unsupported '
                                    'operand type(s) for /: \'int\' and \'list\'", \'args\': '
                                    '\'("unsupported operand type(s) for /: \\\'int\\\' and '
                                    '\\\'list\\\'",)\', \'cause\': None, \'context\': None, '
                                    "'suppress_context': False}"},
 'rpc-minus1': {'header': 'sha256:e3d59bfaca2ead7c0b7b35a560fcd878d9c7a725c1bfb88c14c6f047392b10e1 '
                          'len=3144',
                'log': "[('read', 0, 720, 720)]",
                'metadata': "{'list': []}",
                'n': 0,
                'positions': '[]',
                'result_type': 'tuple'},
 'rpc-minus1-empty-image': {'header': 'sha256:e83ba957632ba35784ded54899d14377b70794ab416c9d1442c94c7529167b4e '
                                      'len=3143',
                            'log': "[('read', 0, 720, 720)]",
                            'metadata': "{'list': []}",
                            'n': 0,
                            'positions': '[]',
                            'result_type': 'tuple'},
 'rpc-minus100': {'header': 'sha256:e3d59bfaca2ead7c0b7b35a560fcd878d9c7a725c1bfb88c14c6f047392b10e1 '
                            'len=3144',
                  'log': "[('read', 0, 720, 720)]",
                  'metadata': "{'list': []}",
                  'n': 0,
                  'positions': '[]',
                  'result_type': 'tuple'},
 'rpc-minus100-empty-image': {'header': 'sha256:e83ba957632ba35784ded54899d14377b70794ab416c9d1442c94c7529167b4e '
                                        'len=3143',
                              'log': "[('read', 0, 720, 720)]",
                              'metadata': "{'list': []}",
                              'n': 0,
                              'positions': '[]',
                              'result_type': 'tuple'},
 'rpc-minus3': {'header': 'sha256:e3d59bfaca2ead7c0b7b35a560fcd878d9c7a725c1bfb88c14c6f047392b10e1 '
                          'len=3144',
                'log': "[('read', 0, 720, 720)]",
                'metadata': "{'list': []}",
                'n': 0,
                'positions': '[]',
                'result_type': 'tuple'},
 'rpc-minus3-empty-image': {'header': 'sha256:e83ba957632ba35784ded54899d14377b70794ab416c9d1442c94c7529167b4e '
                                      'len=3143',
                            'log': "[('read', 0, 720, 720)]",
                            'metadata': "{'list': []}",
                            'n': 0,
                            'positions': '[]',
                            'result_type': 'tuple'},
 'rpc-nan': {'log': "[('read', 0, 720, 720)]",
             'raised': "{'type': 'builtins.ValueError', 'message': 'cannot convert float NaN to "
                       'integer\', \'args\': "(\'cannot convert float NaN to integer\',)", '
                       "'cause': None, 'context': None, 'suppress_context': False}"},
 'rpc-nan-empty-image': {'log': "[('read', 0, 720, 720)]",
                         'raised': "{'type': 'builtins.ValueError', 'message': 'cannot convert "
                                   'float NaN to integer\', \'args\': "(\'cannot convert float NaN '
                                   'to integer\',)", \'cause\': None, \'context\': None, '
                                   "'suppress_context': False}"},
 'rpc-none': {'log': "[('read', 0, 720, 720)]",
              'raised': '{\'type\': \'builtins.TypeError\', \'message\': "unsupported operand '
                        'type(s) for /: \'int\' and \'NoneType\'", \'args\': \'("unsupported '
                        'operand type(s) for /: \\\'int\\\' and \\\'NoneType\\\'",)\', \'cause\': '
                        "None, 'context': None, 'suppress_context': False}"},
 'rpc-none-empty-image': {'log': "[('read', 0, 720, 720)]",
                          'raised': '{\'type\': \'builtins.TypeError\', \'message\': "unsupported '
                                    'operand type(s) for /: \'int\' and \'NoneType\'", \'args\': '
                                    '\'("unsupported operand type(s) for /: \\\'int\\\' and '
                                    '\\\'NoneType\\\'",)\', \'cause\': None, \'context\': None, '
                                    "'suppress_context': False}"},
 'rpc-np-int': {'log': "[('read', 0, 720, 720), ('read', 720, np.int64(612), 612), ('read', 1332, "
                       "np.int64(612), 612), ('read', 1944, np.int64(612), 612), ('read', 2556, "
                       'np.int64(204), 204)]',
                'raised': '{\'type\': \'builtins.AttributeError\', \'message\': "\'numpy.int64\' '
                          'object has no attribute \'items\'", \'args\': \'("\\\'numpy.int64\\\' '
                          'object has no attribute \\\'items\\\'",)\', \'cause\': None, '
                          "'context': None, 'suppress_context': False}"},
 'rpc-np-int-empty-image': {'header': 'sha256:e83ba957632ba35784ded54899d14377b70794ab416c9d1442c94c7529167b4e '
                                      'len=3143',
                            'log': "[('read', 0, 720, 720)]",
                            'metadata': "{'list': []}",
                            'n': 0,
                            'positions': '[]',
                            'result_type': 'tuple'},
 'rpc-np-uint8': {'log': "[('read', 0, 720, 720)]",
                  'raised': "{'type': 'builtins.OverflowError', 'message': 'Python integer 720 out "
                            'of bounds for uint8\', \'args\': "(\'Python integer 720 out of bounds '
                            'for uint8\',)", \'cause\': None, \'context\': None, '
                            "'suppress_context': False}"},
 'rpc-np-uint8-empty-image': {'header': 'sha256:e83ba957632ba35784ded54899d14377b70794ab416c9d1442c94c7529167b4e '
                                        'len=3143',
                              'log': "[('read', 0, 720, 720)]",
                              'metadata': "{'list': []}",
                              'n': 0,
                              'positions': '[]',
                              'result_type': 'tuple'},
 'rpc-str': {'log': "[('read', 0, 720, 720)]",
             'raised': '{\'type\': \'builtins.TypeError\', \'message\': "unsupported operand '
                       'type(s) for /: \'int\' and \'str\'", \'args\': \'("unsupported operand '
                       'type(s) for /: \\\'int\\\' and \\\'str\\\'",)\', \'cause\': None, '
                       "'context': None, 'suppress_context': False}"},
 'rpc-str-empty-image': {'log': "[('read', 0, 720, 720)]",
                         'raised': '{\'type\': \'builtins.TypeError\', \'message\': "unsupported '
                                   'operand type(s) for /: \'int\' and \'str\'", \'args\': '
                                   '\'("unsupported operand type(s) for /: \\\'int\\\' and '
                                   '\\\'str\\\'",)\', \'cause\': None, \'context\': None, '
                                   "'suppress_context': False}"},
 'rpc-true': {'header': 'sha256:e3d59bfaca2ead7c0b7b35a560fcd878d9c7a725c1bfb88c14c6f047392b10e1 '
                        'len=3144',
              'log': "[('read', 0, 720, 720), ('read', 720, 204, 204), ('read', 924, 204, 204), "
                     "('read', 1128, 204, 204), ('read', 1332, 204, 204), ('read', 1536, 204, "
                     "204), ('read', 1740, 204, 204), ('read', 1944, 204, 204), ('read', 2148, "
                     "204, 204), ('read', 2352, 204, 204), ('read', 2556, 204, 204)]",
              'metadata': 'sha256:a4c3f3a1825d8f2493c8809df453d7c444b0c97a389db79881bbf2ad7126e632 '
                          'len=31548',
              'n': 10,
              'positions': '[(720, 912, 924), (924, 1116, 1128), (1128, 1320, 1332), (1332, 1524, '
                           '1536), (1536, 1728, 1740), (1740, 1932, 1944), (1944, 2136, 2148), '
                           '(2148, 2340, 2352), (2352, 2544, 2556), (2556, 2748, 2760)]',
              'result_type': 'tuple'},
 'rpc-true-empty-image': {'header': 'sha256:e83ba957632ba35784ded54899d14377b70794ab416c9d1442c94c7529167b4e '
                                    'len=3143',
                          'log': "[('read', 0, 720, 720)]",
                          'metadata': "{'list': []}",
                          'n': 0,
                          'positions': '[]',
                          'result_type': 'tuple'},
 'rpc-zero': {'log': "[('read', 0, 720, 720)]",
              'raised': "{'type': 'builtins.ZeroDivisionError', 'message': 'division by zero', "
                        '\'args\': "(\'division by zero\',)", \'cause\': None, \'context\': None, '
                        "'suppress_context': False}"},
 'rpc-zero-empty-image': {'log': "[('read', 0, 720, 720)]",
                          'raised': "{'type': 'builtins.ZeroDivisionError', 'message': 'division "
                                    'by zero\', \'args\': "(\'division by zero\',)", \'cause\': '
                                    "None, 'context': None, 'suppress_context': False}"},
 'short-reads': {'log': "[('read', 0, 300, 300)]",
                 'raised': "{'type': 'construct.core.StreamError', 'message': 'Error in path "
                           '(parsing) -> prefix_suffix_data_locators -> '
                           'sample_data_line_number_locator\\nstream read less than specified '
                           'amount, expected 8, found 4\', \'args\': "(\'Error in path (parsing) '
                           '-> prefix_suffix_data_locators -> '
                           'sample_data_line_number_locator\\\\nstream read less than specified '
                           'amount, expected 8, found 4\',)", \'cause\': None, \'context\': None, '
                           "'suppress_context': False}"},
 'short-reads-rpc2': {'log': "[('read', 0, 300, 300)]",
                      'raised': "{'type': 'construct.core.StreamError', 'message': 'Error in path "
                                '(parsing) -> prefix_suffix_data_locators -> '
                                'sample_data_line_number_locator\\nstream read less than specified '
                                'amount, expected 8, found 4\', \'args\': "(\'Error in path '
                                '(parsing) -> prefix_suffix_data_locators -> '
                                'sample_data_line_number_locator\\\\nstream read less than '
                                'specified amount, expected 8, found 4\',)", \'cause\': None, '
                                "'context': None, 'suppress_context': False}"},
 'signatures': {'adjust_offsets': '(records, offset)',
                'parse_chunk': '(content, element_size)',
                'read_file_descriptor': '(f)',
                'read_metadata': '(f, records_per_chunk=1024)'},
 'slc-default': {'header': 'sha256:247df4668934742b3e2587fce1e025b9e74f4d3bf363e5f849a5f7a53df70332 '
                           'len=3143',
                 'log': "[('read', 0, 720, 720), ('read', 720, 4032, 4032)]",
                 'metadata': 'sha256:48eba0e8a76064494f815082db759da81eccb8452ab1a6e14d88933c2c89b61a '
                             'len=29885',
                 'n': 7,
                 'positions': '[(720, 1264, 1296), (1296, 1840, 1872), (1872, 2416, 2448), (2448, '
                              '2992, 3024), (3024, 3568, 3600), (3600, 4144, 4176), (4176, 4720, '
                              '4752)]',
                 'result_type': 'tuple'},
 'slc-rpc1': {'header': 'sha256:247df4668934742b3e2587fce1e025b9e74f4d3bf363e5f849a5f7a53df70332 '
                        'len=3143',
              'log': "[('read', 0, 720, 720), ('read', 720, 576, 576), ('read', 1296, 576, 576), "
                     "('read', 1872, 576, 576), ('read', 2448, 576, 576), ('read', 3024, 576, "
                     "576), ('read', 3600, 576, 576), ('read', 4176, 576, 576)]",
              'metadata': 'sha256:48eba0e8a76064494f815082db759da81eccb8452ab1a6e14d88933c2c89b61a '
                          'len=29885',
              'n': 7,
              'positions': '[(720, 1264, 1296), (1296, 1840, 1872), (1872, 2416, 2448), (2448, '
                           '2992, 3024), (3024, 3568, 3600), (3600, 4144, 4176), (4176, 4720, '
                           '4752)]',
              'result_type': 'tuple'},
 'slc-rpc10': {'header': 'sha256:247df4668934742b3e2587fce1e025b9e74f4d3bf363e5f849a5f7a53df70332 '
                         'len=3143',
               'log': "[('read', 0, 720, 720), ('read', 720, 4032, 4032)]",
               'metadata': 'sha256:48eba0e8a76064494f815082db759da81eccb8452ab1a6e14d88933c2c89b61a '
                           'len=29885',
               'n': 7,
               'positions': '[(720, 1264, 1296), (1296, 1840, 1872), (1872, 2416, 2448), (2448, '
                            '2992, 3024), (3024, 3568, 3600), (3600, 4144, 4176), (4176, 4720, '
                            '4752)]',
               'result_type': 'tuple'},
 'slc-rpc1000000000': {'header': 'sha256:247df4668934742b3e2587fce1e025b9e74f4d3bf363e5f849a5f7a53df70332 '
                                 'len=3143',
                       'log': "[('read', 0, 720, 720), ('read', 720, 4032, 4032)]",
                       'metadata': 'sha256:48eba0e8a76064494f815082db759da81eccb8452ab1a6e14d88933c2c89b61a '
                                   'len=29885',
                       'n': 7,
                       'positions': '[(720, 1264, 1296), (1296, 1840, 1872), (1872, 2416, 2448), '
                                    '(2448, 2992, 3024), (3024, 3568, 3600), (3600, 4144, 4176), '
                                    '(4176, 4720, 4752)]',
                       'result_type': 'tuple'},
 'slc-rpc1024': {'header': 'sha256:247df4668934742b3e2587fce1e025b9e74f4d3bf363e5f849a5f7a53df70332 '
                           'len=3143',
                 'log': "[('read', 0, 720, 720), ('read', 720, 4032, 4032)]",
                 'metadata': 'sha256:48eba0e8a76064494f815082db759da81eccb8452ab1a6e14d88933c2c89b61a '
                             'len=29885',
                 'n': 7,
                 'positions': '[(720, 1264, 1296), (1296, 1840, 1872), (1872, 2416, 2448), (2448, '
                              '2992, 3024), (3024, 3568, 3600), (3600, 4144, 4176), (4176, 4720, '
                              '4752)]',
                 'result_type': 'tuple'},
 'slc-rpc11': {'header': 'sha256:247df4668934742b3e2587fce1e025b9e74f4d3bf363e5f849a5f7a53df70332 '
                         'len=3143',
               'log': "[('read', 0, 720, 720), ('read', 720, 4032, 4032)]",
               'metadata': 'sha256:48eba0e8a76064494f815082db759da81eccb8452ab1a6e14d88933c2c89b61a '
                           'len=29885',
               'n': 7,
               'positions': '[(720, 1264, 1296), (1296, 1840, 1872), (1872, 2416, 2448), (2448, '
                            '2992, 3024), (3024, 3568, 3600), (3600, 4144, 4176), (4176, 4720, '
                            '4752)]',
               'result_type': 'tuple'},
 'slc-rpc2': {'header': 'sha256:247df4668934742b3e2587fce1e025b9e74f4d3bf363e5f849a5f7a53df70332 '
                        'len=3143',
              'log': "[('read', 0, 720, 720), ('read', 720, 1152, 1152), ('read', 1872, 1152, "
                     "1152), ('read', 3024, 1152, 1152), ('read', 4176, 576, 576)]",
              'metadata': 'sha256:48eba0e8a76064494f815082db759da81eccb8452ab1a6e14d88933c2c89b61a '
                          'len=29885',
              'n': 7,
              'positions': '[(720, 1264, 1296), (1296, 1840, 1872), (1872, 2416, 2448), (2448, '
                           '2992, 3024), (3024, 3568, 3600), (3600, 4144, 4176), (4176, 4720, '
                           '4752)]',
              'result_type': 'tuple'},
 'slc-rpc3': {'header': 'sha256:247df4668934742b3e2587fce1e025b9e74f4d3bf363e5f849a5f7a53df70332 '
                        'len=3143',
              'log': "[('read', 0, 720, 720), ('read', 720, 1728, 1728), ('read', 2448, 1728, "
                     "1728), ('read', 4176, 576, 576)]",
              'metadata': 'sha256:48eba0e8a76064494f815082db759da81eccb8452ab1a6e14d88933c2c89b61a '
                          'len=29885',
              'n': 7,
              'positions': '[(720, 1264, 1296), (1296, 1840, 1872), (1872, 2416, 2448), (2448, '
                           '2992, 3024), (3024, 3568, 3600), (3600, 4144, 4176), (4176, 4720, '
                           '4752)]',
              'result_type': 'tuple'},
 'slc-rpc4': {'header': 'sha256:247df4668934742b3e2587fce1e025b9e74f4d3bf363e5f849a5f7a53df70332 '
                        'len=3143',
              'log': "[('read', 0, 720, 720), ('read', 720, 2304, 2304), ('read', 3024, 1728, "
                     '1728)]',
              'metadata': 'sha256:48eba0e8a76064494f815082db759da81eccb8452ab1a6e14d88933c2c89b61a '
                          'len=29885',
              'n': 7,
              'positions': '[(720, 1264, 1296), (1296, 1840, 1872), (1872, 2416, 2448), (2448, '
                           '2992, 3024), (3024, 3568, 3600), (3600, 4144, 4176), (4176, 4720, '
                           '4752)]',
              'result_type': 'tuple'},
 'slc-rpc4096': {'header': 'sha256:247df4668934742b3e2587fce1e025b9e74f4d3bf363e5f849a5f7a53df70332 '
                           'len=3143',
                 'log': "[('read', 0, 720, 720), ('read', 720, 4032, 4032)]",
                 'metadata': 'sha256:48eba0e8a76064494f815082db759da81eccb8452ab1a6e14d88933c2c89b61a '
                             'len=29885',
                 'n': 7,
                 'positions': '[(720, 1264, 1296), (1296, 1840, 1872), (1872, 2416, 2448), (2448, '
                              '2992, 3024), (3024, 3568, 3600), (3600, 4144, 4176), (4176, 4720, '
                              '4752)]',
                 'result_type': 'tuple'},
 'slc-rpc5': {'header': 'sha256:247df4668934742b3e2587fce1e025b9e74f4d3bf363e5f849a5f7a53df70332 '
                        'len=3143',
              'log': "[('read', 0, 720, 720), ('read', 720, 2880, 2880), ('read', 3600, 1152, "
                     '1152)]',
              'metadata': 'sha256:48eba0e8a76064494f815082db759da81eccb8452ab1a6e14d88933c2c89b61a '
                          'len=29885',
              'n': 7,
              'positions': '[(720, 1264, 1296), (1296, 1840, 1872), (1872, 2416, 2448), (2448, '
                           '2992, 3024), (3024, 3568, 3600), (3600, 4144, 4176), (4176, 4720, '
                           '4752)]',
              'result_type': 'tuple'},
 'slc-rpc6': {'header': 'sha256:247df4668934742b3e2587fce1e025b9e74f4d3bf363e5f849a5f7a53df70332 '
                        'len=3143',
              'log': "[('read', 0, 720, 720), ('read', 720, 3456, 3456), ('read', 4176, 576, 576)]",
              'metadata': 'sha256:48eba0e8a76064494f815082db759da81eccb8452ab1a6e14d88933c2c89b61a '
                          'len=29885',
              'n': 7,
              'positions': '[(720, 1264, 1296), (1296, 1840, 1872), (1872, 2416, 2448), (2448, '
                           '2992, 3024), (3024, 3568, 3600), (3600, 4144, 4176), (4176, 4720, '
                           '4752)]',
              'result_type': 'tuple'},
 'slc-rpc64': {'header': 'sha256:247df4668934742b3e2587fce1e025b9e74f4d3bf363e5f849a5f7a53df70332 '
                         'len=3143',
               'log': "[('read', 0, 720, 720), ('read', 720, 4032, 4032)]",
               'metadata': 'sha256:48eba0e8a76064494f815082db759da81eccb8452ab1a6e14d88933c2c89b61a '
                           'len=29885',
               'n': 7,
               'positions': '[(720, 1264, 1296), (1296, 1840, 1872), (1872, 2416, 2448), (2448, '
                            '2992, 3024), (3024, 3568, 3600), (3600, 4144, 4176), (4176, 4720, '
                            '4752)]',
               'result_type': 'tuple'},
 'slc-rpc7': {'header': 'sha256:247df4668934742b3e2587fce1e025b9e74f4d3bf363e5f849a5f7a53df70332 '
                        'len=3143',
              'log': "[('read', 0, 720, 720), ('read', 720, 4032, 4032)]",
              'metadata': 'sha256:48eba0e8a76064494f815082db759da81eccb8452ab1a6e14d88933c2c89b61a '
                          'len=29885',
              'n': 7,
              'positions': '[(720, 1264, 1296), (1296, 1840, 1872), (1872, 2416, 2448), (2448, '
                           '2992, 3024), (3024, 3568, 3600), (3600, 4144, 4176), (4176, 4720, '
                           '4752)]',
              'result_type': 'tuple'},
 'slc-rpc8': {'header': 'sha256:247df4668934742b3e2587fce1e025b9e74f4d3bf363e5f849a5f7a53df70332 '
                        'len=3143',
              'log': "[('read', 0, 720, 720), ('read', 720, 4032, 4032)]",
              'metadata': 'sha256:48eba0e8a76064494f815082db759da81eccb8452ab1a6e14d88933c2c89b61a '
                          'len=29885',
              'n': 7,
              'positions': '[(720, 1264, 1296), (1296, 1840, 1872), (1872, 2416, 2448), (2448, '
                           '2992, 3024), (3024, 3568, 3600), (3600, 4144, 4176), (4176, 4720, '
                           '4752)]',
              'result_type': 'tuple'},
 'slc-rpc9': {'header': 'sha256:247df4668934742b3e2587fce1e025b9e74f4d3bf363e5f849a5f7a53df70332 '
                        'len=3143',
              'log': "[('read', 0, 720, 720), ('read', 720, 4032, 4032)]",
              'metadata': 'sha256:48eba0e8a76064494f815082db759da81eccb8452ab1a6e14d88933c2c89b61a '
                          'len=29885',
              'n': 7,
              'positions': '[(720, 1264, 1296), (1296, 1840, 1872), (1872, 2416, 2448), (2448, '
                           '2992, 3024), (3024, 3568, 3600), (3600, 4144, 4176), (4176, 4720, '
                           '4752)]',
              'result_type': 'tuple'},
 'suite-rpc1': {'header': "{'dict': [('number_of_sar_data_records', 'int:3'), "
                          "('sar_data_record_length', 'int:17')]}",
                'log': "[('read_file_descriptor',), ('read', 0, 2, 2), ('read', 2, 17, 17), "
                       "('read', 19, 17, 17), ('read', 36, 17, 17)]",
                'metadata': 'sha256:987ab2029626e6d86b1b0736833b02664f881577b05a6c11d0204130f2253868 '
                            'len=1051',
                'n': 3,
                'positions': '[(732, 733, 737), (749, 750, 754), (766, 767, 771)]',
                'result_type': 'tuple'},
 'suite-rpc2': {'header': "{'dict': [('number_of_sar_data_records', 'int:3'), "
                          "('sar_data_record_length', 'int:17')]}",
                'log': "[('read_file_descriptor',), ('read', 0, 2, 2), ('read', 2, 34, 34), "
                       "('read', 36, 17, 17)]",
                'metadata': 'sha256:987ab2029626e6d86b1b0736833b02664f881577b05a6c11d0204130f2253868 '
                            'len=1051',
                'n': 3,
                'positions': '[(732, 733, 737), (749, 750, 754), (766, 767, 771)]',
                'result_type': 'tuple'},
 'suite-rpc3': {'header': "{'dict': [('number_of_sar_data_records', 'int:3'), "
                          "('sar_data_record_length', 'int:17')]}",
                'log': "[('read_file_descriptor',), ('read', 0, 2, 2), ('read', 2, 51, 51)]",
                'metadata': 'sha256:987ab2029626e6d86b1b0736833b02664f881577b05a6c11d0204130f2253868 '
                            'len=1051',
                'n': 3,
                'positions': '[(732, 733, 737), (749, 750, 754), (766, 767, 771)]',
                'result_type': 'tuple'},
 'suite-rpc4': {'header': "{'dict': [('number_of_sar_data_records', 'int:3'), "
                          "('sar_data_record_length', 'int:17')]}",
                'log': "[('read_file_descriptor',), ('read', 0, 2, 2), ('read', 2, 51, 51)]",
                'metadata': 'sha256:987ab2029626e6d86b1b0736833b02664f881577b05a6c11d0204130f2253868 '
                            'len=1051',
                'n': 3,
                'positions': '[(732, 733, 737), (749, 750, 754), (766, 767, 771)]',
                'result_type': 'tuple'},
 'trailing-garbage': {'header': 'sha256:e3d59bfaca2ead7c0b7b35a560fcd878d9c7a725c1bfb88c14c6f047392b10e1 '
                                'len=3144',
                      'log': "[('read', 0, 720, 720), ('read', 720, 816, 816), ('read', 1536, 816, "
                             "816), ('read', 2352, 408, 408)]",
                      'metadata': 'sha256:a4c3f3a1825d8f2493c8809df453d7c444b0c97a389db79881bbf2ad7126e632 '
                                  'len=31548',
                      'n': 10,
                      'positions': '[(720, 912, 924), (924, 1116, 1128), (1128, 1320, 1332), '
                                   '(1332, 1524, 1536), (1536, 1728, 1740), (1740, 1932, 1944), '
                                   '(1944, 2136, 2148), (2148, 2340, 2352), (2352, 2544, 2556), '
                                   '(2556, 2748, 2760)]',
                      'result_type': 'tuple'},
 'truncated-at-chunk-border': {'log': "[('read', 0, 720, 720), ('read', 720, 612, 612), ('read', "
                                      "1332, 612, 612), ('read', 1944, 612, 0)]",
                               'raised': "{'type': 'construct.core.StreamError', 'message': 'Error "
                                         'in path (parsing) -> record_sequence_number\\nstream '
                                         "read less than specified amount, expected 4, found 0', "
                                         '\'args\': "(\'Error in path (parsing) -> '
                                         'record_sequence_number\\\\nstream read less than '
                                         'specified amount, expected 4, found 0\',)", \'cause\': '
                                         "None, 'context': None, 'suppress_context': False}"},
 'truncated-descriptor': {'log': "[('read', 0, 720, 500)]",
                          'raised': "{'type': 'construct.core.StreamError', 'message': 'Error in "
                                    'path (parsing) -> scansar_burst_data_information -> '
                                    'blanks\\nstream read less than specified amount, expected '
                                    '260, found 40\', \'args\': "(\'Error in path (parsing) -> '
                                    'scansar_burst_data_information -> blanks\\\\nstream read less '
                                    'than specified amount, expected 260, found 40\',)", '
                                    "'cause': None, 'context': None, 'suppress_context': False}"},
 'truncated-last-record': {'log': "[('read', 0, 720, 720), ('read', 720, 612, 612), ('read', 1332, "
                                  "612, 612), ('read', 1944, 612, 612), ('read', 2556, 204, 203)]",
                           'raised': "{'type': 'builtins.ValueError', 'message': 'sizes mismatch: "
                                     'chunksize is 0 but got 203 bytes\', \'args\': "(\'sizes '
                                     'mismatch: chunksize is 0 but got 203 bytes\',)", \'cause\': '
                                     "None, 'context': None, 'suppress_context': False}"},
 'truncated-mid-chunk': {'log': "[('read', 0, 720, 720), ('read', 720, 612, 612), ('read', 1332, "
                                '612, 221)]',
                         'raised': "{'type': 'builtins.ValueError', 'message': 'sizes mismatch: "
                                   'chunksize is 204 but got 221 bytes\', \'args\': "(\'sizes '
                                   'mismatch: chunksize is 204 but got 221 bytes\',)", \'cause\': '
                                   "None, 'context': None, 'suppress_context': False}"},
 'zero-length': {'log': "[('read', 0, 720, 720), ('read', 720, 0, 0)]",
                 'raised': "{'type': 'builtins.ZeroDivisionError', 'message': 'integer division or "
                           'modulo by zero\', \'args\': "(\'integer division or modulo by '
                           'zero\',)", \'cause\': None, \'context\': None, \'suppress_context\': '
                           'False}'}}
# EXPECTED-END

if __name__ == "__main__":
    if "--record" in sys.argv:
        source = open(__file__).read()
        head, rest = source.split("# EXPECTED-BEGIN\n", 1)
        _, tail = rest.split("# EXPECTED-END\n", 1)
        body = "EXPECTED = " + pprint.pformat(run(), width=100, sort_dicts=True) + "\n"
        open(__file__, "w").write(head + "# EXPECTED-BEGIN\n" + body + "# EXPECTED-END\n" + tail)
        print("recorded")
    else:
        test_equivalence()
        print(f"OK: {len(EXPECTED)} cases identical")
