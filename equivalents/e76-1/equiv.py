"""Equivalence check for refactoring 1 (common parse-only base for the datatypes adapters).

Run as a script (`python equiv.py`) or through pytest. The expected observations
were recorded from the unchanged code with `python equiv.py --record`.
"""

import datetime
import io
import pathlib
import pprint
import sys

import construct
from construct import Adapter, Bytes, Construct, Int8ub, Int32ub, Int64ub, Struct, Subconstruct, this

from ceos_alos2 import datatypes
from ceos_alos2.sar_image import enums

PUBLIC = [
    "AsciiInteger",
    "AsciiFloat",
    "AsciiComplex",
    "PaddedString",
    "Factor",
    "Metadata",
    "StripNullBytes",
    "DatetimeYdms",
    "DatetimeYdus",
]


def canon(value):
    if isinstance(value, dict):
        items = ", ".join(f"{k}={canon(v)}" for k, v in value.items() if k != "_io")
        return f"{type(value).__name__}({items})"
    if isinstance(value, (list, tuple)):
        return f"{type(value).__name__}[{', '.join(canon(v) for v in value)}]"
    return f"{type(value).__name__}:{value!r}"


def outcome(func, *args, **kwargs):
    try:
        result = func(*args, **kwargs)
    except BaseException as e:  # noqa: B902
        return (
            f"raise {type(e).__module__}.{type(e).__qualname__} args={e.args!r} str={str(e)!r}"
            f" cause={type(e.__cause__).__name__} context={type(e.__context__).__name__}"
            f" suppress={e.__suppress_context__}"
        )
    return "ok " + canon(result)


def instances():
    ref = datetime.datetime(2020, 5, 17, 13, 4, 5)
    ydms = Struct("year" / Int32ub, "day_of_year" / Int32ub, "milliseconds" / Int32ub)
    return {
        "AsciiInteger": (datatypes.AsciiInteger(4), [b"  16", b"    ", b"3989"], [16, -1, "16", None]),
        "AsciiFloat": (datatypes.AsciiFloat(8), [b" 165.820", b"        "], [1.5, "1.5", None]),
        "AsciiComplex": (
            datatypes.AsciiComplex(8),
            [b"1.558.42", b"        "],
            [1 + 2j, None, {"real": 1.0, "imaginary": 2.0}],
        ),
        "PaddedString": (datatypes.PaddedString(4), [b"abc ", b"ALOS", b"    "], ["abc", b"abc", None]),
        "Factor": (datatypes.Factor(Int32ub, 1e-3), [b"\x00\x00\x04\x00", b"\x00" * 4], [1.024, 1, None]),
        "Metadata": (
            datatypes.Metadata(Int8ub, units="m", long_name="x"),
            [b"\x07"],
            [(7, {"units": "m"}), 7, None],
        ),
        "StripNullBytes": (
            datatypes.StripNullBytes(Bytes(4)),
            [b"\x00a\x00\x00", b"\x00" * 4, b"abcd"],
            [b"a", b"abcd", None],
        ),
        "DatetimeYdms": (
            datatypes.DatetimeYdms(ydms),
            [b"\x00\x00\x07\xe4" + b"\x00\x00\x00\x3c" + b"\x00\x00\x30\x39"],
            [datetime.datetime(2020, 2, 29), {"year": 2020, "day_of_year": 1, "milliseconds": 0}, None],
        ),
        "DatetimeYdus": (
            datatypes.DatetimeYdus(Int64ub, ref),
            [b"\x00\x00\x00\x00\x00\x0f\x42\x41"],
            [datetime.datetime(2020, 5, 17, 0, 0, 1), 1000001, None],
        ),
    }


def observe():
    obs = {}

    obs["public names"] = canon([name for name in PUBLIC if hasattr(datatypes, name)])
    obs["module __all__"] = canon(getattr(datatypes, "__all__", None))
    obs["other public names"] = canon(
        sorted(
            name
            for name, value in vars(datatypes).items()
            if not name.startswith("_") and name not in PUBLIC and not isinstance(value, type(sys))
        )
    )

    for name, (instance, good, to_build) in instances().items():
        cls = getattr(datatypes, name)

        public_mro = [
            f"{c.__module__}.{c.__qualname__}"
            for c in cls.__mro__
            if not (c.__module__ == datatypes.__name__ and c.__name__.startswith("_"))
        ]
        obs[f"{name}: public mro"] = canon(public_mro)
        obs[f"{name}: identity"] = canon([cls.__name__, cls.__qualname__, cls.__module__])
        obs[f"{name}: bases towards construct"] = canon(
            [
                issubclass(cls, Adapter),
                issubclass(cls, Subconstruct),
                issubclass(cls, Construct),
                isinstance(instance, Adapter),
                type(instance) is cls,
            ]
        )
        obs[f"{name}: _encode callable"] = canon(callable(getattr(cls, "_encode", None)))
        obs[f"{name}: _encode overrides construct"] = canon(cls._encode is not Adapter._encode)
        obs[f"{name}: _decode defined on class"] = canon("_decode" in vars(cls))
        obs[f"{name}: sizeof"] = outcome(instance.sizeof)
        obs[f"{name}: flagbuildnone"] = canon(instance.flagbuildnone)

        for data in good:
            obs[f"{name}: parse {data!r}"] = outcome(instance.parse, data)
            obs[f"{name}: parse_stream {data!r}"] = outcome(
                instance.parse_stream, io.BytesIO(data + b"tail")
            )

        for obj in to_build:
            obs[f"{name}: build {obj!r}"] = outcome(instance.build, obj)
            obs[f"{name}: _encode {obj!r}"] = outcome(instance._encode, obj, {}, "(building)")
            stream = io.BytesIO()
            obs[f"{name}: build_stream {obj!r}"] = outcome(instance.build_stream, obj, stream)
            obs[f"{name}: build_stream {obj!r} wrote"] = canon(stream.getvalue())

        wrapped = Struct("before" / Int8ub, "field" / instance, "after" / Int8ub)
        stream = io.BytesIO()
        obs[f"{name}: build inside struct"] = outcome(
            wrapped.build_stream, {"before": 1, "field": to_build[0], "after": 2}, stream
        )
        # the leading field is written before the adapter refuses to build
        obs[f"{name}: build inside struct wrote"] = canon(stream.getvalue())

        renamed = "renamed" / instance
        obs[f"{name}: build renamed"] = outcome(renamed.build, to_build[0])

    # subclasses of the public classes still refuse to build unless they say otherwise
    class Doubled(datatypes.Factor):
        def _decode(self, obj, context, path):
            return super()._decode(obj, context, path) * 2

    class Roundtrip(datatypes.StripNullBytes):
        def _encode(self, obj, context, path):
            return obj.ljust(4, b"\x00")

    obs["subclass: parse"] = outcome(Doubled(Int8ub, 3).parse, b"\x02")
    obs["subclass: build"] = outcome(Doubled(Int8ub, 3).build, 12)
    obs["subclass override: build"] = outcome(Roundtrip(Bytes(4)).build, b"ab")
    obs["subclass override: parse"] = outcome(Roundtrip(Bytes(4)).parse, b"ab\x00\x00")

    # nested: DatetimeYdus reading its reference from the context, as in the signal data record
    record = Struct(
        "date"
        / datatypes.DatetimeYdms(
            Struct("year" / Int32ub, "day_of_year" / Int32ub, "milliseconds" / Int32ub)
        ),
        "precise" / datatypes.DatetimeYdus(Int64ub, this.date),
        "value" / datatypes.Metadata(datatypes.Factor(Int32ub, 1e-6), units="deg"),
    )
    raw = (
        b"\x00\x00\x07\xe4\x00\x00\x00\x3c\x00\x00\x30\x39"
        + b"\x00\x00\x00\x00\x00\x0f\x42\x41"
        + b"\x00\x0f\x42\x40"
    )
    obs["record: parse"] = outcome(record.parse, raw)
    obs["record: build"] = outcome(
        record.build,
        {"date": datetime.datetime(2020, 1, 1), "precise": datetime.datetime(2020, 1, 1), "value": 1},
    )

    # the flag adapter of the sar image enums is the one adapter that does build
    obs["Flag: build"] = outcome(enums.Flag(2).build, True)
    obs["Flag: parse"] = outcome(enums.Flag(2).parse, b"\x00\x01")

    obs["construct version"] = canon(construct.__version__)

    return obs


# --- recorded from the unchanged code -----------------------------------------
# EXPECTED-BEGIN
EXPECTED = {'AsciiComplex: _decode defined on class': 'bool:True',
 'AsciiComplex: _encode (1+2j)': "raise builtins.NotImplementedError args=() str='' cause=NoneType "
                                 'context=NoneType suppress=False',
 'AsciiComplex: _encode None': "raise builtins.NotImplementedError args=() str='' cause=NoneType "
                               'context=NoneType suppress=False',
 'AsciiComplex: _encode callable': 'bool:True',
 'AsciiComplex: _encode overrides construct': 'bool:True',
 "AsciiComplex: _encode {'real': 1.0, 'imaginary': 2.0}": 'raise builtins.NotImplementedError '
                                                          "args=() str='' cause=NoneType "
                                                          'context=NoneType suppress=False',
 'AsciiComplex: bases towards construct': 'list[bool:True, bool:True, bool:True, bool:True, '
                                          'bool:True]',
 'AsciiComplex: build (1+2j)': "raise builtins.NotImplementedError args=() str='' cause=NoneType "
                               'context=NoneType suppress=False',
 'AsciiComplex: build None': "raise builtins.NotImplementedError args=() str='' cause=NoneType "
                             'context=NoneType suppress=False',
 'AsciiComplex: build inside struct': "raise builtins.NotImplementedError args=() str='' "
                                      'cause=NoneType context=NoneType suppress=False',
 'AsciiComplex: build inside struct wrote': "bytes:b'\\x01'",
 'AsciiComplex: build renamed': "raise builtins.NotImplementedError args=() str='' cause=NoneType "
                                'context=NoneType suppress=False',
 "AsciiComplex: build {'real': 1.0, 'imaginary': 2.0}": 'raise builtins.NotImplementedError '
                                                        "args=() str='' cause=NoneType "
                                                        'context=NoneType suppress=False',
 'AsciiComplex: build_stream (1+2j)': "raise builtins.NotImplementedError args=() str='' "
                                      'cause=NoneType context=NoneType suppress=False',
 'AsciiComplex: build_stream (1+2j) wrote': "bytes:b''",
 'AsciiComplex: build_stream None': "raise builtins.NotImplementedError args=() str='' "
                                    'cause=NoneType context=NoneType suppress=False',
 'AsciiComplex: build_stream None wrote': "bytes:b''",
 "AsciiComplex: build_stream {'real': 1.0, 'imaginary': 2.0}": 'raise builtins.NotImplementedError '
                                                               "args=() str='' cause=NoneType "
                                                               'context=NoneType suppress=False',
 "AsciiComplex: build_stream {'real': 1.0, 'imaginary': 2.0} wrote": "bytes:b''",
 'AsciiComplex: flagbuildnone': 'bool:False',
 'AsciiComplex: identity': "list[str:'AsciiComplex', str:'AsciiComplex', "
                           "str:'ceos_alos2.datatypes']",
 "AsciiComplex: parse b'        '": 'ok complex:(nan+nanj)',
 "AsciiComplex: parse b'1.558.42'": 'ok complex:(1.55+8.42j)',
 "AsciiComplex: parse_stream b'        '": 'ok complex:(nan+nanj)',
 "AsciiComplex: parse_stream b'1.558.42'": 'ok complex:(1.55+8.42j)',
 'AsciiComplex: public mro': "list[str:'ceos_alos2.datatypes.AsciiComplex', "
                             "str:'construct.core.Adapter', str:'construct.core.Subconstruct', "
                             "str:'construct.core.Construct', str:'builtins.object']",
 'AsciiComplex: sizeof': 'ok int:8',
 'AsciiFloat: _decode defined on class': 'bool:True',
 "AsciiFloat: _encode '1.5'": "raise builtins.NotImplementedError args=() str='' cause=NoneType "
                              'context=NoneType suppress=False',
 'AsciiFloat: _encode 1.5': "raise builtins.NotImplementedError args=() str='' cause=NoneType "
                            'context=NoneType suppress=False',
 'AsciiFloat: _encode None': "raise builtins.NotImplementedError args=() str='' cause=NoneType "
                             'context=NoneType suppress=False',
 'AsciiFloat: _encode callable': 'bool:True',
 'AsciiFloat: _encode overrides construct': 'bool:True',
 'AsciiFloat: bases towards construct': 'list[bool:True, bool:True, bool:True, bool:True, '
                                        'bool:True]',
 "AsciiFloat: build '1.5'": "raise builtins.NotImplementedError args=() str='' cause=NoneType "
                            'context=NoneType suppress=False',
 'AsciiFloat: build 1.5': "raise builtins.NotImplementedError args=() str='' cause=NoneType "
                          'context=NoneType suppress=False',
 'AsciiFloat: build None': "raise builtins.NotImplementedError args=() str='' cause=NoneType "
                           'context=NoneType suppress=False',
 'AsciiFloat: build inside struct': "raise builtins.NotImplementedError args=() str='' "
                                    'cause=NoneType context=NoneType suppress=False',
 'AsciiFloat: build inside struct wrote': "bytes:b'\\x01'",
 'AsciiFloat: build renamed': "raise builtins.NotImplementedError args=() str='' cause=NoneType "
                              'context=NoneType suppress=False',
 "AsciiFloat: build_stream '1.5'": "raise builtins.NotImplementedError args=() str='' "
                                   'cause=NoneType context=NoneType suppress=False',
 "AsciiFloat: build_stream '1.5' wrote": "bytes:b''",
 'AsciiFloat: build_stream 1.5': "raise builtins.NotImplementedError args=() str='' cause=NoneType "
                                 'context=NoneType suppress=False',
 'AsciiFloat: build_stream 1.5 wrote': "bytes:b''",
 'AsciiFloat: build_stream None': "raise builtins.NotImplementedError args=() str='' "
                                  'cause=NoneType context=NoneType suppress=False',
 'AsciiFloat: build_stream None wrote': "bytes:b''",
 'AsciiFloat: flagbuildnone': 'bool:False',
 'AsciiFloat: identity': "list[str:'AsciiFloat', str:'AsciiFloat', str:'ceos_alos2.datatypes']",
 "AsciiFloat: parse b'        '": 'ok float:nan',
 "AsciiFloat: parse b' 165.820'": 'ok float:165.82',
 "AsciiFloat: parse_stream b'        '": 'ok float:nan',
 "AsciiFloat: parse_stream b' 165.820'": 'ok float:165.82',
 'AsciiFloat: public mro': "list[str:'ceos_alos2.datatypes.AsciiFloat', "
                           "str:'construct.core.Adapter', str:'construct.core.Subconstruct', "
                           "str:'construct.core.Construct', str:'builtins.object']",
 'AsciiFloat: sizeof': 'ok int:8',
 'AsciiInteger: _decode defined on class': 'bool:True',
 "AsciiInteger: _encode '16'": "raise builtins.NotImplementedError args=() str='' cause=NoneType "
                               'context=NoneType suppress=False',
 'AsciiInteger: _encode -1': "raise builtins.NotImplementedError args=() str='' cause=NoneType "
                             'context=NoneType suppress=False',
 'AsciiInteger: _encode 16': "raise builtins.NotImplementedError args=() str='' cause=NoneType "
                             'context=NoneType suppress=False',
 'AsciiInteger: _encode None': "raise builtins.NotImplementedError args=() str='' cause=NoneType "
                               'context=NoneType suppress=False',
 'AsciiInteger: _encode callable': 'bool:True',
 'AsciiInteger: _encode overrides construct': 'bool:True',
 'AsciiInteger: bases towards construct': 'list[bool:True, bool:True, bool:True, bool:True, '
                                          'bool:True]',
 "AsciiInteger: build '16'": "raise builtins.NotImplementedError args=() str='' cause=NoneType "
                             'context=NoneType suppress=False',
 'AsciiInteger: build -1': "raise builtins.NotImplementedError args=() str='' cause=NoneType "
                           'context=NoneType suppress=False',
 'AsciiInteger: build 16': "raise builtins.NotImplementedError args=() str='' cause=NoneType "
                           'context=NoneType suppress=False',
 'AsciiInteger: build None': "raise builtins.NotImplementedError args=() str='' cause=NoneType "
                             'context=NoneType suppress=False',
 'AsciiInteger: build inside struct': "raise builtins.NotImplementedError args=() str='' "
                                      'cause=NoneType context=NoneType suppress=False',
 'AsciiInteger: build inside struct wrote': "bytes:b'\\x01'",
 'AsciiInteger: build renamed': "raise builtins.NotImplementedError args=() str='' cause=NoneType "
                                'context=NoneType suppress=False',
 "AsciiInteger: build_stream '16'": "raise builtins.NotImplementedError args=() str='' "
                                    'cause=NoneType context=NoneType suppress=False',
 "AsciiInteger: build_stream '16' wrote": "bytes:b''",
 'AsciiInteger: build_stream -1': "raise builtins.NotImplementedError args=() str='' "
                                  'cause=NoneType context=NoneType suppress=False',
 'AsciiInteger: build_stream -1 wrote': "bytes:b''",
 'AsciiInteger: build_stream 16': "raise builtins.NotImplementedError args=() str='' "
                                  'cause=NoneType context=NoneType suppress=False',
 'AsciiInteger: build_stream 16 wrote': "bytes:b''",
 'AsciiInteger: build_stream None': "raise builtins.NotImplementedError args=() str='' "
                                    'cause=NoneType context=NoneType suppress=False',
 'AsciiInteger: build_stream None wrote': "bytes:b''",
 'AsciiInteger: flagbuildnone': 'bool:False',
 'AsciiInteger: identity': "list[str:'AsciiInteger', str:'AsciiInteger', "
                           "str:'ceos_alos2.datatypes']",
 "AsciiInteger: parse b'    '": 'ok int:-1',
 "AsciiInteger: parse b'  16'": 'ok int:16',
 "AsciiInteger: parse b'3989'": 'ok int:3989',
 "AsciiInteger: parse_stream b'    '": 'ok int:-1',
 "AsciiInteger: parse_stream b'  16'": 'ok int:16',
 "AsciiInteger: parse_stream b'3989'": 'ok int:3989',
 'AsciiInteger: public mro': "list[str:'ceos_alos2.datatypes.AsciiInteger', "
                             "str:'construct.core.Adapter', str:'construct.core.Subconstruct', "
                             "str:'construct.core.Construct', str:'builtins.object']",
 'AsciiInteger: sizeof': 'ok int:4',
 'DatetimeYdms: _decode defined on class': 'bool:True',
 'DatetimeYdms: _encode None': "raise builtins.NotImplementedError args=() str='' cause=NoneType "
                               'context=NoneType suppress=False',
 'DatetimeYdms: _encode callable': 'bool:True',
 'DatetimeYdms: _encode datetime.datetime(2020, 2, 29, 0, 0)': 'raise builtins.NotImplementedError '
                                                               "args=() str='' cause=NoneType "
                                                               'context=NoneType suppress=False',
 'DatetimeYdms: _encode overrides construct': 'bool:True',
 "DatetimeYdms: _encode {'year': 2020, 'day_of_year': 1, 'milliseconds': 0}": 'raise '
                                                                              'builtins.NotImplementedError '
                                                                              "args=() str='' "
                                                                              'cause=NoneType '
                                                                              'context=NoneType '
                                                                              'suppress=False',
 'DatetimeYdms: bases towards construct': 'list[bool:True, bool:True, bool:True, bool:True, '
                                          'bool:True]',
 'DatetimeYdms: build None': "raise builtins.NotImplementedError args=() str='' cause=NoneType "
                             'context=NoneType suppress=False',
 'DatetimeYdms: build datetime.datetime(2020, 2, 29, 0, 0)': 'raise builtins.NotImplementedError '
                                                             "args=() str='' cause=NoneType "
                                                             'context=NoneType suppress=False',
 'DatetimeYdms: build inside struct': "raise builtins.NotImplementedError args=() str='' "
                                      'cause=NoneType context=NoneType suppress=False',
 'DatetimeYdms: build inside struct wrote': "bytes:b'\\x01'",
 'DatetimeYdms: build renamed': "raise builtins.NotImplementedError args=() str='' cause=NoneType "
                                'context=NoneType suppress=False',
 "DatetimeYdms: build {'year': 2020, 'day_of_year': 1, 'milliseconds': 0}": 'raise '
                                                                            'builtins.NotImplementedError '
                                                                            "args=() str='' "
                                                                            'cause=NoneType '
                                                                            'context=NoneType '
                                                                            'suppress=False',
 'DatetimeYdms: build_stream None': "raise builtins.NotImplementedError args=() str='' "
                                    'cause=NoneType context=NoneType suppress=False',
 'DatetimeYdms: build_stream None wrote': "bytes:b''",
 'DatetimeYdms: build_stream datetime.datetime(2020, 2, 29, 0, 0)': 'raise '
                                                                    'builtins.NotImplementedError '
                                                                    "args=() str='' cause=NoneType "
                                                                    'context=NoneType '
                                                                    'suppress=False',
 'DatetimeYdms: build_stream datetime.datetime(2020, 2, 29, 0, 0) wrote': "bytes:b''",
 "DatetimeYdms: build_stream {'year': 2020, 'day_of_year': 1, 'milliseconds': 0}": 'raise '
                                                                                   'builtins.NotImplementedError '
                                                                                   "args=() str='' "
                                                                                   'cause=NoneType '
                                                                                   'context=NoneType '
                                                                                   'suppress=False',
 "DatetimeYdms: build_stream {'year': 2020, 'day_of_year': 1, 'milliseconds': 0} wrote": "bytes:b''",
 'DatetimeYdms: flagbuildnone': 'bool:False',
 'DatetimeYdms: identity': "list[str:'DatetimeYdms', str:'DatetimeYdms', "
                           "str:'ceos_alos2.datatypes']",
 "DatetimeYdms: parse b'\\x00\\x00\\x07\\xe4\\x00\\x00\\x00<\\x00\\x0009'": 'ok '
                                                                            'datetime:datetime.datetime(2020, '
                                                                            '2, 29, 0, 0, 12, '
                                                                            '345000)',
 "DatetimeYdms: parse_stream b'\\x00\\x00\\x07\\xe4\\x00\\x00\\x00<\\x00\\x0009'": 'ok '
                                                                                   'datetime:datetime.datetime(2020, '
                                                                                   '2, 29, 0, 0, '
                                                                                   '12, 345000)',
 'DatetimeYdms: public mro': "list[str:'ceos_alos2.datatypes.DatetimeYdms', "
                             "str:'construct.core.Adapter', str:'construct.core.Subconstruct', "
                             "str:'construct.core.Construct', str:'builtins.object']",
 'DatetimeYdms: sizeof': 'ok int:12',
 'DatetimeYdus: _decode defined on class': 'bool:True',
 'DatetimeYdus: _encode 1000001': "raise builtins.NotImplementedError args=() str='' "
                                  'cause=NoneType context=NoneType suppress=False',
 'DatetimeYdus: _encode None': "raise builtins.NotImplementedError args=() str='' cause=NoneType "
                               'context=NoneType suppress=False',
 'DatetimeYdus: _encode callable': 'bool:True',
 'DatetimeYdus: _encode datetime.datetime(2020, 5, 17, 0, 0, 1)': 'raise '
                                                                  'builtins.NotImplementedError '
                                                                  "args=() str='' cause=NoneType "
                                                                  'context=NoneType suppress=False',
 'DatetimeYdus: _encode overrides construct': 'bool:True',
 'DatetimeYdus: bases towards construct': 'list[bool:True, bool:True, bool:True, bool:True, '
                                          'bool:True]',
 'DatetimeYdus: build 1000001': "raise builtins.NotImplementedError args=() str='' cause=NoneType "
                                'context=NoneType suppress=False',
 'DatetimeYdus: build None': "raise builtins.NotImplementedError args=() str='' cause=NoneType "
                             'context=NoneType suppress=False',
 'DatetimeYdus: build datetime.datetime(2020, 5, 17, 0, 0, 1)': 'raise '
                                                                'builtins.NotImplementedError '
                                                                "args=() str='' cause=NoneType "
                                                                'context=NoneType suppress=False',
 'DatetimeYdus: build inside struct': "raise builtins.NotImplementedError args=() str='' "
                                      'cause=NoneType context=NoneType suppress=False',
 'DatetimeYdus: build inside struct wrote': "bytes:b'\\x01'",
 'DatetimeYdus: build renamed': "raise builtins.NotImplementedError args=() str='' cause=NoneType "
                                'context=NoneType suppress=False',
 'DatetimeYdus: build_stream 1000001': "raise builtins.NotImplementedError args=() str='' "
                                       'cause=NoneType context=NoneType suppress=False',
 'DatetimeYdus: build_stream 1000001 wrote': "bytes:b''",
 'DatetimeYdus: build_stream None': "raise builtins.NotImplementedError args=() str='' "
                                    'cause=NoneType context=NoneType suppress=False',
 'DatetimeYdus: build_stream None wrote': "bytes:b''",
 'DatetimeYdus: build_stream datetime.datetime(2020, 5, 17, 0, 0, 1)': 'raise '
                                                                       'builtins.NotImplementedError '
                                                                       "args=() str='' "
                                                                       'cause=NoneType '
                                                                       'context=NoneType '
                                                                       'suppress=False',
 'DatetimeYdus: build_stream datetime.datetime(2020, 5, 17, 0, 0, 1) wrote': "bytes:b''",
 'DatetimeYdus: flagbuildnone': 'bool:False',
 'DatetimeYdus: identity': "list[str:'DatetimeYdus', str:'DatetimeYdus', "
                           "str:'ceos_alos2.datatypes']",
 "DatetimeYdus: parse b'\\x00\\x00\\x00\\x00\\x00\\x0fBA'": 'ok datetime:datetime.datetime(2020, '
                                                            '5, 17, 0, 0, 1, 1)',
 "DatetimeYdus: parse_stream b'\\x00\\x00\\x00\\x00\\x00\\x0fBA'": 'ok '
                                                                   'datetime:datetime.datetime(2020, '
                                                                   '5, 17, 0, 0, 1, 1)',
 'DatetimeYdus: public mro': "list[str:'ceos_alos2.datatypes.DatetimeYdus', "
                             "str:'construct.core.Adapter', str:'construct.core.Subconstruct', "
                             "str:'construct.core.Construct', str:'builtins.object']",
 'DatetimeYdus: sizeof': 'ok int:8',
 'Factor: _decode defined on class': 'bool:True',
 'Factor: _encode 1': "raise builtins.NotImplementedError args=() str='' cause=NoneType "
                      'context=NoneType suppress=False',
 'Factor: _encode 1.024': "raise builtins.NotImplementedError args=() str='' cause=NoneType "
                          'context=NoneType suppress=False',
 'Factor: _encode None': "raise builtins.NotImplementedError args=() str='' cause=NoneType "
                         'context=NoneType suppress=False',
 'Factor: _encode callable': 'bool:True',
 'Factor: _encode overrides construct': 'bool:True',
 'Factor: bases towards construct': 'list[bool:True, bool:True, bool:True, bool:True, bool:True]',
 'Factor: build 1': "raise builtins.NotImplementedError args=() str='' cause=NoneType "
                    'context=NoneType suppress=False',
 'Factor: build 1.024': "raise builtins.NotImplementedError args=() str='' cause=NoneType "
                        'context=NoneType suppress=False',
 'Factor: build None': "raise builtins.NotImplementedError args=() str='' cause=NoneType "
                       'context=NoneType suppress=False',
 'Factor: build inside struct': "raise builtins.NotImplementedError args=() str='' cause=NoneType "
                                'context=NoneType suppress=False',
 'Factor: build inside struct wrote': "bytes:b'\\x01'",
 'Factor: build renamed': "raise builtins.NotImplementedError args=() str='' cause=NoneType "
                          'context=NoneType suppress=False',
 'Factor: build_stream 1': "raise builtins.NotImplementedError args=() str='' cause=NoneType "
                           'context=NoneType suppress=False',
 'Factor: build_stream 1 wrote': "bytes:b''",
 'Factor: build_stream 1.024': "raise builtins.NotImplementedError args=() str='' cause=NoneType "
                               'context=NoneType suppress=False',
 'Factor: build_stream 1.024 wrote': "bytes:b''",
 'Factor: build_stream None': "raise builtins.NotImplementedError args=() str='' cause=NoneType "
                              'context=NoneType suppress=False',
 'Factor: build_stream None wrote': "bytes:b''",
 'Factor: flagbuildnone': 'bool:False',
 'Factor: identity': "list[str:'Factor', str:'Factor', str:'ceos_alos2.datatypes']",
 "Factor: parse b'\\x00\\x00\\x00\\x00'": 'ok float:0.0',
 "Factor: parse b'\\x00\\x00\\x04\\x00'": 'ok float:1.024',
 "Factor: parse_stream b'\\x00\\x00\\x00\\x00'": 'ok float:0.0',
 "Factor: parse_stream b'\\x00\\x00\\x04\\x00'": 'ok float:1.024',
 'Factor: public mro': "list[str:'ceos_alos2.datatypes.Factor', str:'construct.core.Adapter', "
                       "str:'construct.core.Subconstruct', str:'construct.core.Construct', "
                       "str:'builtins.object']",
 'Factor: sizeof': 'ok int:4',
 'Flag: build': "ok bytes:b'\\x00\\x01'",
 'Flag: parse': 'ok bool:True',
 'Metadata: _decode defined on class': 'bool:True',
 "Metadata: _encode (7, {'units': 'm'})": "raise builtins.NotImplementedError args=() str='' "
                                          'cause=NoneType context=NoneType suppress=False',
 'Metadata: _encode 7': "raise builtins.NotImplementedError args=() str='' cause=NoneType "
                        'context=NoneType suppress=False',
 'Metadata: _encode None': "raise builtins.NotImplementedError args=() str='' cause=NoneType "
                           'context=NoneType suppress=False',
 'Metadata: _encode callable': 'bool:True',
 'Metadata: _encode overrides construct': 'bool:True',
 'Metadata: bases towards construct': 'list[bool:True, bool:True, bool:True, bool:True, bool:True]',
 "Metadata: build (7, {'units': 'm'})": "raise builtins.NotImplementedError args=() str='' "
                                        'cause=NoneType context=NoneType suppress=False',
 'Metadata: build 7': "raise builtins.NotImplementedError args=() str='' cause=NoneType "
                      'context=NoneType suppress=False',
 'Metadata: build None': "raise builtins.NotImplementedError args=() str='' cause=NoneType "
                         'context=NoneType suppress=False',
 'Metadata: build inside struct': "raise builtins.NotImplementedError args=() str='' "
                                  'cause=NoneType context=NoneType suppress=False',
 'Metadata: build inside struct wrote': "bytes:b'\\x01'",
 'Metadata: build renamed': "raise builtins.NotImplementedError args=() str='' cause=NoneType "
                            'context=NoneType suppress=False',
 "Metadata: build_stream (7, {'units': 'm'})": "raise builtins.NotImplementedError args=() str='' "
                                               'cause=NoneType context=NoneType suppress=False',
 "Metadata: build_stream (7, {'units': 'm'}) wrote": "bytes:b''",
 'Metadata: build_stream 7': "raise builtins.NotImplementedError args=() str='' cause=NoneType "
                             'context=NoneType suppress=False',
 'Metadata: build_stream 7 wrote': "bytes:b''",
 'Metadata: build_stream None': "raise builtins.NotImplementedError args=() str='' cause=NoneType "
                                'context=NoneType suppress=False',
 'Metadata: build_stream None wrote': "bytes:b''",
 'Metadata: flagbuildnone': 'bool:False',
 'Metadata: identity': "list[str:'Metadata', str:'Metadata', str:'ceos_alos2.datatypes']",
 "Metadata: parse b'\\x07'": "ok tuple[int:7, dict(units=str:'m', long_name=str:'x')]",
 "Metadata: parse_stream b'\\x07'": "ok tuple[int:7, dict(units=str:'m', long_name=str:'x')]",
 'Metadata: public mro': "list[str:'ceos_alos2.datatypes.Metadata', str:'construct.core.Adapter', "
                         "str:'construct.core.Subconstruct', str:'construct.core.Construct', "
                         "str:'builtins.object']",
 'Metadata: sizeof': 'ok int:1',
 'PaddedString: _decode defined on class': 'bool:True',
 "PaddedString: _encode 'abc'": "raise builtins.NotImplementedError args=() str='' cause=NoneType "
                                'context=NoneType suppress=False',
 'PaddedString: _encode None': "raise builtins.NotImplementedError args=() str='' cause=NoneType "
                               'context=NoneType suppress=False',
 "PaddedString: _encode b'abc'": "raise builtins.NotImplementedError args=() str='' cause=NoneType "
                                 'context=NoneType suppress=False',
 'PaddedString: _encode callable': 'bool:True',
 'PaddedString: _encode overrides construct': 'bool:True',
 'PaddedString: bases towards construct': 'list[bool:True, bool:True, bool:True, bool:True, '
                                          'bool:True]',
 "PaddedString: build 'abc'": "raise builtins.NotImplementedError args=() str='' cause=NoneType "
                              'context=NoneType suppress=False',
 'PaddedString: build None': "raise builtins.NotImplementedError args=() str='' cause=NoneType "
                             'context=NoneType suppress=False',
 "PaddedString: build b'abc'": "raise builtins.NotImplementedError args=() str='' cause=NoneType "
                               'context=NoneType suppress=False',
 'PaddedString: build inside struct': "raise builtins.NotImplementedError args=() str='' "
                                      'cause=NoneType context=NoneType suppress=False',
 'PaddedString: build inside struct wrote': "bytes:b'\\x01'",
 'PaddedString: build renamed': "raise builtins.NotImplementedError args=() str='' cause=NoneType "
                                'context=NoneType suppress=False',
 "PaddedString: build_stream 'abc'": "raise builtins.NotImplementedError args=() str='' "
                                     'cause=NoneType context=NoneType suppress=False',
 "PaddedString: build_stream 'abc' wrote": "bytes:b''",
 'PaddedString: build_stream None': "raise builtins.NotImplementedError args=() str='' "
                                    'cause=NoneType context=NoneType suppress=False',
 'PaddedString: build_stream None wrote': "bytes:b''",
 "PaddedString: build_stream b'abc'": "raise builtins.NotImplementedError args=() str='' "
                                      'cause=NoneType context=NoneType suppress=False',
 "PaddedString: build_stream b'abc' wrote": "bytes:b''",
 'PaddedString: flagbuildnone': 'bool:False',
 'PaddedString: identity': "list[str:'PaddedString', str:'PaddedString', "
                           "str:'ceos_alos2.datatypes']",
 "PaddedString: parse b'    '": "ok str:''",
 "PaddedString: parse b'ALOS'": "ok str:'ALOS'",
 "PaddedString: parse b'abc '": "ok str:'abc'",
 "PaddedString: parse_stream b'    '": "ok str:''",
 "PaddedString: parse_stream b'ALOS'": "ok str:'ALOS'",
 "PaddedString: parse_stream b'abc '": "ok str:'abc'",
 'PaddedString: public mro': "list[str:'ceos_alos2.datatypes.PaddedString', "
                             "str:'construct.core.Adapter', str:'construct.core.Subconstruct', "
                             "str:'construct.core.Construct', str:'builtins.object']",
 'PaddedString: sizeof': 'ok int:4',
 'StripNullBytes: _decode defined on class': 'bool:True',
 'StripNullBytes: _encode None': "raise builtins.NotImplementedError args=() str='' cause=NoneType "
                                 'context=NoneType suppress=False',
 "StripNullBytes: _encode b'a'": "raise builtins.NotImplementedError args=() str='' cause=NoneType "
                                 'context=NoneType suppress=False',
 "StripNullBytes: _encode b'abcd'": "raise builtins.NotImplementedError args=() str='' "
                                    'cause=NoneType context=NoneType suppress=False',
 'StripNullBytes: _encode callable': 'bool:True',
 'StripNullBytes: _encode overrides construct': 'bool:True',
 'StripNullBytes: bases towards construct': 'list[bool:True, bool:True, bool:True, bool:True, '
                                            'bool:True]',
 'StripNullBytes: build None': "raise builtins.NotImplementedError args=() str='' cause=NoneType "
                               'context=NoneType suppress=False',
 "StripNullBytes: build b'a'": "raise builtins.NotImplementedError args=() str='' cause=NoneType "
                               'context=NoneType suppress=False',
 "StripNullBytes: build b'abcd'": "raise builtins.NotImplementedError args=() str='' "
                                  'cause=NoneType context=NoneType suppress=False',
 'StripNullBytes: build inside struct': "raise builtins.NotImplementedError args=() str='' "
                                        'cause=NoneType context=NoneType suppress=False',
 'StripNullBytes: build inside struct wrote': "bytes:b'\\x01'",
 'StripNullBytes: build renamed': "raise builtins.NotImplementedError args=() str='' "
                                  'cause=NoneType context=NoneType suppress=False',
 'StripNullBytes: build_stream None': "raise builtins.NotImplementedError args=() str='' "
                                      'cause=NoneType context=NoneType suppress=False',
 'StripNullBytes: build_stream None wrote': "bytes:b''",
 "StripNullBytes: build_stream b'a'": "raise builtins.NotImplementedError args=() str='' "
                                      'cause=NoneType context=NoneType suppress=False',
 "StripNullBytes: build_stream b'a' wrote": "bytes:b''",
 "StripNullBytes: build_stream b'abcd'": "raise builtins.NotImplementedError args=() str='' "
                                         'cause=NoneType context=NoneType suppress=False',
 "StripNullBytes: build_stream b'abcd' wrote": "bytes:b''",
 'StripNullBytes: flagbuildnone': 'bool:False',
 'StripNullBytes: identity': "list[str:'StripNullBytes', str:'StripNullBytes', "
                             "str:'ceos_alos2.datatypes']",
 "StripNullBytes: parse b'\\x00\\x00\\x00\\x00'": "ok bytes:b''",
 "StripNullBytes: parse b'\\x00a\\x00\\x00'": "ok bytes:b'a'",
 "StripNullBytes: parse b'abcd'": "ok bytes:b'abcd'",
 "StripNullBytes: parse_stream b'\\x00\\x00\\x00\\x00'": "ok bytes:b''",
 "StripNullBytes: parse_stream b'\\x00a\\x00\\x00'": "ok bytes:b'a'",
 "StripNullBytes: parse_stream b'abcd'": "ok bytes:b'abcd'",
 'StripNullBytes: public mro': "list[str:'ceos_alos2.datatypes.StripNullBytes', "
                               "str:'construct.core.Adapter', str:'construct.core.Subconstruct', "
                               "str:'construct.core.Construct', str:'builtins.object']",
 'StripNullBytes: sizeof': 'ok int:4',
 'construct version': "str:'2.10.70'",
 'module __all__': 'NoneType:None',
 'other public names': "list[str:'Adapter', str:'PaddedString_', str:'Struct']",
 'public names': "list[str:'AsciiInteger', str:'AsciiFloat', str:'AsciiComplex', "
                 "str:'PaddedString', str:'Factor', str:'Metadata', str:'StripNullBytes', "
                 "str:'DatetimeYdms', str:'DatetimeYdus']",
 'record: build': "raise builtins.NotImplementedError args=() str='' cause=NoneType "
                  'context=NoneType suppress=False',
 'record: parse': 'ok Container(date=datetime:datetime.datetime(2020, 2, 29, 0, 0, 12, 345000), '
                  'precise=datetime:datetime.datetime(2020, 2, 29, 0, 0, 1, 1), '
                  "value=tuple[float:1.0, dict(units=str:'deg')])",
 'subclass override: build': "ok bytes:b'ab\\x00\\x00'",
 'subclass override: parse': "ok bytes:b'ab'",
 'subclass: build': "raise builtins.NotImplementedError args=() str='' cause=NoneType "
                    'context=NoneType suppress=False',
 'subclass: parse': 'ok int:12'}
# EXPECTED-END


def compare():
    actual = observe()
    problems = []
    for key in sorted(set(actual) | set(EXPECTED)):
        if key not in actual:
            problems.append(f"missing observation {key!r}")
        elif key not in EXPECTED:
            problems.append(f"unexpected observation {key!r}: {actual[key]}")
        elif actual[key] != EXPECTED[key]:
            problems.append(f"{key!r}:\n    expected {EXPECTED[key]}\n    actual   {actual[key]}")
    return actual, problems


def test_equivalence():
    actual, problems = compare()
    assert len(actual) > 50
    assert not problems, "\n".join(problems)


def record():
    path = pathlib.Path(__file__)
    source = path.read_text()
    head, rest = source.split("# EXPECTED-BEGIN\n", 1)
    _, tail = rest.split("# EXPECTED-END\n", 1)
    body = "EXPECTED = " + pprint.pformat(observe(), width=100, sort_dicts=True) + "\n"
    path.write_text(head + "# EXPECTED-BEGIN\n" + body + "# EXPECTED-END\n" + tail)


if __name__ == "__main__":
    if "--record" in sys.argv[1:]:
        record()
        print("recorded", len(observe()), "observations")
        sys.exit(0)

    actual, problems = compare()
    if problems:
        print("\n".join(problems))
        print(f"FAILED: {len(problems)} of {len(actual)} observations differ")
        sys.exit(1)
    print(f"OK: {len(actual)} observations identical to the recorded ones")
