"""Equivalence check for refactoring 1 (ceos_alos2/datatypes.py).

Expected values were recorded from the unchanged code.
Run: PYTHONPATH=/tmp/wt13/e106 /venv/bin/python _eq/1/equiv.py
"""
import datetime
import math

import construct
from construct import Int32ub, Int64ub, Struct, this

from ceos_alos2 import datatypes as dt


def raises(exc_type, func, *args, message=None):
    try:
        func(*args)
    except Exception as e:  # noqa: BLE001
        assert type(e) is exc_type, (type(e), e)
        if message is not None:
            assert message in str(e), str(e)
        return e
    raise AssertionError(f"no exception, expected {exc_type}")


# --- public names -----------------------------------------------------------
for name in [
    "AsciiInteger", "AsciiFloat", "AsciiComplex", "PaddedString", "Factor",
    "Metadata", "StripNullBytes", "DatetimeYdms", "DatetimeYdus", "PaddedString_",
    "Adapter", "Struct", "datetime",
]:
    assert hasattr(dt, name), name

# --- structure of the wrapped constructs -----------------------------------
for cls in (dt.AsciiInteger, dt.AsciiFloat, dt.PaddedString):
    for n in (0, 1, 4, 16):
        c = cls(n)
        assert isinstance(c, construct.Adapter)
        sub = c.subcon
        assert type(sub).__name__ == "StringEncoded", type(sub)
        assert sub.encoding == "ascii"
        assert sub.sizeof() == n == c.sizeof()
    # each instance gets its own base
    assert cls(4).subcon is not cls(4).subcon
    raises(TypeError, cls)

# --- AsciiInteger ----------------------------------------------------------
ai = dt.AsciiInteger(6)
cases = {
    b"     1": 1, b"1     ": 1, b"  12  ": 12, b"000012": 12, b"    -7": -7, b"   +7 ": 7,
    b"      ": -1, b"\x00\x00\x00\x00\x00\x00": -1, b"12\x00\x00\x00\x00": 12,
    b"\t\n 3\r ": 3, b"1_0   ": 10, b"    -1": -1, b"     0": 0,
}
for raw, expected in cases.items():
    got = ai.parse(raw)
    assert got == expected and type(got) is int, (raw, got)
for raw in (b"  1.5 ", b"   abc", b"  1 2 ", b"   0x1", b"    - "):
    e = raises(ValueError, ai.parse, raw, message="invalid literal for int() with base 10")
raises(construct.StringError, ai.parse, b"\xff     ")
raises(construct.StreamError, ai.parse, b"123")
assert dt.AsciiInteger(0).parse(b"") == -1
# direct calls
assert ai._decode("", None, "p") == -1
assert ai._decode("  ", None, "p") == -1
assert ai._decode(" 42 ", None, "p") == 42
assert ai._decode(b" 42 ", None, "p") == 42
assert ai._decode(b"  ", None, "p") == -1
raises(AttributeError, ai._decode, None, None, "p")
raises(AttributeError, ai._decode, 3, None, "p")
raises(NotImplementedError, ai._encode, 1, None, "p")
raises(NotImplementedError, ai.build, 1)

# --- AsciiFloat ------------------------------------------------------------
af = dt.AsciiFloat(8)
fcases = {
    b"     1.5": 1.5, b"1.5     ": 1.5, b" -2.5E+1": -25.0, b"      10": 10.0, b"    1e-3": 1e-3,
    b"     inf": math.inf, b"    -inf": -math.inf, b"  1_0.5 ": 10.5, b"     0.0": 0.0, b"    -0.0": -0.0,
}
for raw, expected in fcases.items():
    got = af.parse(raw)
    assert type(got) is float and got == expected, (raw, got)
    assert math.copysign(1, got) == math.copysign(1, expected)
for raw in (b"        ", b"\x00" * 8, b"     nan", b"  NaN   ", b" \t\n\r    "):
    got = af.parse(raw)
    assert type(got) is float and math.isnan(got), (raw, got)
for raw in (b"  1,5   ", b"   abc  ", b"  1 2   ", b"   -    "):
    raises(ValueError, af.parse, raw, message="could not convert string to float")
assert math.isnan(dt.AsciiFloat(0).parse(b""))
assert math.isnan(af._decode("", None, "p"))
assert math.isnan(af._decode(b"   ", None, "p"))
assert af._decode(b" 2.5 ", None, "p") == 2.5
assert af._decode(" 2.5 ", None, "p") == 2.5
raises(AttributeError, af._decode, None, None, "p")
raises(AttributeError, af._decode, 2.5, None, "p")
raises(NotImplementedError, af._encode, 1.0, None, "p")

# --- AsciiComplex (built on AsciiFloat) ------------------------------------
ac = dt.AsciiComplex(16)
assert ac.parse(b"     1.5    -2.0") == 1.5 - 2j
v = ac.parse(b"                ")
assert math.isnan(v.real) and math.isnan(v.imag)
v = ac.parse(b"     1.0        ")
assert math.isnan(v.real) and math.isnan(v.imag)  # 1j * nan has a nan real part
assert dt.AsciiComplex(7).sizeof() == 6
raises(NotImplementedError, ac._encode, 1j, None, "p")

# --- PaddedString ----------------------------------------------------------
ps = dt.PaddedString(8)
scases = {
    b"  abc   ": "abc", b"abc\x00\x00\x00\x00\x00": "abc", b"        ": "", b"\x00" * 8: "",
    b" a b c  ": "a b c", b"\tabc\n   ": "abc", b"a\x00b     ": "a\x00b",
}
for raw, expected in scases.items():
    got = ps.parse(raw)
    assert got == expected and type(got) is str, (raw, got)
raises(construct.StringError, ps.parse, b"\xe9       ")
raises(construct.StreamError, ps.parse, b"abc")
assert dt.PaddedString(0).parse(b"") == ""
assert ps._decode(b" x ", None, "p") == b"x"
raises(NotImplementedError, ps._encode, "x", None, "p")

# --- DatetimeYdms ----------------------------------------------------------
ydms = dt.DatetimeYdms(Struct("year" / Int32ub, "day_of_year" / Int32ub, "milliseconds" / Int32ub))


def pack(*ints):
    return b"".join(int(i).to_bytes(4, "big") for i in ints)


dcases = {
    (2020, 1, 0): datetime.datetime(2020, 1, 1),
    (2020, 366, 86399999): datetime.datetime(2020, 12, 31, 23, 59, 59, 999000),
    (2019, 366, 0): datetime.datetime(2020, 1, 1),
    (2015, 60, 1): datetime.datetime(2015, 3, 1, 0, 0, 0, 1000),
    (2016, 60, 86400000): datetime.datetime(2016, 3, 1),
    (1, 1, 0): datetime.datetime(1, 1, 1),
    (2014, 0, 0): datetime.datetime(2013, 12, 31),
    (9999, 365, 4294967295): None,  # overflows past year 9999
}
for (y, d, ms), expected in dcases.items():
    if expected is None:
        raises(OverflowError, ydms.parse, pack(y, d, ms), message="date value out of range")
        continue
    got = ydms.parse(pack(y, d, ms))
    assert got == expected and type(got) is datetime.datetime and got.tzinfo is None, (y, d, ms, got)
raises(ValueError, ydms.parse, pack(0, 1, 0), message="year 0 is out of range")
raises(ValueError, ydms.parse, pack(10000, 1, 0), message="year 10000 is out of range")
raises(OverflowError, ydms.parse, pack(1, 0, 0), message="date value out of range")
# direct calls: order of key access and error precedence
raises(KeyError, ydms._decode, {}, None, "p", message="'year'")
raises(KeyError, ydms._decode, {"year": 2020}, None, "p", message="'day_of_year'")
raises(KeyError, ydms._decode, {"year": 2020, "day_of_year": 1}, None, "p", message="'milliseconds'")
raises(ValueError, ydms._decode, {"year": 0}, None, "p", message="year 0 is out of range")
raises(TypeError, ydms._decode, {"year": "2020"}, None, "p", message="cannot be interpreted as an integer")
raises(TypeError, ydms._decode, {"year": 2020, "day_of_year": "1"}, None, "p", message="unsupported operand")
raises(TypeError, ydms._decode, {"year": 2020, "day_of_year": 1, "milliseconds": "0"}, None, "p")


class Recorder(dict):
    def __init__(self, *a, **k):
        super().__init__(*a, **k)
        self.log = []

    def __getitem__(self, key):
        self.log.append(key)
        return super().__getitem__(key)


r = Recorder(year=2020, day_of_year=32, milliseconds=1500)
assert ydms._decode(r, None, "p") == datetime.datetime(2020, 2, 1, 0, 0, 1, 500000)
assert r.log == ["year", "day_of_year", "milliseconds"]
assert ydms._decode({"year": 2020, "day_of_year": 1.5, "milliseconds": 0.5}, None, "p") == datetime.datetime(
    2020, 1, 1, 12, 0, 0, 500
)
raises(NotImplementedError, ydms._encode, None, None, "p")

# --- DatetimeYdus ----------------------------------------------------------
ref = datetime.datetime(2020, 5, 17, 13, 45, 12, 345678)
fixed = dt.DatetimeYdus(Int64ub, ref)
assert fixed.reference_date is ref
assert fixed.subcon is Int64ub
for us, expected in {
    0: datetime.datetime(2020, 5, 17),
    1: datetime.datetime(2020, 5, 17, 0, 0, 0, 1),
    86399999999: datetime.datetime(2020, 5, 17, 23, 59, 59, 999999),
    86400000000: datetime.datetime(2020, 5, 18),
    49512345678: datetime.datetime(2020, 5, 17, 13, 45, 12, 345678),
}.items():
    got = fixed.parse(us.to_bytes(8, "big"))
    assert got == expected and type(got) is datetime.datetime, (us, got)
raises(OverflowError, fixed.parse, (2**64 - 1).to_bytes(8, "big"))
assert fixed._decode(-1, None, "p") == datetime.datetime(2020, 5, 16, 23, 59, 59, 999999)
assert fixed._decode(1.5, None, "p") == datetime.datetime(2020, 5, 17, 0, 0, 0, 2)
raises(TypeError, fixed._decode, "1", None, "p")

calls = []


def from_context(ctx):
    calls.append(ctx)
    return ref


dynamic = dt.DatetimeYdus(Int64ub, from_context)
assert dynamic.reference_date is from_context
sentinel = object()
assert dynamic._decode(5, sentinel, "p") == datetime.datetime(2020, 5, 17, 0, 0, 0, 5)
assert calls == [sentinel]  # called exactly once with the context
assert dynamic.reference_date is from_context  # attribute is not overwritten by decoding

st = Struct(
    "date" / ydms,
    "fine" / dt.DatetimeYdus(Int64ub, this.date),
)
out = st.parse(pack(2021, 100, 5000) + (5000123).to_bytes(8, "big"))
assert out.date == datetime.datetime(2021, 4, 10, 0, 0, 5)
assert out.fine == datetime.datetime(2021, 4, 10, 0, 0, 5, 123)

# tz-aware reference: combine() drops the tzinfo (it takes it from the time argument)
aware = datetime.datetime(2020, 5, 17, 23, tzinfo=datetime.timezone(datetime.timedelta(hours=9)))
got = dt.DatetimeYdus(Int64ub, aware)._decode(0, None, "p")
assert got == datetime.datetime(2020, 5, 17) and got.tzinfo is None

# non-datetime reference values fail the same way
raises(AttributeError, dt.DatetimeYdus(Int64ub, None)._decode, 0, None, "p", message="'NoneType' object has no attribute 'date'")
raises(AttributeError, dt.DatetimeYdus(Int64ub, datetime.date(2020, 1, 1))._decode, 0, None, "p")
raises(AttributeError, dt.DatetimeYdus(Int64ub, lambda ctx: None)._decode, 0, None, "p")


def boom(ctx):
    raise RuntimeError("boom")


raises(RuntimeError, dt.DatetimeYdus(Int64ub, boom)._decode, 0, None, "p", message="boom")


class CallableDate(datetime.datetime):
    """a datetime that is also callable: the callable branch must win"""

    def __call__(self, ctx):
        return datetime.datetime(1999, 1, 2, 3)


cd = CallableDate(2020, 1, 1)
assert dt.DatetimeYdus(Int64ub, cd)._decode(7, None, "p") == datetime.datetime(1999, 1, 2, 0, 0, 0, 7)
raises(NotImplementedError, fixed._encode, None, None, "p")
raises(TypeError, dt.DatetimeYdus, Int64ub)

print("equiv 1: OK")
