"""Equivalence check for refactoring 3 (ceos_alos2/sar_image/enums.py).

Run as ``python _eq/3/equiv.py`` (or through pytest).  ``--record`` prints the
observations instead of comparing them (used once, on the unchanged code).
"""

import pprint
import struct
import sys

import construct
from construct import Int24ub

from ceos_alos2.sar_image import enums
from ceos_alos2.sar_image.processed_data import processed_data_record
from ceos_alos2.sar_image.signal_data import signal_data_record
from ceos_alos2.utils import to_dict

ENUMS = [
    "sar_channel_id",
    "sar_channel_code",
    "pulse_polarization",
    "chirp_type_designator",
    "platform_position_parameters_update",
]
PUBLIC = ["Flag", "Adapter", "Enum", "Int8ub", "Int16ub", "Int32ub", "Int64ub", *ENUMS]


def outcome(func, *args, **kwargs):
    try:
        value = func(*args, **kwargs)
    except Exception as e:  # noqa: BLE001
        return ("raise", type(e).__name__, str(e))
    return ("ok", type(value).__name__, repr(value))


def construct_name(obj):
    """the name of the construct singleton `obj` is (Int8ub, ...)"""
    for name in ("Int8ub", "Int16ub", "Int24ub", "Int32ub", "Int64ub"):
        if obj is getattr(construct, name):
            return name
    return repr(obj)


class Loud:
    def __init__(self, hashable=True):
        self.hashable = hashable

    def __hash__(self):
        if not self.hashable:
            raise TypeError("never hashable")
        return 7

    def __format__(self, spec):
        return f"<formatted {spec!r}>"

    def __str__(self):
        return "<str>"

    def __repr__(self):
        return "<repr>"


def typed(mapping):
    return [
        (type(k).__name__, repr(k), str(k), type(v).__name__, repr(v), str(v))
        for k, v in mapping.items()
    ]


def offset_of(layout, name):
    offset = 0
    for subcon in layout.subcons:
        if subcon.name == name:
            return offset
        offset += subcon.sizeof()
    raise KeyError(name)


def image_record(layout, record_type, values, fill=0):
    header_size = offset_of(layout, "data")
    size = header_size + 4
    preamble = struct.pack(">IBBBBI", 1, 50, record_type, 18, 20, size)
    record = bytearray(preamble + bytes([fill]) * (header_size - 12))
    start = offset_of(layout, "sensor_acquisition_date")
    record[start : start + 12] = struct.pack(">III", 2019, 32, 1500)
    for name, value in values.items():
        start = offset_of(layout, name)
        width = layout.subcons[[s.name for s in layout.subcons].index(name)].sizeof()
        record[start : start + width] = value.to_bytes(width, "big")
    return bytes(record) + b"\xcd" * 4


def observe():
    obs = {}

    obs["module:public"] = [name for name in PUBLIC if hasattr(enums, name)]
    obs["module:reexports"] = [
        name for name in PUBLIC[1:7] if getattr(enums, name) is getattr(construct, name)
    ]

    # --- Flag -----------------------------------------------------------
    obs["flag:bases"] = {k: construct_name(v) for k, v in enums.Flag.bases.items()}
    obs["flag:bases:type"] = type(enums.Flag.bases).__name__
    obs["flag:bases:keys"] = [(type(k).__name__, k) for k in enums.Flag.bases]
    obs["flag:mro"] = [c.__name__ for c in enums.Flag.__mro__]

    sizes = [
        1, 2, 4, 8, 0, 3, 5, 16, -1, 2**70, None, "1", "", "four", b"\x01", 1.0, 4.0, 2.5,
        float("nan"), True, False, 1 + 0j, (1, 2), (), frozenset({1}), Loud(),
    ]  # fmt: skip
    for size in sizes:
        result = outcome(lambda: construct_name(enums.Flag(size).subcon))
        obs[f"flag:new:{type(size).__name__}:{size!r}"] = result
    for size in ([1], {1: 2}, {1}, bytearray(b"1"), Loud(hashable=False)):
        obs[f"flag:new:unhashable:{type(size).__name__}:{size!r}"] = outcome(enums.Flag, size)
    obs["flag:new:noargs"] = outcome(enums.Flag)[:2]
    obs["flag:new:keyword"] = outcome(lambda: construct_name(enums.Flag(size=2).subcon))
    obs["flag:new:two"] = outcome(enums.Flag, 1, 2)[:2]

    for size in (1, 2, 4, 8):
        flag = enums.Flag(size)
        obs[f"flag:{size}:sizeof"] = outcome(flag.sizeof)
        obs[f"flag:{size}:vars"] = sorted(vars(flag))
        for data in (
            b"\x00" * size,
            b"\x00" * (size - 1) + b"\x01",
            b"\x80" + b"\x00" * (size - 1),
            b"\xff" * size,
            b"\x0f" * size,
            b"\x00" * (size - 1),
            b"",
            b"\x00" * size + b"\x01",
        ):
            obs[f"flag:{size}:parse:{data!r}"] = outcome(flag.parse, data)
        for value in (
            True, False, 0, 1, 2, 255, 256, -1, 2 ** (8 * size) - 1, 2 ** (8 * size), 1.0, 0.5,
            2.9, "1", "0", "", "a", None, b"\x01", [], [0],
        ):  # fmt: skip
            obs[f"flag:{size}:build:{value!r}"] = outcome(flag.build, value)
        for value in (0, 1, 2, -1, 0.0, 0.1, "", "0", None, [], [0], b"", b"\x00"):
            obs[f"flag:{size}:decode:{value!r}"] = outcome(flag._decode, value, None, "p")
        for value in (True, False, 3, 2.9, "12", " 12 ", "x", None, b"12"):
            obs[f"flag:{size}:encode:{value!r}"] = outcome(flag._encode, value, None, "p")

    class Wide(enums.Flag):
        bases = {**enums.Flag.bases, 3: Int24ub, 5: None}

    for size in (1, 3, 5, 6, 8):
        obs[f"flag:subclass:{size}"] = outcome(lambda: construct_name(Wide(size).subcon))
    obs["flag:subclass:parse"] = outcome(Wide(3).parse, b"\x00\x00\x02")
    obs["flag:subclass:untouched"] = sorted(enums.Flag.bases)

    class Fewer(enums.Flag):
        bases = {}

    obs["flag:subclass:empty"] = outcome(Fewer, 1)

    instance = enums.Flag(1)
    instance.bases = {9: Int24ub}
    obs["flag:instance-bases"] = outcome(lambda: construct_name(enums.Flag(1).subcon))

    # --- the enums ------------------------------------------------------
    for name in ENUMS:
        mapper = getattr(enums, name)
        obs[f"{name}:type"] = type(mapper).__name__
        obs[f"{name}:subcon"] = construct_name(mapper.subcon)
        obs[f"{name}:sizeof"] = outcome(mapper.sizeof)
        obs[f"{name}:encmapping"] = typed(mapper.encmapping)
        obs[f"{name}:decmapping"] = typed(mapper.decmapping)
        obs[f"{name}:ksymapping"] = typed(mapper.ksymapping)
        obs[f"{name}:vars"] = sorted(vars(mapper))

        width = mapper.sizeof()
        for value in [*range(0, 9), 255, 256, 2 ** (8 * width) - 1]:
            data = value.to_bytes(width, "big")
            parsed = mapper.parse(data)
            obs[f"{name}:parse:{value}"] = (
                type(parsed).__name__,
                repr(parsed),
                str(parsed),
                outcome(int, parsed),
                type(to_dict(parsed)).__name__,
                repr(to_dict(parsed)),
                parsed == value,
                outcome(mapper.build, parsed),
            )
        obs[f"{name}:parse:short"] = outcome(mapper.parse, b"\x00" * (width - 1))

        labels = ["L", "KU", "horizontal", "update", "repeat", "single_polarization",
                  "full_polarization", "linear_fm_chirp", "phase_modulators", "vertical",
                  "l", "", "unknown", "_value_", "name", "mro", "subcon"]  # fmt: skip
        for label in labels:
            obs[f"{name}:build:{label!r}"] = outcome(mapper.build, label)
            obs[f"{name}:getattr:{label!r}"] = outcome(getattr, mapper, label)[:2] + (
                outcome(lambda: str(getattr(mapper, label)))[2:]
                if label not in ("subcon",)
                else ()
            )
        for value in (0, 1, 4, 7, -1, 2 ** (8 * width), 1.0, None, True, b"L"):
            obs[f"{name}:build:{value!r}"] = outcome(mapper.build, value)

    obs["shared:pulse_polarization"] = [
        sub.subcon is enums.pulse_polarization
        for layout in (signal_data_record, processed_data_record)
        for sub in layout.subcons
        if sub.name in ("transmitted_pulse_polarization", "received_pulse_polarization")
    ]

    # --- records using them ---------------------------------------------
    signal_cases = [
        {},
        {"sar_channel_id": 1, "sar_channel_code": 5, "transmitted_pulse_polarization": 1,
         "received_pulse_polarization": 0, "onboard_range_compressed_flag": 1,
         "chirp_type_designator": 1, "invalid_line_flag": 1,
         "platform_position_parameters_update_flag": 1},
        {"sar_channel_id": 4, "sar_channel_code": 4, "transmitted_pulse_polarization": 0,
         "received_pulse_polarization": 1, "onboard_range_compressed_flag": 256,
         "chirp_type_designator": 0, "invalid_line_flag": 2**31,
         "platform_position_parameters_update_flag": 0},
        {"sar_channel_id": 3, "sar_channel_code": 6, "transmitted_pulse_polarization": 2,
         "received_pulse_polarization": 65535, "onboard_range_compressed_flag": 65535,
         "chirp_type_designator": 9, "invalid_line_flag": 2**32 - 1,
         "platform_position_parameters_update_flag": 2**32 - 1},
    ]  # fmt: skip
    for index, values in enumerate(signal_cases):
        data = image_record(signal_data_record, 10, values)
        obs[f"signal:{index}"] = outcome(
            lambda: {
                k: v
                for k, v in to_dict(signal_data_record.parse(data)).items()
                if k in values or k == "data"
            }
        )
        obs[f"signal:{index}:str"] = outcome(lambda: str(signal_data_record.parse(data)))

    for index, values in enumerate(signal_cases):
        values = {k: v for k, v in values.items() if "flag" not in k and "chirp" not in k}
        data = image_record(processed_data_record, 11, values, fill=index)
        obs[f"processed:{index}"] = outcome(
            lambda: {
                k: v
                for k, v in to_dict(processed_data_record.parse(data)).items()
                if k in values or k == "data"
            }
        )
        obs[f"processed:{index}:str"] = outcome(lambda: str(processed_data_record.parse(data)))

    return obs


# recorded with the unchanged code (--record)
EXPECTED = {'module:public': ['Flag',
                   'Adapter',
                   'Enum',
                   'Int8ub',
                   'Int16ub',
                   'Int32ub',
                   'Int64ub',
                   'sar_channel_id',
                   'sar_channel_code',
                   'pulse_polarization',
                   'chirp_type_designator',
                   'platform_position_parameters_update'],
 'module:reexports': ['Adapter', 'Enum', 'Int8ub', 'Int16ub', 'Int32ub', 'Int64ub'],
 'flag:bases': {1: 'Int8ub', 2: 'Int16ub', 4: 'Int32ub', 8: 'Int64ub'},
 'flag:bases:type': 'dict',
 'flag:bases:keys': [('int', 1), ('int', 2), ('int', 4), ('int', 8)],
 'flag:mro': ['Flag', 'Adapter', 'Subconstruct', 'Construct', 'object'],
 'flag:new:int:1': ('ok', 'str', "'Int8ub'"),
 'flag:new:int:2': ('ok', 'str', "'Int16ub'"),
 'flag:new:int:4': ('ok', 'str', "'Int32ub'"),
 'flag:new:int:8': ('ok', 'str', "'Int64ub'"),
 'flag:new:int:0': ('raise', 'ValueError', 'unsupported size: 0'),
 'flag:new:int:3': ('raise', 'ValueError', 'unsupported size: 3'),
 'flag:new:int:5': ('raise', 'ValueError', 'unsupported size: 5'),
 'flag:new:int:16': ('raise', 'ValueError', 'unsupported size: 16'),
 'flag:new:int:-1': ('raise', 'ValueError', 'unsupported size: -1'),
 'flag:new:int:1180591620717411303424': ('raise',
                                         'ValueError',
                                         'unsupported size: 1180591620717411303424'),
 'flag:new:NoneType:None': ('raise', 'ValueError', 'unsupported size: None'),
 "flag:new:str:'1'": ('raise', 'ValueError', 'unsupported size: 1'),
 "flag:new:str:''": ('raise', 'ValueError', 'unsupported size: '),
 "flag:new:str:'four'": ('raise', 'ValueError', 'unsupported size: four'),
 "flag:new:bytes:b'\\x01'": ('raise', 'ValueError', "unsupported size: b'\\x01'"),
 'flag:new:float:1.0': ('ok', 'str', "'Int8ub'"),
 'flag:new:float:4.0': ('ok', 'str', "'Int32ub'"),
 'flag:new:float:2.5': ('raise', 'ValueError', 'unsupported size: 2.5'),
 'flag:new:float:nan': ('raise', 'ValueError', 'unsupported size: nan'),
 'flag:new:bool:True': ('ok', 'str', "'Int8ub'"),
 'flag:new:bool:False': ('raise', 'ValueError', 'unsupported size: False'),
 'flag:new:complex:(1+0j)': ('ok', 'str', "'Int8ub'"),
 'flag:new:tuple:(1, 2)': ('raise', 'ValueError', 'unsupported size: (1, 2)'),
 'flag:new:tuple:()': ('raise', 'ValueError', 'unsupported size: ()'),
 'flag:new:frozenset:frozenset({1})': ('raise', 'ValueError', 'unsupported size: frozenset({1})'),
 'flag:new:Loud:<repr>': ('raise', 'ValueError', "unsupported size: <formatted ''>"),
 'flag:new:unhashable:list:[1]': ('raise', 'TypeError', "unhashable type: 'list'"),
 'flag:new:unhashable:dict:{1: 2}': ('raise', 'TypeError', "unhashable type: 'dict'"),
 'flag:new:unhashable:set:{1}': ('raise', 'TypeError', "unhashable type: 'set'"),
 "flag:new:unhashable:bytearray:bytearray(b'1')": ('raise',
                                                   'TypeError',
                                                   "unhashable type: 'bytearray'"),
 'flag:new:unhashable:Loud:<repr>': ('raise', 'TypeError', 'never hashable'),
 'flag:new:noargs': ('raise', 'TypeError'),
 'flag:new:keyword': ('ok', 'str', "'Int16ub'"),
 'flag:new:two': ('raise', 'TypeError'),
 'flag:1:sizeof': ('ok', 'int', '1'),
 'flag:1:vars': ['docs', 'flagbuildnone', 'name', 'parsed', 'subcon'],
 "flag:1:parse:b'\\x00'": ('ok', 'bool', 'False'),
 "flag:1:parse:b'\\x01'": ('ok', 'bool', 'True'),
 "flag:1:parse:b'\\x80'": ('ok', 'bool', 'True'),
 "flag:1:parse:b'\\xff'": ('ok', 'bool', 'True'),
 "flag:1:parse:b'\\x0f'": ('ok', 'bool', 'True'),
 "flag:1:parse:b''": ('raise',
                      'StreamError',
                      'Error in path (parsing)\n'
                      'stream read less than specified amount, expected 1, found 0'),
 "flag:1:parse:b'\\x00\\x01'": ('ok', 'bool', 'False'),
 'flag:1:build:True': ('ok', 'bytes', "b'\\x01'"),
 'flag:1:build:False': ('ok', 'bytes', "b'\\x00'"),
 'flag:1:build:0': ('ok', 'bytes', "b'\\x00'"),
 'flag:1:build:1': ('ok', 'bytes', "b'\\x01'"),
 'flag:1:build:2': ('ok', 'bytes', "b'\\x02'"),
 'flag:1:build:255': ('ok', 'bytes', "b'\\xff'"),
 'flag:1:build:256': ('raise',
                      'FormatFieldError',
                      'Error in path (building)\n'
                      "struct '>B' error during building, given value 256"),
 'flag:1:build:-1': ('raise',
                     'FormatFieldError',
                     "Error in path (building)\nstruct '>B' error during building, given value -1"),
 'flag:1:build:1.0': ('ok', 'bytes', "b'\\x01'"),
 'flag:1:build:0.5': ('ok', 'bytes', "b'\\x00'"),
 'flag:1:build:2.9': ('ok', 'bytes', "b'\\x02'"),
 "flag:1:build:'1'": ('ok', 'bytes', "b'\\x01'"),
 "flag:1:build:'0'": ('ok', 'bytes', "b'\\x00'"),
 "flag:1:build:''": ('raise', 'ValueError', "invalid literal for int() with base 10: ''"),
 "flag:1:build:'a'": ('raise', 'ValueError', "invalid literal for int() with base 10: 'a'"),
 'flag:1:build:None': ('raise',
                       'TypeError',
                       'int() argument must be a string, a bytes-like object or a real number, not '
                       "'NoneType'"),
 "flag:1:build:b'\\x01'": ('raise',
                           'ValueError',
                           "invalid literal for int() with base 10: b'\\x01'"),
 'flag:1:build:[]': ('raise',
                     'TypeError',
                     'int() argument must be a string, a bytes-like object or a real number, not '
                     "'list'"),
 'flag:1:build:[0]': ('raise',
                      'TypeError',
                      'int() argument must be a string, a bytes-like object or a real number, not '
                      "'list'"),
 'flag:1:decode:0': ('ok', 'bool', 'False'),
 'flag:1:decode:1': ('ok', 'bool', 'True'),
 'flag:1:decode:2': ('ok', 'bool', 'True'),
 'flag:1:decode:-1': ('ok', 'bool', 'True'),
 'flag:1:decode:0.0': ('ok', 'bool', 'False'),
 'flag:1:decode:0.1': ('ok', 'bool', 'True'),
 "flag:1:decode:''": ('ok', 'bool', 'False'),
 "flag:1:decode:'0'": ('ok', 'bool', 'True'),
 'flag:1:decode:None': ('ok', 'bool', 'False'),
 'flag:1:decode:[]': ('ok', 'bool', 'False'),
 'flag:1:decode:[0]': ('ok', 'bool', 'True'),
 "flag:1:decode:b''": ('ok', 'bool', 'False'),
 "flag:1:decode:b'\\x00'": ('ok', 'bool', 'True'),
 'flag:1:encode:True': ('ok', 'int', '1'),
 'flag:1:encode:False': ('ok', 'int', '0'),
 'flag:1:encode:3': ('ok', 'int', '3'),
 'flag:1:encode:2.9': ('ok', 'int', '2'),
 "flag:1:encode:'12'": ('ok', 'int', '12'),
 "flag:1:encode:' 12 '": ('ok', 'int', '12'),
 "flag:1:encode:'x'": ('raise', 'ValueError', "invalid literal for int() with base 10: 'x'"),
 'flag:1:encode:None': ('raise',
                        'TypeError',
                        'int() argument must be a string, a bytes-like object or a real number, '
                        "not 'NoneType'"),
 "flag:1:encode:b'12'": ('ok', 'int', '12'),
 'flag:2:sizeof': ('ok', 'int', '2'),
 'flag:2:vars': ['docs', 'flagbuildnone', 'name', 'parsed', 'subcon'],
 "flag:2:parse:b'\\x00\\x00'": ('ok', 'bool', 'False'),
 "flag:2:parse:b'\\x00\\x01'": ('ok', 'bool', 'True'),
 "flag:2:parse:b'\\x80\\x00'": ('ok', 'bool', 'True'),
 "flag:2:parse:b'\\xff\\xff'": ('ok', 'bool', 'True'),
 "flag:2:parse:b'\\x0f\\x0f'": ('ok', 'bool', 'True'),
 "flag:2:parse:b'\\x00'": ('raise',
                           'StreamError',
                           'Error in path (parsing)\n'
                           'stream read less than specified amount, expected 2, found 1'),
 "flag:2:parse:b''": ('raise',
                      'StreamError',
                      'Error in path (parsing)\n'
                      'stream read less than specified amount, expected 2, found 0'),
 "flag:2:parse:b'\\x00\\x00\\x01'": ('ok', 'bool', 'False'),
 'flag:2:build:True': ('ok', 'bytes', "b'\\x00\\x01'"),
 'flag:2:build:False': ('ok', 'bytes', "b'\\x00\\x00'"),
 'flag:2:build:0': ('ok', 'bytes', "b'\\x00\\x00'"),
 'flag:2:build:1': ('ok', 'bytes', "b'\\x00\\x01'"),
 'flag:2:build:2': ('ok', 'bytes', "b'\\x00\\x02'"),
 'flag:2:build:255': ('ok', 'bytes', "b'\\x00\\xff'"),
 'flag:2:build:256': ('ok', 'bytes', "b'\\x01\\x00'"),
 'flag:2:build:-1': ('raise',
                     'FormatFieldError',
                     "Error in path (building)\nstruct '>H' error during building, given value -1"),
 'flag:2:build:65535': ('ok', 'bytes', "b'\\xff\\xff'"),
 'flag:2:build:65536': ('raise',
                        'FormatFieldError',
                        'Error in path (building)\n'
                        "struct '>H' error during building, given value 65536"),
 'flag:2:build:1.0': ('ok', 'bytes', "b'\\x00\\x01'"),
 'flag:2:build:0.5': ('ok', 'bytes', "b'\\x00\\x00'"),
 'flag:2:build:2.9': ('ok', 'bytes', "b'\\x00\\x02'"),
 "flag:2:build:'1'": ('ok', 'bytes', "b'\\x00\\x01'"),
 "flag:2:build:'0'": ('ok', 'bytes', "b'\\x00\\x00'"),
 "flag:2:build:''": ('raise', 'ValueError', "invalid literal for int() with base 10: ''"),
 "flag:2:build:'a'": ('raise', 'ValueError', "invalid literal for int() with base 10: 'a'"),
 'flag:2:build:None': ('raise',
                       'TypeError',
                       'int() argument must be a string, a bytes-like object or a real number, not '
                       "'NoneType'"),
 "flag:2:build:b'\\x01'": ('raise',
                           'ValueError',
                           "invalid literal for int() with base 10: b'\\x01'"),
 'flag:2:build:[]': ('raise',
                     'TypeError',
                     'int() argument must be a string, a bytes-like object or a real number, not '
                     "'list'"),
 'flag:2:build:[0]': ('raise',
                      'TypeError',
                      'int() argument must be a string, a bytes-like object or a real number, not '
                      "'list'"),
 'flag:2:decode:0': ('ok', 'bool', 'False'),
 'flag:2:decode:1': ('ok', 'bool', 'True'),
 'flag:2:decode:2': ('ok', 'bool', 'True'),
 'flag:2:decode:-1': ('ok', 'bool', 'True'),
 'flag:2:decode:0.0': ('ok', 'bool', 'False'),
 'flag:2:decode:0.1': ('ok', 'bool', 'True'),
 "flag:2:decode:''": ('ok', 'bool', 'False'),
 "flag:2:decode:'0'": ('ok', 'bool', 'True'),
 'flag:2:decode:None': ('ok', 'bool', 'False'),
 'flag:2:decode:[]': ('ok', 'bool', 'False'),
 'flag:2:decode:[0]': ('ok', 'bool', 'True'),
 "flag:2:decode:b''": ('ok', 'bool', 'False'),
 "flag:2:decode:b'\\x00'": ('ok', 'bool', 'True'),
 'flag:2:encode:True': ('ok', 'int', '1'),
 'flag:2:encode:False': ('ok', 'int', '0'),
 'flag:2:encode:3': ('ok', 'int', '3'),
 'flag:2:encode:2.9': ('ok', 'int', '2'),
 "flag:2:encode:'12'": ('ok', 'int', '12'),
 "flag:2:encode:' 12 '": ('ok', 'int', '12'),
 "flag:2:encode:'x'": ('raise', 'ValueError', "invalid literal for int() with base 10: 'x'"),
 'flag:2:encode:None': ('raise',
                        'TypeError',
                        'int() argument must be a string, a bytes-like object or a real number, '
                        "not 'NoneType'"),
 "flag:2:encode:b'12'": ('ok', 'int', '12'),
 'flag:4:sizeof': ('ok', 'int', '4'),
 'flag:4:vars': ['docs', 'flagbuildnone', 'name', 'parsed', 'subcon'],
 "flag:4:parse:b'\\x00\\x00\\x00\\x00'": ('ok', 'bool', 'False'),
 "flag:4:parse:b'\\x00\\x00\\x00\\x01'": ('ok', 'bool', 'True'),
 "flag:4:parse:b'\\x80\\x00\\x00\\x00'": ('ok', 'bool', 'True'),
 "flag:4:parse:b'\\xff\\xff\\xff\\xff'": ('ok', 'bool', 'True'),
 "flag:4:parse:b'\\x0f\\x0f\\x0f\\x0f'": ('ok', 'bool', 'True'),
 "flag:4:parse:b'\\x00\\x00\\x00'": ('raise',
                                     'StreamError',
                                     'Error in path (parsing)\n'
                                     'stream read less than specified amount, expected 4, found 3'),
 "flag:4:parse:b''": ('raise',
                      'StreamError',
                      'Error in path (parsing)\n'
                      'stream read less than specified amount, expected 4, found 0'),
 "flag:4:parse:b'\\x00\\x00\\x00\\x00\\x01'": ('ok', 'bool', 'False'),
 'flag:4:build:True': ('ok', 'bytes', "b'\\x00\\x00\\x00\\x01'"),
 'flag:4:build:False': ('ok', 'bytes', "b'\\x00\\x00\\x00\\x00'"),
 'flag:4:build:0': ('ok', 'bytes', "b'\\x00\\x00\\x00\\x00'"),
 'flag:4:build:1': ('ok', 'bytes', "b'\\x00\\x00\\x00\\x01'"),
 'flag:4:build:2': ('ok', 'bytes', "b'\\x00\\x00\\x00\\x02'"),
 'flag:4:build:255': ('ok', 'bytes', "b'\\x00\\x00\\x00\\xff'"),
 'flag:4:build:256': ('ok', 'bytes', "b'\\x00\\x00\\x01\\x00'"),
 'flag:4:build:-1': ('raise',
                     'FormatFieldError',
                     "Error in path (building)\nstruct '>L' error during building, given value -1"),
 'flag:4:build:4294967295': ('ok', 'bytes', "b'\\xff\\xff\\xff\\xff'"),
 'flag:4:build:4294967296': ('raise',
                             'FormatFieldError',
                             'Error in path (building)\n'
                             "struct '>L' error during building, given value 4294967296"),
 'flag:4:build:1.0': ('ok', 'bytes', "b'\\x00\\x00\\x00\\x01'"),
 'flag:4:build:0.5': ('ok', 'bytes', "b'\\x00\\x00\\x00\\x00'"),
 'flag:4:build:2.9': ('ok', 'bytes', "b'\\x00\\x00\\x00\\x02'"),
 "flag:4:build:'1'": ('ok', 'bytes', "b'\\x00\\x00\\x00\\x01'"),
 "flag:4:build:'0'": ('ok', 'bytes', "b'\\x00\\x00\\x00\\x00'"),
 "flag:4:build:''": ('raise', 'ValueError', "invalid literal for int() with base 10: ''"),
 "flag:4:build:'a'": ('raise', 'ValueError', "invalid literal for int() with base 10: 'a'"),
 'flag:4:build:None': ('raise',
                       'TypeError',
                       'int() argument must be a string, a bytes-like object or a real number, not '
                       "'NoneType'"),
 "flag:4:build:b'\\x01'": ('raise',
                           'ValueError',
                           "invalid literal for int() with base 10: b'\\x01'"),
 'flag:4:build:[]': ('raise',
                     'TypeError',
                     'int() argument must be a string, a bytes-like object or a real number, not '
                     "'list'"),
 'flag:4:build:[0]': ('raise',
                      'TypeError',
                      'int() argument must be a string, a bytes-like object or a real number, not '
                      "'list'"),
 'flag:4:decode:0': ('ok', 'bool', 'False'),
 'flag:4:decode:1': ('ok', 'bool', 'True'),
 'flag:4:decode:2': ('ok', 'bool', 'True'),
 'flag:4:decode:-1': ('ok', 'bool', 'True'),
 'flag:4:decode:0.0': ('ok', 'bool', 'False'),
 'flag:4:decode:0.1': ('ok', 'bool', 'True'),
 "flag:4:decode:''": ('ok', 'bool', 'False'),
 "flag:4:decode:'0'": ('ok', 'bool', 'True'),
 'flag:4:decode:None': ('ok', 'bool', 'False'),
 'flag:4:decode:[]': ('ok', 'bool', 'False'),
 'flag:4:decode:[0]': ('ok', 'bool', 'True'),
 "flag:4:decode:b''": ('ok', 'bool', 'False'),
 "flag:4:decode:b'\\x00'": ('ok', 'bool', 'True'),
 'flag:4:encode:True': ('ok', 'int', '1'),
 'flag:4:encode:False': ('ok', 'int', '0'),
 'flag:4:encode:3': ('ok', 'int', '3'),
 'flag:4:encode:2.9': ('ok', 'int', '2'),
 "flag:4:encode:'12'": ('ok', 'int', '12'),
 "flag:4:encode:' 12 '": ('ok', 'int', '12'),
 "flag:4:encode:'x'": ('raise', 'ValueError', "invalid literal for int() with base 10: 'x'"),
 'flag:4:encode:None': ('raise',
                        'TypeError',
                        'int() argument must be a string, a bytes-like object or a real number, '
                        "not 'NoneType'"),
 "flag:4:encode:b'12'": ('ok', 'int', '12'),
 'flag:8:sizeof': ('ok', 'int', '8'),
 'flag:8:vars': ['docs', 'flagbuildnone', 'name', 'parsed', 'subcon'],
 "flag:8:parse:b'\\x00\\x00\\x00\\x00\\x00\\x00\\x00\\x00'": ('ok', 'bool', 'False'),
 "flag:8:parse:b'\\x00\\x00\\x00\\x00\\x00\\x00\\x00\\x01'": ('ok', 'bool', 'True'),
 "flag:8:parse:b'\\x80\\x00\\x00\\x00\\x00\\x00\\x00\\x00'": ('ok', 'bool', 'True'),
 "flag:8:parse:b'\\xff\\xff\\xff\\xff\\xff\\xff\\xff\\xff'": ('ok', 'bool', 'True'),
 "flag:8:parse:b'\\x0f\\x0f\\x0f\\x0f\\x0f\\x0f\\x0f\\x0f'": ('ok', 'bool', 'True'),
 "flag:8:parse:b'\\x00\\x00\\x00\\x00\\x00\\x00\\x00'": ('raise',
                                                         'StreamError',
                                                         'Error in path (parsing)\n'
                                                         'stream read less than specified amount, '
                                                         'expected 8, found 7'),
 "flag:8:parse:b''": ('raise',
                      'StreamError',
                      'Error in path (parsing)\n'
                      'stream read less than specified amount, expected 8, found 0'),
 "flag:8:parse:b'\\x00\\x00\\x00\\x00\\x00\\x00\\x00\\x00\\x01'": ('ok', 'bool', 'False'),
 'flag:8:build:True': ('ok', 'bytes', "b'\\x00\\x00\\x00\\x00\\x00\\x00\\x00\\x01'"),
 'flag:8:build:False': ('ok', 'bytes', "b'\\x00\\x00\\x00\\x00\\x00\\x00\\x00\\x00'"),
 'flag:8:build:0': ('ok', 'bytes', "b'\\x00\\x00\\x00\\x00\\x00\\x00\\x00\\x00'"),
 'flag:8:build:1': ('ok', 'bytes', "b'\\x00\\x00\\x00\\x00\\x00\\x00\\x00\\x01'"),
 'flag:8:build:2': ('ok', 'bytes', "b'\\x00\\x00\\x00\\x00\\x00\\x00\\x00\\x02'"),
 'flag:8:build:255': ('ok', 'bytes', "b'\\x00\\x00\\x00\\x00\\x00\\x00\\x00\\xff'"),
 'flag:8:build:256': ('ok', 'bytes', "b'\\x00\\x00\\x00\\x00\\x00\\x00\\x01\\x00'"),
 'flag:8:build:-1': ('raise',
                     'FormatFieldError',
                     "Error in path (building)\nstruct '>Q' error during building, given value -1"),
 'flag:8:build:18446744073709551615': ('ok',
                                       'bytes',
                                       "b'\\xff\\xff\\xff\\xff\\xff\\xff\\xff\\xff'"),
 'flag:8:build:18446744073709551616': ('raise',
                                       'FormatFieldError',
                                       'Error in path (building)\n'
                                       "struct '>Q' error during building, given value "
                                       '18446744073709551616'),
 'flag:8:build:1.0': ('ok', 'bytes', "b'\\x00\\x00\\x00\\x00\\x00\\x00\\x00\\x01'"),
 'flag:8:build:0.5': ('ok', 'bytes', "b'\\x00\\x00\\x00\\x00\\x00\\x00\\x00\\x00'"),
 'flag:8:build:2.9': ('ok', 'bytes', "b'\\x00\\x00\\x00\\x00\\x00\\x00\\x00\\x02'"),
 "flag:8:build:'1'": ('ok', 'bytes', "b'\\x00\\x00\\x00\\x00\\x00\\x00\\x00\\x01'"),
 "flag:8:build:'0'": ('ok', 'bytes', "b'\\x00\\x00\\x00\\x00\\x00\\x00\\x00\\x00'"),
 "flag:8:build:''": ('raise', 'ValueError', "invalid literal for int() with base 10: ''"),
 "flag:8:build:'a'": ('raise', 'ValueError', "invalid literal for int() with base 10: 'a'"),
 'flag:8:build:None': ('raise',
                       'TypeError',
                       'int() argument must be a string, a bytes-like object or a real number, not '
                       "'NoneType'"),
 "flag:8:build:b'\\x01'": ('raise',
                           'ValueError',
                           "invalid literal for int() with base 10: b'\\x01'"),
 'flag:8:build:[]': ('raise',
                     'TypeError',
                     'int() argument must be a string, a bytes-like object or a real number, not '
                     "'list'"),
 'flag:8:build:[0]': ('raise',
                      'TypeError',
                      'int() argument must be a string, a bytes-like object or a real number, not '
                      "'list'"),
 'flag:8:decode:0': ('ok', 'bool', 'False'),
 'flag:8:decode:1': ('ok', 'bool', 'True'),
 'flag:8:decode:2': ('ok', 'bool', 'True'),
 'flag:8:decode:-1': ('ok', 'bool', 'True'),
 'flag:8:decode:0.0': ('ok', 'bool', 'False'),
 'flag:8:decode:0.1': ('ok', 'bool', 'True'),
 "flag:8:decode:''": ('ok', 'bool', 'False'),
 "flag:8:decode:'0'": ('ok', 'bool', 'True'),
 'flag:8:decode:None': ('ok', 'bool', 'False'),
 'flag:8:decode:[]': ('ok', 'bool', 'False'),
 'flag:8:decode:[0]': ('ok', 'bool', 'True'),
 "flag:8:decode:b''": ('ok', 'bool', 'False'),
 "flag:8:decode:b'\\x00'": ('ok', 'bool', 'True'),
 'flag:8:encode:True': ('ok', 'int', '1'),
 'flag:8:encode:False': ('ok', 'int', '0'),
 'flag:8:encode:3': ('ok', 'int', '3'),
 'flag:8:encode:2.9': ('ok', 'int', '2'),
 "flag:8:encode:'12'": ('ok', 'int', '12'),
 "flag:8:encode:' 12 '": ('ok', 'int', '12'),
 "flag:8:encode:'x'": ('raise', 'ValueError', "invalid literal for int() with base 10: 'x'"),
 'flag:8:encode:None': ('raise',
                        'TypeError',
                        'int() argument must be a string, a bytes-like object or a real number, '
                        "not 'NoneType'"),
 "flag:8:encode:b'12'": ('ok', 'int', '12'),
 'flag:subclass:1': ('ok', 'str', "'Int8ub'"),
 'flag:subclass:3': ('ok', 'str', "'Int24ub'"),
 'flag:subclass:5': ('raise', 'ValueError', 'unsupported size: 5'),
 'flag:subclass:6': ('raise', 'ValueError', 'unsupported size: 6'),
 'flag:subclass:8': ('ok', 'str', "'Int64ub'"),
 'flag:subclass:parse': ('ok', 'bool', 'True'),
 'flag:subclass:untouched': [1, 2, 4, 8],
 'flag:subclass:empty': ('raise', 'ValueError', 'unsupported size: 1'),
 'flag:instance-bases': ('ok', 'str', "'Int8ub'"),
 'sar_channel_id:type': 'Enum',
 'sar_channel_id:subcon': 'Int16ub',
 'sar_channel_id:sizeof': ('ok', 'int', '2'),
 'sar_channel_id:encmapping': [('EnumIntegerString',
                                "EnumIntegerString.new(1, 'single_polarization')",
                                'single_polarization',
                                'int',
                                '1',
                                '1'),
                               ('EnumIntegerString',
                                "EnumIntegerString.new(2, 'dual_polarization')",
                                'dual_polarization',
                                'int',
                                '2',
                                '2'),
                               ('EnumIntegerString',
                                "EnumIntegerString.new(4, 'full_polarization')",
                                'full_polarization',
                                'int',
                                '4',
                                '4')],
 'sar_channel_id:decmapping': [('int',
                                '1',
                                '1',
                                'EnumIntegerString',
                                "EnumIntegerString.new(1, 'single_polarization')",
                                'single_polarization'),
                               ('int',
                                '2',
                                '2',
                                'EnumIntegerString',
                                "EnumIntegerString.new(2, 'dual_polarization')",
                                'dual_polarization'),
                               ('int',
                                '4',
                                '4',
                                'EnumIntegerString',
                                "EnumIntegerString.new(4, 'full_polarization')",
                                'full_polarization')],
 'sar_channel_id:ksymapping': [('int',
                                '1',
                                '1',
                                'str',
                                "'single_polarization'",
                                'single_polarization'),
                               ('int', '2', '2', 'str', "'dual_polarization'", 'dual_polarization'),
                               ('int',
                                '4',
                                '4',
                                'str',
                                "'full_polarization'",
                                'full_polarization')],
 'sar_channel_id:vars': ['decmapping',
                         'docs',
                         'encmapping',
                         'flagbuildnone',
                         'ksymapping',
                         'name',
                         'parsed',
                         'subcon'],
 'sar_channel_id:parse:0': ('EnumInteger',
                            '0',
                            '0',
                            ('ok', 'int', '0'),
                            'EnumInteger',
                            '0',
                            True,
                            ('ok', 'bytes', "b'\\x00\\x00'")),
 'sar_channel_id:parse:1': ('EnumIntegerString',
                            "EnumIntegerString.new(1, 'single_polarization')",
                            'single_polarization',
                            ('ok', 'int', '1'),
                            'str',
                            "'single_polarization'",
                            False,
                            ('ok', 'bytes', "b'\\x00\\x01'")),
 'sar_channel_id:parse:2': ('EnumIntegerString',
                            "EnumIntegerString.new(2, 'dual_polarization')",
                            'dual_polarization',
                            ('ok', 'int', '2'),
                            'str',
                            "'dual_polarization'",
                            False,
                            ('ok', 'bytes', "b'\\x00\\x02'")),
 'sar_channel_id:parse:3': ('EnumInteger',
                            '3',
                            '3',
                            ('ok', 'int', '3'),
                            'EnumInteger',
                            '3',
                            True,
                            ('ok', 'bytes', "b'\\x00\\x03'")),
 'sar_channel_id:parse:4': ('EnumIntegerString',
                            "EnumIntegerString.new(4, 'full_polarization')",
                            'full_polarization',
                            ('ok', 'int', '4'),
                            'str',
                            "'full_polarization'",
                            False,
                            ('ok', 'bytes', "b'\\x00\\x04'")),
 'sar_channel_id:parse:5': ('EnumInteger',
                            '5',
                            '5',
                            ('ok', 'int', '5'),
                            'EnumInteger',
                            '5',
                            True,
                            ('ok', 'bytes', "b'\\x00\\x05'")),
 'sar_channel_id:parse:6': ('EnumInteger',
                            '6',
                            '6',
                            ('ok', 'int', '6'),
                            'EnumInteger',
                            '6',
                            True,
                            ('ok', 'bytes', "b'\\x00\\x06'")),
 'sar_channel_id:parse:7': ('EnumInteger',
                            '7',
                            '7',
                            ('ok', 'int', '7'),
                            'EnumInteger',
                            '7',
                            True,
                            ('ok', 'bytes', "b'\\x00\\x07'")),
 'sar_channel_id:parse:8': ('EnumInteger',
                            '8',
                            '8',
                            ('ok', 'int', '8'),
                            'EnumInteger',
                            '8',
                            True,
                            ('ok', 'bytes', "b'\\x00\\x08'")),
 'sar_channel_id:parse:255': ('EnumInteger',
                              '255',
                              '255',
                              ('ok', 'int', '255'),
                              'EnumInteger',
                              '255',
                              True,
                              ('ok', 'bytes', "b'\\x00\\xff'")),
 'sar_channel_id:parse:256': ('EnumInteger',
                              '256',
                              '256',
                              ('ok', 'int', '256'),
                              'EnumInteger',
                              '256',
                              True,
                              ('ok', 'bytes', "b'\\x01\\x00'")),
 'sar_channel_id:parse:65535': ('EnumInteger',
                                '65535',
                                '65535',
                                ('ok', 'int', '65535'),
                                'EnumInteger',
                                '65535',
                                True,
                                ('ok', 'bytes', "b'\\xff\\xff'")),
 'sar_channel_id:parse:short': ('raise',
                                'StreamError',
                                'Error in path (parsing)\n'
                                'stream read less than specified amount, expected 2, found 1'),
 "sar_channel_id:build:'L'": ('raise',
                              'MappingError',
                              "Error in path (building)\nbuilding failed, no mapping for 'L'"),
 "sar_channel_id:getattr:'L'": ('raise', 'AttributeError', ''),
 "sar_channel_id:build:'KU'": ('raise',
                               'MappingError',
                               "Error in path (building)\nbuilding failed, no mapping for 'KU'"),
 "sar_channel_id:getattr:'KU'": ('raise', 'AttributeError', ''),
 "sar_channel_id:build:'horizontal'": ('raise',
                                       'MappingError',
                                       'Error in path (building)\n'
                                       "building failed, no mapping for 'horizontal'"),
 "sar_channel_id:getattr:'horizontal'": ('raise', 'AttributeError', ''),
 "sar_channel_id:build:'update'": ('raise',
                                   'MappingError',
                                   'Error in path (building)\n'
                                   "building failed, no mapping for 'update'"),
 "sar_channel_id:getattr:'update'": ('raise', 'AttributeError', ''),
 "sar_channel_id:build:'repeat'": ('raise',
                                   'MappingError',
                                   'Error in path (building)\n'
                                   "building failed, no mapping for 'repeat'"),
 "sar_channel_id:getattr:'repeat'": ('raise', 'AttributeError', ''),
 "sar_channel_id:build:'single_polarization'": ('ok', 'bytes', "b'\\x00\\x01'"),
 "sar_channel_id:getattr:'single_polarization'": ('ok',
                                                  'EnumIntegerString',
                                                  "'single_polarization'"),
 "sar_channel_id:build:'full_polarization'": ('ok', 'bytes', "b'\\x00\\x04'"),
 "sar_channel_id:getattr:'full_polarization'": ('ok', 'EnumIntegerString', "'full_polarization'"),
 "sar_channel_id:build:'linear_fm_chirp'": ('raise',
                                            'MappingError',
                                            'Error in path (building)\n'
                                            "building failed, no mapping for 'linear_fm_chirp'"),
 "sar_channel_id:getattr:'linear_fm_chirp'": ('raise', 'AttributeError', ''),
 "sar_channel_id:build:'phase_modulators'": ('raise',
                                             'MappingError',
                                             'Error in path (building)\n'
                                             "building failed, no mapping for 'phase_modulators'"),
 "sar_channel_id:getattr:'phase_modulators'": ('raise', 'AttributeError', ''),
 "sar_channel_id:build:'vertical'": ('raise',
                                     'MappingError',
                                     'Error in path (building)\n'
                                     "building failed, no mapping for 'vertical'"),
 "sar_channel_id:getattr:'vertical'": ('raise', 'AttributeError', ''),
 "sar_channel_id:build:'l'": ('raise',
                              'MappingError',
                              "Error in path (building)\nbuilding failed, no mapping for 'l'"),
 "sar_channel_id:getattr:'l'": ('raise', 'AttributeError', ''),
 "sar_channel_id:build:''": ('raise',
                             'MappingError',
                             "Error in path (building)\nbuilding failed, no mapping for ''"),
 "sar_channel_id:getattr:''": ('raise', 'AttributeError', ''),
 "sar_channel_id:build:'unknown'": ('raise',
                                    'MappingError',
                                    'Error in path (building)\n'
                                    "building failed, no mapping for 'unknown'"),
 "sar_channel_id:getattr:'unknown'": ('raise', 'AttributeError', ''),
 "sar_channel_id:build:'_value_'": ('raise',
                                    'MappingError',
                                    'Error in path (building)\n'
                                    "building failed, no mapping for '_value_'"),
 "sar_channel_id:getattr:'_value_'": ('raise', 'AttributeError', ''),
 "sar_channel_id:build:'name'": ('raise',
                                 'MappingError',
                                 'Error in path (building)\n'
                                 "building failed, no mapping for 'name'"),
 "sar_channel_id:getattr:'name'": ('ok', 'NoneType', "'None'"),
 "sar_channel_id:build:'mro'": ('raise',
                                'MappingError',
                                "Error in path (building)\nbuilding failed, no mapping for 'mro'"),
 "sar_channel_id:getattr:'mro'": ('raise', 'AttributeError', ''),
 "sar_channel_id:build:'subcon'": ('raise',
                                   'MappingError',
                                   'Error in path (building)\n'
                                   "building failed, no mapping for 'subcon'"),
 "sar_channel_id:getattr:'subcon'": ('ok', 'FormatField'),
 'sar_channel_id:build:0': ('ok', 'bytes', "b'\\x00\\x00'"),
 'sar_channel_id:build:1': ('ok', 'bytes', "b'\\x00\\x01'"),
 'sar_channel_id:build:4': ('ok', 'bytes', "b'\\x00\\x04'"),
 'sar_channel_id:build:7': ('ok', 'bytes', "b'\\x00\\x07'"),
 'sar_channel_id:build:-1': ('raise',
                             'FormatFieldError',
                             'Error in path (building)\n'
                             "struct '>H' error during building, given value -1"),
 'sar_channel_id:build:65536': ('raise',
                                'FormatFieldError',
                                'Error in path (building)\n'
                                "struct '>H' error during building, given value 65536"),
 'sar_channel_id:build:1.0': ('raise',
                              'MappingError',
                              'Error in path (building)\nbuilding failed, no mapping for 1.0'),
 'sar_channel_id:build:None': ('raise',
                               'MappingError',
                               'Error in path (building)\nbuilding failed, no mapping for None'),
 'sar_channel_id:build:True': ('ok', 'bytes', "b'\\x00\\x01'"),
 "sar_channel_id:build:b'L'": ('raise',
                               'MappingError',
                               "Error in path (building)\nbuilding failed, no mapping for b'L'"),
 'sar_channel_code:type': 'Enum',
 'sar_channel_code:subcon': 'Int16ub',
 'sar_channel_code:sizeof': ('ok', 'int', '2'),
 'sar_channel_code:encmapping': [('EnumIntegerString',
                                  "EnumIntegerString.new(0, 'L')",
                                  'L',
                                  'int',
                                  '0',
                                  '0'),
                                 ('EnumIntegerString',
                                  "EnumIntegerString.new(1, 'S')",
                                  'S',
                                  'int',
                                  '1',
                                  '1'),
                                 ('EnumIntegerString',
                                  "EnumIntegerString.new(2, 'C')",
                                  'C',
                                  'int',
                                  '2',
                                  '2'),
                                 ('EnumIntegerString',
                                  "EnumIntegerString.new(3, 'X')",
                                  'X',
                                  'int',
                                  '3',
                                  '3'),
                                 ('EnumIntegerString',
                                  "EnumIntegerString.new(4, 'KU')",
                                  'KU',
                                  'int',
                                  '4',
                                  '4'),
                                 ('EnumIntegerString',
                                  "EnumIntegerString.new(5, 'KA')",
                                  'KA',
                                  'int',
                                  '5',
                                  '5')],
 'sar_channel_code:decmapping': [('int',
                                  '0',
                                  '0',
                                  'EnumIntegerString',
                                  "EnumIntegerString.new(0, 'L')",
                                  'L'),
                                 ('int',
                                  '1',
                                  '1',
                                  'EnumIntegerString',
                                  "EnumIntegerString.new(1, 'S')",
                                  'S'),
                                 ('int',
                                  '2',
                                  '2',
                                  'EnumIntegerString',
                                  "EnumIntegerString.new(2, 'C')",
                                  'C'),
                                 ('int',
                                  '3',
                                  '3',
                                  'EnumIntegerString',
                                  "EnumIntegerString.new(3, 'X')",
                                  'X'),
                                 ('int',
                                  '4',
                                  '4',
                                  'EnumIntegerString',
                                  "EnumIntegerString.new(4, 'KU')",
                                  'KU'),
                                 ('int',
                                  '5',
                                  '5',
                                  'EnumIntegerString',
                                  "EnumIntegerString.new(5, 'KA')",
                                  'KA')],
 'sar_channel_code:ksymapping': [('int', '0', '0', 'str', "'L'", 'L'),
                                 ('int', '1', '1', 'str', "'S'", 'S'),
                                 ('int', '2', '2', 'str', "'C'", 'C'),
                                 ('int', '3', '3', 'str', "'X'", 'X'),
                                 ('int', '4', '4', 'str', "'KU'", 'KU'),
                                 ('int', '5', '5', 'str', "'KA'", 'KA')],
 'sar_channel_code:vars': ['decmapping',
                           'docs',
                           'encmapping',
                           'flagbuildnone',
                           'ksymapping',
                           'name',
                           'parsed',
                           'subcon'],
 'sar_channel_code:parse:0': ('EnumIntegerString',
                              "EnumIntegerString.new(0, 'L')",
                              'L',
                              ('ok', 'int', '0'),
                              'str',
                              "'L'",
                              False,
                              ('ok', 'bytes', "b'\\x00\\x00'")),
 'sar_channel_code:parse:1': ('EnumIntegerString',
                              "EnumIntegerString.new(1, 'S')",
                              'S',
                              ('ok', 'int', '1'),
                              'str',
                              "'S'",
                              False,
                              ('ok', 'bytes', "b'\\x00\\x01'")),
 'sar_channel_code:parse:2': ('EnumIntegerString',
                              "EnumIntegerString.new(2, 'C')",
                              'C',
                              ('ok', 'int', '2'),
                              'str',
                              "'C'",
                              False,
                              ('ok', 'bytes', "b'\\x00\\x02'")),
 'sar_channel_code:parse:3': ('EnumIntegerString',
                              "EnumIntegerString.new(3, 'X')",
                              'X',
                              ('ok', 'int', '3'),
                              'str',
                              "'X'",
                              False,
                              ('ok', 'bytes', "b'\\x00\\x03'")),
 'sar_channel_code:parse:4': ('EnumIntegerString',
                              "EnumIntegerString.new(4, 'KU')",
                              'KU',
                              ('ok', 'int', '4'),
                              'str',
                              "'KU'",
                              False,
                              ('ok', 'bytes', "b'\\x00\\x04'")),
 'sar_channel_code:parse:5': ('EnumIntegerString',
                              "EnumIntegerString.new(5, 'KA')",
                              'KA',
                              ('ok', 'int', '5'),
                              'str',
                              "'KA'",
                              False,
                              ('ok', 'bytes', "b'\\x00\\x05'")),
 'sar_channel_code:parse:6': ('EnumInteger',
                              '6',
                              '6',
                              ('ok', 'int', '6'),
                              'EnumInteger',
                              '6',
                              True,
                              ('ok', 'bytes', "b'\\x00\\x06'")),
 'sar_channel_code:parse:7': ('EnumInteger',
                              '7',
                              '7',
                              ('ok', 'int', '7'),
                              'EnumInteger',
                              '7',
                              True,
                              ('ok', 'bytes', "b'\\x00\\x07'")),
 'sar_channel_code:parse:8': ('EnumInteger',
                              '8',
                              '8',
                              ('ok', 'int', '8'),
                              'EnumInteger',
                              '8',
                              True,
                              ('ok', 'bytes', "b'\\x00\\x08'")),
 'sar_channel_code:parse:255': ('EnumInteger',
                                '255',
                                '255',
                                ('ok', 'int', '255'),
                                'EnumInteger',
                                '255',
                                True,
                                ('ok', 'bytes', "b'\\x00\\xff'")),
 'sar_channel_code:parse:256': ('EnumInteger',
                                '256',
                                '256',
                                ('ok', 'int', '256'),
                                'EnumInteger',
                                '256',
                                True,
                                ('ok', 'bytes', "b'\\x01\\x00'")),
 'sar_channel_code:parse:65535': ('EnumInteger',
                                  '65535',
                                  '65535',
                                  ('ok', 'int', '65535'),
                                  'EnumInteger',
                                  '65535',
                                  True,
                                  ('ok', 'bytes', "b'\\xff\\xff'")),
 'sar_channel_code:parse:short': ('raise',
                                  'StreamError',
                                  'Error in path (parsing)\n'
                                  'stream read less than specified amount, expected 2, found 1'),
 "sar_channel_code:build:'L'": ('ok', 'bytes', "b'\\x00\\x00'"),
 "sar_channel_code:getattr:'L'": ('ok', 'EnumIntegerString', "'L'"),
 "sar_channel_code:build:'KU'": ('ok', 'bytes', "b'\\x00\\x04'"),
 "sar_channel_code:getattr:'KU'": ('ok', 'EnumIntegerString', "'KU'"),
 "sar_channel_code:build:'horizontal'": ('raise',
                                         'MappingError',
                                         'Error in path (building)\n'
                                         "building failed, no mapping for 'horizontal'"),
 "sar_channel_code:getattr:'horizontal'": ('raise', 'AttributeError', ''),
 "sar_channel_code:build:'update'": ('raise',
                                     'MappingError',
                                     'Error in path (building)\n'
                                     "building failed, no mapping for 'update'"),
 "sar_channel_code:getattr:'update'": ('raise', 'AttributeError', ''),
 "sar_channel_code:build:'repeat'": ('raise',
                                     'MappingError',
                                     'Error in path (building)\n'
                                     "building failed, no mapping for 'repeat'"),
 "sar_channel_code:getattr:'repeat'": ('raise', 'AttributeError', ''),
 "sar_channel_code:build:'single_polarization'": ('raise',
                                                  'MappingError',
                                                  'Error in path (building)\n'
                                                  'building failed, no mapping for '
                                                  "'single_polarization'"),
 "sar_channel_code:getattr:'single_polarization'": ('raise', 'AttributeError', ''),
 "sar_channel_code:build:'full_polarization'": ('raise',
                                                'MappingError',
                                                'Error in path (building)\n'
                                                'building failed, no mapping for '
                                                "'full_polarization'"),
 "sar_channel_code:getattr:'full_polarization'": ('raise', 'AttributeError', ''),
 "sar_channel_code:build:'linear_fm_chirp'": ('raise',
                                              'MappingError',
                                              'Error in path (building)\n'
                                              "building failed, no mapping for 'linear_fm_chirp'"),
 "sar_channel_code:getattr:'linear_fm_chirp'": ('raise', 'AttributeError', ''),
 "sar_channel_code:build:'phase_modulators'": ('raise',
                                               'MappingError',
                                               'Error in path (building)\n'
                                               'building failed, no mapping for '
                                               "'phase_modulators'"),
 "sar_channel_code:getattr:'phase_modulators'": ('raise', 'AttributeError', ''),
 "sar_channel_code:build:'vertical'": ('raise',
                                       'MappingError',
                                       'Error in path (building)\n'
                                       "building failed, no mapping for 'vertical'"),
 "sar_channel_code:getattr:'vertical'": ('raise', 'AttributeError', ''),
 "sar_channel_code:build:'l'": ('raise',
                                'MappingError',
                                "Error in path (building)\nbuilding failed, no mapping for 'l'"),
 "sar_channel_code:getattr:'l'": ('raise', 'AttributeError', ''),
 "sar_channel_code:build:''": ('raise',
                               'MappingError',
                               "Error in path (building)\nbuilding failed, no mapping for ''"),
 "sar_channel_code:getattr:''": ('raise', 'AttributeError', ''),
 "sar_channel_code:build:'unknown'": ('raise',
                                      'MappingError',
                                      'Error in path (building)\n'
                                      "building failed, no mapping for 'unknown'"),
 "sar_channel_code:getattr:'unknown'": ('raise', 'AttributeError', ''),
 "sar_channel_code:build:'_value_'": ('raise',
                                      'MappingError',
                                      'Error in path (building)\n'
                                      "building failed, no mapping for '_value_'"),
 "sar_channel_code:getattr:'_value_'": ('raise', 'AttributeError', ''),
 "sar_channel_code:build:'name'": ('raise',
                                   'MappingError',
                                   'Error in path (building)\n'
                                   "building failed, no mapping for 'name'"),
 "sar_channel_code:getattr:'name'": ('ok', 'NoneType', "'None'"),
 "sar_channel_code:build:'mro'": ('raise',
                                  'MappingError',
                                  'Error in path (building)\n'
                                  "building failed, no mapping for 'mro'"),
 "sar_channel_code:getattr:'mro'": ('raise', 'AttributeError', ''),
 "sar_channel_code:build:'subcon'": ('raise',
                                     'MappingError',
                                     'Error in path (building)\n'
                                     "building failed, no mapping for 'subcon'"),
 "sar_channel_code:getattr:'subcon'": ('ok', 'FormatField'),
 'sar_channel_code:build:0': ('ok', 'bytes', "b'\\x00\\x00'"),
 'sar_channel_code:build:1': ('ok', 'bytes', "b'\\x00\\x01'"),
 'sar_channel_code:build:4': ('ok', 'bytes', "b'\\x00\\x04'"),
 'sar_channel_code:build:7': ('ok', 'bytes', "b'\\x00\\x07'"),
 'sar_channel_code:build:-1': ('raise',
                               'FormatFieldError',
                               'Error in path (building)\n'
                               "struct '>H' error during building, given value -1"),
 'sar_channel_code:build:65536': ('raise',
                                  'FormatFieldError',
                                  'Error in path (building)\n'
                                  "struct '>H' error during building, given value 65536"),
 'sar_channel_code:build:1.0': ('raise',
                                'MappingError',
                                'Error in path (building)\nbuilding failed, no mapping for 1.0'),
 'sar_channel_code:build:None': ('raise',
                                 'MappingError',
                                 'Error in path (building)\nbuilding failed, no mapping for None'),
 'sar_channel_code:build:True': ('ok', 'bytes', "b'\\x00\\x01'"),
 "sar_channel_code:build:b'L'": ('raise',
                                 'MappingError',
                                 "Error in path (building)\nbuilding failed, no mapping for b'L'"),
 'pulse_polarization:type': 'Enum',
 'pulse_polarization:subcon': 'Int16ub',
 'pulse_polarization:sizeof': ('ok', 'int', '2'),
 'pulse_polarization:encmapping': [('EnumIntegerString',
                                    "EnumIntegerString.new(0, 'horizontal')",
                                    'horizontal',
                                    'int',
                                    '0',
                                    '0'),
                                   ('EnumIntegerString',
                                    "EnumIntegerString.new(1, 'vertical')",
                                    'vertical',
                                    'int',
                                    '1',
                                    '1')],
 'pulse_polarization:decmapping': [('int',
                                    '0',
                                    '0',
                                    'EnumIntegerString',
                                    "EnumIntegerString.new(0, 'horizontal')",
                                    'horizontal'),
                                   ('int',
                                    '1',
                                    '1',
                                    'EnumIntegerString',
                                    "EnumIntegerString.new(1, 'vertical')",
                                    'vertical')],
 'pulse_polarization:ksymapping': [('int', '0', '0', 'str', "'horizontal'", 'horizontal'),
                                   ('int', '1', '1', 'str', "'vertical'", 'vertical')],
 'pulse_polarization:vars': ['decmapping',
                             'docs',
                             'encmapping',
                             'flagbuildnone',
                             'ksymapping',
                             'name',
                             'parsed',
                             'subcon'],
 'pulse_polarization:parse:0': ('EnumIntegerString',
                                "EnumIntegerString.new(0, 'horizontal')",
                                'horizontal',
                                ('ok', 'int', '0'),
                                'str',
                                "'horizontal'",
                                False,
                                ('ok', 'bytes', "b'\\x00\\x00'")),
 'pulse_polarization:parse:1': ('EnumIntegerString',
                                "EnumIntegerString.new(1, 'vertical')",
                                'vertical',
                                ('ok', 'int', '1'),
                                'str',
                                "'vertical'",
                                False,
                                ('ok', 'bytes', "b'\\x00\\x01'")),
 'pulse_polarization:parse:2': ('EnumInteger',
                                '2',
                                '2',
                                ('ok', 'int', '2'),
                                'EnumInteger',
                                '2',
                                True,
                                ('ok', 'bytes', "b'\\x00\\x02'")),
 'pulse_polarization:parse:3': ('EnumInteger',
                                '3',
                                '3',
                                ('ok', 'int', '3'),
                                'EnumInteger',
                                '3',
                                True,
                                ('ok', 'bytes', "b'\\x00\\x03'")),
 'pulse_polarization:parse:4': ('EnumInteger',
                                '4',
                                '4',
                                ('ok', 'int', '4'),
                                'EnumInteger',
                                '4',
                                True,
                                ('ok', 'bytes', "b'\\x00\\x04'")),
 'pulse_polarization:parse:5': ('EnumInteger',
                                '5',
                                '5',
                                ('ok', 'int', '5'),
                                'EnumInteger',
                                '5',
                                True,
                                ('ok', 'bytes', "b'\\x00\\x05'")),
 'pulse_polarization:parse:6': ('EnumInteger',
                                '6',
                                '6',
                                ('ok', 'int', '6'),
                                'EnumInteger',
                                '6',
                                True,
                                ('ok', 'bytes', "b'\\x00\\x06'")),
 'pulse_polarization:parse:7': ('EnumInteger',
                                '7',
                                '7',
                                ('ok', 'int', '7'),
                                'EnumInteger',
                                '7',
                                True,
                                ('ok', 'bytes', "b'\\x00\\x07'")),
 'pulse_polarization:parse:8': ('EnumInteger',
                                '8',
                                '8',
                                ('ok', 'int', '8'),
                                'EnumInteger',
                                '8',
                                True,
                                ('ok', 'bytes', "b'\\x00\\x08'")),
 'pulse_polarization:parse:255': ('EnumInteger',
                                  '255',
                                  '255',
                                  ('ok', 'int', '255'),
                                  'EnumInteger',
                                  '255',
                                  True,
                                  ('ok', 'bytes', "b'\\x00\\xff'")),
 'pulse_polarization:parse:256': ('EnumInteger',
                                  '256',
                                  '256',
                                  ('ok', 'int', '256'),
                                  'EnumInteger',
                                  '256',
                                  True,
                                  ('ok', 'bytes', "b'\\x01\\x00'")),
 'pulse_polarization:parse:65535': ('EnumInteger',
                                    '65535',
                                    '65535',
                                    ('ok', 'int', '65535'),
                                    'EnumInteger',
                                    '65535',
                                    True,
                                    ('ok', 'bytes', "b'\\xff\\xff'")),
 'pulse_polarization:parse:short': ('raise',
                                    'StreamError',
                                    'Error in path (parsing)\n'
                                    'stream read less than specified amount, expected 2, found 1'),
 "pulse_polarization:build:'L'": ('raise',
                                  'MappingError',
                                  "Error in path (building)\nbuilding failed, no mapping for 'L'"),
 "pulse_polarization:getattr:'L'": ('raise', 'AttributeError', ''),
 "pulse_polarization:build:'KU'": ('raise',
                                   'MappingError',
                                   'Error in path (building)\n'
                                   "building failed, no mapping for 'KU'"),
 "pulse_polarization:getattr:'KU'": ('raise', 'AttributeError', ''),
 "pulse_polarization:build:'horizontal'": ('ok', 'bytes', "b'\\x00\\x00'"),
 "pulse_polarization:getattr:'horizontal'": ('ok', 'EnumIntegerString', "'horizontal'"),
 "pulse_polarization:build:'update'": ('raise',
                                       'MappingError',
                                       'Error in path (building)\n'
                                       "building failed, no mapping for 'update'"),
 "pulse_polarization:getattr:'update'": ('raise', 'AttributeError', ''),
 "pulse_polarization:build:'repeat'": ('raise',
                                       'MappingError',
                                       'Error in path (building)\n'
                                       "building failed, no mapping for 'repeat'"),
 "pulse_polarization:getattr:'repeat'": ('raise', 'AttributeError', ''),
 "pulse_polarization:build:'single_polarization'": ('raise',
                                                    'MappingError',
                                                    'Error in path (building)\n'
                                                    'building failed, no mapping for '
                                                    "'single_polarization'"),
 "pulse_polarization:getattr:'single_polarization'": ('raise', 'AttributeError', ''),
 "pulse_polarization:build:'full_polarization'": ('raise',
                                                  'MappingError',
                                                  'Error in path (building)\n'
                                                  'building failed, no mapping for '
                                                  "'full_polarization'"),
 "pulse_polarization:getattr:'full_polarization'": ('raise', 'AttributeError', ''),
 "pulse_polarization:build:'linear_fm_chirp'": ('raise',
                                                'MappingError',
                                                'Error in path (building)\n'
                                                'building failed, no mapping for '
                                                "'linear_fm_chirp'"),
 "pulse_polarization:getattr:'linear_fm_chirp'": ('raise', 'AttributeError', ''),
 "pulse_polarization:build:'phase_modulators'": ('raise',
                                                 'MappingError',
                                                 'Error in path (building)\n'
                                                 'building failed, no mapping for '
                                                 "'phase_modulators'"),
 "pulse_polarization:getattr:'phase_modulators'": ('raise', 'AttributeError', ''),
 "pulse_polarization:build:'vertical'": ('ok', 'bytes', "b'\\x00\\x01'"),
 "pulse_polarization:getattr:'vertical'": ('ok', 'EnumIntegerString', "'vertical'"),
 "pulse_polarization:build:'l'": ('raise',
                                  'MappingError',
                                  "Error in path (building)\nbuilding failed, no mapping for 'l'"),
 "pulse_polarization:getattr:'l'": ('raise', 'AttributeError', ''),
 "pulse_polarization:build:''": ('raise',
                                 'MappingError',
                                 "Error in path (building)\nbuilding failed, no mapping for ''"),
 "pulse_polarization:getattr:''": ('raise', 'AttributeError', ''),
 "pulse_polarization:build:'unknown'": ('raise',
                                        'MappingError',
                                        'Error in path (building)\n'
                                        "building failed, no mapping for 'unknown'"),
 "pulse_polarization:getattr:'unknown'": ('raise', 'AttributeError', ''),
 "pulse_polarization:build:'_value_'": ('raise',
                                        'MappingError',
                                        'Error in path (building)\n'
                                        "building failed, no mapping for '_value_'"),
 "pulse_polarization:getattr:'_value_'": ('raise', 'AttributeError', ''),
 "pulse_polarization:build:'name'": ('raise',
                                     'MappingError',
                                     'Error in path (building)\n'
                                     "building failed, no mapping for 'name'"),
 "pulse_polarization:getattr:'name'": ('ok', 'NoneType', "'None'"),
 "pulse_polarization:build:'mro'": ('raise',
                                    'MappingError',
                                    'Error in path (building)\n'
                                    "building failed, no mapping for 'mro'"),
 "pulse_polarization:getattr:'mro'": ('raise', 'AttributeError', ''),
 "pulse_polarization:build:'subcon'": ('raise',
                                       'MappingError',
                                       'Error in path (building)\n'
                                       "building failed, no mapping for 'subcon'"),
 "pulse_polarization:getattr:'subcon'": ('ok', 'FormatField'),
 'pulse_polarization:build:0': ('ok', 'bytes', "b'\\x00\\x00'"),
 'pulse_polarization:build:1': ('ok', 'bytes', "b'\\x00\\x01'"),
 'pulse_polarization:build:4': ('ok', 'bytes', "b'\\x00\\x04'"),
 'pulse_polarization:build:7': ('ok', 'bytes', "b'\\x00\\x07'"),
 'pulse_polarization:build:-1': ('raise',
                                 'FormatFieldError',
                                 'Error in path (building)\n'
                                 "struct '>H' error during building, given value -1"),
 'pulse_polarization:build:65536': ('raise',
                                    'FormatFieldError',
                                    'Error in path (building)\n'
                                    "struct '>H' error during building, given value 65536"),
 'pulse_polarization:build:1.0': ('raise',
                                  'MappingError',
                                  'Error in path (building)\nbuilding failed, no mapping for 1.0'),
 'pulse_polarization:build:None': ('raise',
                                   'MappingError',
                                   'Error in path (building)\n'
                                   'building failed, no mapping for None'),
 'pulse_polarization:build:True': ('ok', 'bytes', "b'\\x00\\x01'"),
 "pulse_polarization:build:b'L'": ('raise',
                                   'MappingError',
                                   'Error in path (building)\n'
                                   "building failed, no mapping for b'L'"),
 'chirp_type_designator:type': 'Enum',
 'chirp_type_designator:subcon': 'Int16ub',
 'chirp_type_designator:sizeof': ('ok', 'int', '2'),
 'chirp_type_designator:encmapping': [('EnumIntegerString',
                                       "EnumIntegerString.new(0, 'linear_fm_chirp')",
                                       'linear_fm_chirp',
                                       'int',
                                       '0',
                                       '0'),
                                      ('EnumIntegerString',
                                       "EnumIntegerString.new(1, 'phase_modulators')",
                                       'phase_modulators',
                                       'int',
                                       '1',
                                       '1')],
 'chirp_type_designator:decmapping': [('int',
                                       '0',
                                       '0',
                                       'EnumIntegerString',
                                       "EnumIntegerString.new(0, 'linear_fm_chirp')",
                                       'linear_fm_chirp'),
                                      ('int',
                                       '1',
                                       '1',
                                       'EnumIntegerString',
                                       "EnumIntegerString.new(1, 'phase_modulators')",
                                       'phase_modulators')],
 'chirp_type_designator:ksymapping': [('int',
                                       '0',
                                       '0',
                                       'str',
                                       "'linear_fm_chirp'",
                                       'linear_fm_chirp'),
                                      ('int',
                                       '1',
                                       '1',
                                       'str',
                                       "'phase_modulators'",
                                       'phase_modulators')],
 'chirp_type_designator:vars': ['decmapping',
                                'docs',
                                'encmapping',
                                'flagbuildnone',
                                'ksymapping',
                                'name',
                                'parsed',
                                'subcon'],
 'chirp_type_designator:parse:0': ('EnumIntegerString',
                                   "EnumIntegerString.new(0, 'linear_fm_chirp')",
                                   'linear_fm_chirp',
                                   ('ok', 'int', '0'),
                                   'str',
                                   "'linear_fm_chirp'",
                                   False,
                                   ('ok', 'bytes', "b'\\x00\\x00'")),
 'chirp_type_designator:parse:1': ('EnumIntegerString',
                                   "EnumIntegerString.new(1, 'phase_modulators')",
                                   'phase_modulators',
                                   ('ok', 'int', '1'),
                                   'str',
                                   "'phase_modulators'",
                                   False,
                                   ('ok', 'bytes', "b'\\x00\\x01'")),
 'chirp_type_designator:parse:2': ('EnumInteger',
                                   '2',
                                   '2',
                                   ('ok', 'int', '2'),
                                   'EnumInteger',
                                   '2',
                                   True,
                                   ('ok', 'bytes', "b'\\x00\\x02'")),
 'chirp_type_designator:parse:3': ('EnumInteger',
                                   '3',
                                   '3',
                                   ('ok', 'int', '3'),
                                   'EnumInteger',
                                   '3',
                                   True,
                                   ('ok', 'bytes', "b'\\x00\\x03'")),
 'chirp_type_designator:parse:4': ('EnumInteger',
                                   '4',
                                   '4',
                                   ('ok', 'int', '4'),
                                   'EnumInteger',
                                   '4',
                                   True,
                                   ('ok', 'bytes', "b'\\x00\\x04'")),
 'chirp_type_designator:parse:5': ('EnumInteger',
                                   '5',
                                   '5',
                                   ('ok', 'int', '5'),
                                   'EnumInteger',
                                   '5',
                                   True,
                                   ('ok', 'bytes', "b'\\x00\\x05'")),
 'chirp_type_designator:parse:6': ('EnumInteger',
                                   '6',
                                   '6',
                                   ('ok', 'int', '6'),
                                   'EnumInteger',
                                   '6',
                                   True,
                                   ('ok', 'bytes', "b'\\x00\\x06'")),
 'chirp_type_designator:parse:7': ('EnumInteger',
                                   '7',
                                   '7',
                                   ('ok', 'int', '7'),
                                   'EnumInteger',
                                   '7',
                                   True,
                                   ('ok', 'bytes', "b'\\x00\\x07'")),
 'chirp_type_designator:parse:8': ('EnumInteger',
                                   '8',
                                   '8',
                                   ('ok', 'int', '8'),
                                   'EnumInteger',
                                   '8',
                                   True,
                                   ('ok', 'bytes', "b'\\x00\\x08'")),
 'chirp_type_designator:parse:255': ('EnumInteger',
                                     '255',
                                     '255',
                                     ('ok', 'int', '255'),
                                     'EnumInteger',
                                     '255',
                                     True,
                                     ('ok', 'bytes', "b'\\x00\\xff'")),
 'chirp_type_designator:parse:256': ('EnumInteger',
                                     '256',
                                     '256',
                                     ('ok', 'int', '256'),
                                     'EnumInteger',
                                     '256',
                                     True,
                                     ('ok', 'bytes', "b'\\x01\\x00'")),
 'chirp_type_designator:parse:65535': ('EnumInteger',
                                       '65535',
                                       '65535',
                                       ('ok', 'int', '65535'),
                                       'EnumInteger',
                                       '65535',
                                       True,
                                       ('ok', 'bytes', "b'\\xff\\xff'")),
 'chirp_type_designator:parse:short': ('raise',
                                       'StreamError',
                                       'Error in path (parsing)\n'
                                       'stream read less than specified amount, expected 2, found '
                                       '1'),
 "chirp_type_designator:build:'L'": ('raise',
                                     'MappingError',
                                     'Error in path (building)\n'
                                     "building failed, no mapping for 'L'"),
 "chirp_type_designator:getattr:'L'": ('raise', 'AttributeError', ''),
 "chirp_type_designator:build:'KU'": ('raise',
                                      'MappingError',
                                      'Error in path (building)\n'
                                      "building failed, no mapping for 'KU'"),
 "chirp_type_designator:getattr:'KU'": ('raise', 'AttributeError', ''),
 "chirp_type_designator:build:'horizontal'": ('raise',
                                              'MappingError',
                                              'Error in path (building)\n'
                                              "building failed, no mapping for 'horizontal'"),
 "chirp_type_designator:getattr:'horizontal'": ('raise', 'AttributeError', ''),
 "chirp_type_designator:build:'update'": ('raise',
                                          'MappingError',
                                          'Error in path (building)\n'
                                          "building failed, no mapping for 'update'"),
 "chirp_type_designator:getattr:'update'": ('raise', 'AttributeError', ''),
 "chirp_type_designator:build:'repeat'": ('raise',
                                          'MappingError',
                                          'Error in path (building)\n'
                                          "building failed, no mapping for 'repeat'"),
 "chirp_type_designator:getattr:'repeat'": ('raise', 'AttributeError', ''),
 "chirp_type_designator:build:'single_polarization'": ('raise',
                                                       'MappingError',
                                                       'Error in path (building)\n'
                                                       'building failed, no mapping for '
                                                       "'single_polarization'"),
 "chirp_type_designator:getattr:'single_polarization'": ('raise', 'AttributeError', ''),
 "chirp_type_designator:build:'full_polarization'": ('raise',
                                                     'MappingError',
                                                     'Error in path (building)\n'
                                                     'building failed, no mapping for '
                                                     "'full_polarization'"),
 "chirp_type_designator:getattr:'full_polarization'": ('raise', 'AttributeError', ''),
 "chirp_type_designator:build:'linear_fm_chirp'": ('ok', 'bytes', "b'\\x00\\x00'"),
 "chirp_type_designator:getattr:'linear_fm_chirp'": ('ok',
                                                     'EnumIntegerString',
                                                     "'linear_fm_chirp'"),
 "chirp_type_designator:build:'phase_modulators'": ('ok', 'bytes', "b'\\x00\\x01'"),
 "chirp_type_designator:getattr:'phase_modulators'": ('ok',
                                                      'EnumIntegerString',
                                                      "'phase_modulators'"),
 "chirp_type_designator:build:'vertical'": ('raise',
                                            'MappingError',
                                            'Error in path (building)\n'
                                            "building failed, no mapping for 'vertical'"),
 "chirp_type_designator:getattr:'vertical'": ('raise', 'AttributeError', ''),
 "chirp_type_designator:build:'l'": ('raise',
                                     'MappingError',
                                     'Error in path (building)\n'
                                     "building failed, no mapping for 'l'"),
 "chirp_type_designator:getattr:'l'": ('raise', 'AttributeError', ''),
 "chirp_type_designator:build:''": ('raise',
                                    'MappingError',
                                    "Error in path (building)\nbuilding failed, no mapping for ''"),
 "chirp_type_designator:getattr:''": ('raise', 'AttributeError', ''),
 "chirp_type_designator:build:'unknown'": ('raise',
                                           'MappingError',
                                           'Error in path (building)\n'
                                           "building failed, no mapping for 'unknown'"),
 "chirp_type_designator:getattr:'unknown'": ('raise', 'AttributeError', ''),
 "chirp_type_designator:build:'_value_'": ('raise',
                                           'MappingError',
                                           'Error in path (building)\n'
                                           "building failed, no mapping for '_value_'"),
 "chirp_type_designator:getattr:'_value_'": ('raise', 'AttributeError', ''),
 "chirp_type_designator:build:'name'": ('raise',
                                        'MappingError',
                                        'Error in path (building)\n'
                                        "building failed, no mapping for 'name'"),
 "chirp_type_designator:getattr:'name'": ('ok', 'NoneType', "'None'"),
 "chirp_type_designator:build:'mro'": ('raise',
                                       'MappingError',
                                       'Error in path (building)\n'
                                       "building failed, no mapping for 'mro'"),
 "chirp_type_designator:getattr:'mro'": ('raise', 'AttributeError', ''),
 "chirp_type_designator:build:'subcon'": ('raise',
                                          'MappingError',
                                          'Error in path (building)\n'
                                          "building failed, no mapping for 'subcon'"),
 "chirp_type_designator:getattr:'subcon'": ('ok', 'FormatField'),
 'chirp_type_designator:build:0': ('ok', 'bytes', "b'\\x00\\x00'"),
 'chirp_type_designator:build:1': ('ok', 'bytes', "b'\\x00\\x01'"),
 'chirp_type_designator:build:4': ('ok', 'bytes', "b'\\x00\\x04'"),
 'chirp_type_designator:build:7': ('ok', 'bytes', "b'\\x00\\x07'"),
 'chirp_type_designator:build:-1': ('raise',
                                    'FormatFieldError',
                                    'Error in path (building)\n'
                                    "struct '>H' error during building, given value -1"),
 'chirp_type_designator:build:65536': ('raise',
                                       'FormatFieldError',
                                       'Error in path (building)\n'
                                       "struct '>H' error during building, given value 65536"),
 'chirp_type_designator:build:1.0': ('raise',
                                     'MappingError',
                                     'Error in path (building)\n'
                                     'building failed, no mapping for 1.0'),
 'chirp_type_designator:build:None': ('raise',
                                      'MappingError',
                                      'Error in path (building)\n'
                                      'building failed, no mapping for None'),
 'chirp_type_designator:build:True': ('ok', 'bytes', "b'\\x00\\x01'"),
 "chirp_type_designator:build:b'L'": ('raise',
                                      'MappingError',
                                      'Error in path (building)\n'
                                      "building failed, no mapping for b'L'"),
 'platform_position_parameters_update:type': 'Enum',
 'platform_position_parameters_update:subcon': 'Int32ub',
 'platform_position_parameters_update:sizeof': ('ok', 'int', '4'),
 'platform_position_parameters_update:encmapping': [('EnumIntegerString',
                                                     "EnumIntegerString.new(0, 'repeat')",
                                                     'repeat',
                                                     'int',
                                                     '0',
                                                     '0'),
                                                    ('EnumIntegerString',
                                                     "EnumIntegerString.new(1, 'update')",
                                                     'update',
                                                     'int',
                                                     '1',
                                                     '1')],
 'platform_position_parameters_update:decmapping': [('int',
                                                     '0',
                                                     '0',
                                                     'EnumIntegerString',
                                                     "EnumIntegerString.new(0, 'repeat')",
                                                     'repeat'),
                                                    ('int',
                                                     '1',
                                                     '1',
                                                     'EnumIntegerString',
                                                     "EnumIntegerString.new(1, 'update')",
                                                     'update')],
 'platform_position_parameters_update:ksymapping': [('int', '0', '0', 'str', "'repeat'", 'repeat'),
                                                    ('int', '1', '1', 'str', "'update'", 'update')],
 'platform_position_parameters_update:vars': ['decmapping',
                                              'docs',
                                              'encmapping',
                                              'flagbuildnone',
                                              'ksymapping',
                                              'name',
                                              'parsed',
                                              'subcon'],
 'platform_position_parameters_update:parse:0': ('EnumIntegerString',
                                                 "EnumIntegerString.new(0, 'repeat')",
                                                 'repeat',
                                                 ('ok', 'int', '0'),
                                                 'str',
                                                 "'repeat'",
                                                 False,
                                                 ('ok', 'bytes', "b'\\x00\\x00\\x00\\x00'")),
 'platform_position_parameters_update:parse:1': ('EnumIntegerString',
                                                 "EnumIntegerString.new(1, 'update')",
                                                 'update',
                                                 ('ok', 'int', '1'),
                                                 'str',
                                                 "'update'",
                                                 False,
                                                 ('ok', 'bytes', "b'\\x00\\x00\\x00\\x01'")),
 'platform_position_parameters_update:parse:2': ('EnumInteger',
                                                 '2',
                                                 '2',
                                                 ('ok', 'int', '2'),
                                                 'EnumInteger',
                                                 '2',
                                                 True,
                                                 ('ok', 'bytes', "b'\\x00\\x00\\x00\\x02'")),
 'platform_position_parameters_update:parse:3': ('EnumInteger',
                                                 '3',
                                                 '3',
                                                 ('ok', 'int', '3'),
                                                 'EnumInteger',
                                                 '3',
                                                 True,
                                                 ('ok', 'bytes', "b'\\x00\\x00\\x00\\x03'")),
 'platform_position_parameters_update:parse:4': ('EnumInteger',
                                                 '4',
                                                 '4',
                                                 ('ok', 'int', '4'),
                                                 'EnumInteger',
                                                 '4',
                                                 True,
                                                 ('ok', 'bytes', "b'\\x00\\x00\\x00\\x04'")),
 'platform_position_parameters_update:parse:5': ('EnumInteger',
                                                 '5',
                                                 '5',
                                                 ('ok', 'int', '5'),
                                                 'EnumInteger',
                                                 '5',
                                                 True,
                                                 ('ok', 'bytes', "b'\\x00\\x00\\x00\\x05'")),
 'platform_position_parameters_update:parse:6': ('EnumInteger',
                                                 '6',
                                                 '6',
                                                 ('ok', 'int', '6'),
                                                 'EnumInteger',
                                                 '6',
                                                 True,
                                                 ('ok', 'bytes', "b'\\x00\\x00\\x00\\x06'")),
 'platform_position_parameters_update:parse:7': ('EnumInteger',
                                                 '7',
                                                 '7',
                                                 ('ok', 'int', '7'),
                                                 'EnumInteger',
                                                 '7',
                                                 True,
                                                 ('ok', 'bytes', "b'\\x00\\x00\\x00\\x07'")),
 'platform_position_parameters_update:parse:8': ('EnumInteger',
                                                 '8',
                                                 '8',
                                                 ('ok', 'int', '8'),
                                                 'EnumInteger',
                                                 '8',
                                                 True,
                                                 ('ok', 'bytes', "b'\\x00\\x00\\x00\\x08'")),
 'platform_position_parameters_update:parse:255': ('EnumInteger',
                                                   '255',
                                                   '255',
                                                   ('ok', 'int', '255'),
                                                   'EnumInteger',
                                                   '255',
                                                   True,
                                                   ('ok', 'bytes', "b'\\x00\\x00\\x00\\xff'")),
 'platform_position_parameters_update:parse:256': ('EnumInteger',
                                                   '256',
                                                   '256',
                                                   ('ok', 'int', '256'),
                                                   'EnumInteger',
                                                   '256',
                                                   True,
                                                   ('ok', 'bytes', "b'\\x00\\x00\\x01\\x00'")),
 'platform_position_parameters_update:parse:4294967295': ('EnumInteger',
                                                          '4294967295',
                                                          '4294967295',
                                                          ('ok', 'int', '4294967295'),
                                                          'EnumInteger',
                                                          '4294967295',
                                                          True,
                                                          ('ok',
                                                           'bytes',
                                                           "b'\\xff\\xff\\xff\\xff'")),
 'platform_position_parameters_update:parse:short': ('raise',
                                                     'StreamError',
                                                     'Error in path (parsing)\n'
                                                     'stream read less than specified amount, '
                                                     'expected 4, found 3'),
 "platform_position_parameters_update:build:'L'": ('raise',
                                                   'MappingError',
                                                   'Error in path (building)\n'
                                                   "building failed, no mapping for 'L'"),
 "platform_position_parameters_update:getattr:'L'": ('raise', 'AttributeError', ''),
 "platform_position_parameters_update:build:'KU'": ('raise',
                                                    'MappingError',
                                                    'Error in path (building)\n'
                                                    "building failed, no mapping for 'KU'"),
 "platform_position_parameters_update:getattr:'KU'": ('raise', 'AttributeError', ''),
 "platform_position_parameters_update:build:'horizontal'": ('raise',
                                                            'MappingError',
                                                            'Error in path (building)\n'
                                                            'building failed, no mapping for '
                                                            "'horizontal'"),
 "platform_position_parameters_update:getattr:'horizontal'": ('raise', 'AttributeError', ''),
 "platform_position_parameters_update:build:'update'": ('ok', 'bytes', "b'\\x00\\x00\\x00\\x01'"),
 "platform_position_parameters_update:getattr:'update'": ('ok', 'EnumIntegerString', "'update'"),
 "platform_position_parameters_update:build:'repeat'": ('ok', 'bytes', "b'\\x00\\x00\\x00\\x00'"),
 "platform_position_parameters_update:getattr:'repeat'": ('ok', 'EnumIntegerString', "'repeat'"),
 "platform_position_parameters_update:build:'single_polarization'": ('raise',
                                                                     'MappingError',
                                                                     'Error in path (building)\n'
                                                                     'building failed, no mapping '
                                                                     "for 'single_polarization'"),
 "platform_position_parameters_update:getattr:'single_polarization'": ('raise',
                                                                       'AttributeError',
                                                                       ''),
 "platform_position_parameters_update:build:'full_polarization'": ('raise',
                                                                   'MappingError',
                                                                   'Error in path (building)\n'
                                                                   'building failed, no mapping '
                                                                   "for 'full_polarization'"),
 "platform_position_parameters_update:getattr:'full_polarization'": ('raise', 'AttributeError', ''),
 "platform_position_parameters_update:build:'linear_fm_chirp'": ('raise',
                                                                 'MappingError',
                                                                 'Error in path (building)\n'
                                                                 'building failed, no mapping for '
                                                                 "'linear_fm_chirp'"),
 "platform_position_parameters_update:getattr:'linear_fm_chirp'": ('raise', 'AttributeError', ''),
 "platform_position_parameters_update:build:'phase_modulators'": ('raise',
                                                                  'MappingError',
                                                                  'Error in path (building)\n'
                                                                  'building failed, no mapping for '
                                                                  "'phase_modulators'"),
 "platform_position_parameters_update:getattr:'phase_modulators'": ('raise', 'AttributeError', ''),
 "platform_position_parameters_update:build:'vertical'": ('raise',
                                                          'MappingError',
                                                          'Error in path (building)\n'
                                                          'building failed, no mapping for '
                                                          "'vertical'"),
 "platform_position_parameters_update:getattr:'vertical'": ('raise', 'AttributeError', ''),
 "platform_position_parameters_update:build:'l'": ('raise',
                                                   'MappingError',
                                                   'Error in path (building)\n'
                                                   "building failed, no mapping for 'l'"),
 "platform_position_parameters_update:getattr:'l'": ('raise', 'AttributeError', ''),
 "platform_position_parameters_update:build:''": ('raise',
                                                  'MappingError',
                                                  'Error in path (building)\n'
                                                  "building failed, no mapping for ''"),
 "platform_position_parameters_update:getattr:''": ('raise', 'AttributeError', ''),
 "platform_position_parameters_update:build:'unknown'": ('raise',
                                                         'MappingError',
                                                         'Error in path (building)\n'
                                                         'building failed, no mapping for '
                                                         "'unknown'"),
 "platform_position_parameters_update:getattr:'unknown'": ('raise', 'AttributeError', ''),
 "platform_position_parameters_update:build:'_value_'": ('raise',
                                                         'MappingError',
                                                         'Error in path (building)\n'
                                                         'building failed, no mapping for '
                                                         "'_value_'"),
 "platform_position_parameters_update:getattr:'_value_'": ('raise', 'AttributeError', ''),
 "platform_position_parameters_update:build:'name'": ('raise',
                                                      'MappingError',
                                                      'Error in path (building)\n'
                                                      "building failed, no mapping for 'name'"),
 "platform_position_parameters_update:getattr:'name'": ('ok', 'NoneType', "'None'"),
 "platform_position_parameters_update:build:'mro'": ('raise',
                                                     'MappingError',
                                                     'Error in path (building)\n'
                                                     "building failed, no mapping for 'mro'"),
 "platform_position_parameters_update:getattr:'mro'": ('raise', 'AttributeError', ''),
 "platform_position_parameters_update:build:'subcon'": ('raise',
                                                        'MappingError',
                                                        'Error in path (building)\n'
                                                        "building failed, no mapping for 'subcon'"),
 "platform_position_parameters_update:getattr:'subcon'": ('ok', 'FormatField'),
 'platform_position_parameters_update:build:0': ('ok', 'bytes', "b'\\x00\\x00\\x00\\x00'"),
 'platform_position_parameters_update:build:1': ('ok', 'bytes', "b'\\x00\\x00\\x00\\x01'"),
 'platform_position_parameters_update:build:4': ('ok', 'bytes', "b'\\x00\\x00\\x00\\x04'"),
 'platform_position_parameters_update:build:7': ('ok', 'bytes', "b'\\x00\\x00\\x00\\x07'"),
 'platform_position_parameters_update:build:-1': ('raise',
                                                  'FormatFieldError',
                                                  'Error in path (building)\n'
                                                  "struct '>L' error during building, given value "
                                                  '-1'),
 'platform_position_parameters_update:build:4294967296': ('raise',
                                                          'FormatFieldError',
                                                          'Error in path (building)\n'
                                                          "struct '>L' error during building, "
                                                          'given value 4294967296'),
 'platform_position_parameters_update:build:1.0': ('raise',
                                                   'MappingError',
                                                   'Error in path (building)\n'
                                                   'building failed, no mapping for 1.0'),
 'platform_position_parameters_update:build:None': ('raise',
                                                    'MappingError',
                                                    'Error in path (building)\n'
                                                    'building failed, no mapping for None'),
 'platform_position_parameters_update:build:True': ('ok', 'bytes', "b'\\x00\\x00\\x00\\x01'"),
 "platform_position_parameters_update:build:b'L'": ('raise',
                                                    'MappingError',
                                                    'Error in path (building)\n'
                                                    "building failed, no mapping for b'L'"),
 'shared:pulse_polarization': [True, True, True, True],
 'signal:0': ('ok', 'dict', "{'data': {'start': 544, 'size': 4, 'stop': 548}}"),
 'signal:0:str': ('ok',
                  'str',
                  '"Container: \\n    record_start = 0\\n    preamble = Container: \\n        '
                  'record_sequence_number = 1\\n        first_record_subtype = 50\\n        '
                  'record_type = 10\\n        second_record_subtype = 18\\n        '
                  'third_record_subtype = 20\\n        record_length = 548\\n    '
                  'sar_image_data_line_number = 0\\n    sar_image_data_record_index = 0\\n    '
                  'actual_count_of_left_fill_pixels = 0\\n    actual_count_of_data_pixels = '
                  '0\\n    actual_count_of_right_fill_pixels = 0\\n    '
                  'sensor_parameters_update_flag = 0\\n    sensor_acquisition_date = 2019-02-01 '
                  '00:00:01.500000\\n    sar_channel_id = (enum) (unknown) 0\\n    '
                  'sar_channel_code = (enum) L 0\\n    transmitted_pulse_polarization = (enum) '
                  'horizontal 0\\n    received_pulse_polarization = (enum) horizontal 0\\n    prf '
                  "= (0, {'units': 'mHz'})\\n    scan_id = 0\\n    onboard_range_compressed_flag = "
                  'False\\n    chirp_type_designator = (enum) linear_fm_chirp 0\\n    chirp_length '
                  "= (0, {'units': 'ns'})\\n    chirp_constant_coefficient = (0, {'units': "
                  "'Hz'})\\n    chirp_linear_coefficient = (0, {'units': 'Hz/µs'})\\n    "
                  "chirp_quadratic_coefficient = (0, {'units': 'Hz/µs^2'})\\n    "
                  'sensor_acquisition_date_microseconds = 2019-02-01 00:00:00\\n    receiver_gain '
                  "= (0, {'units': 'dB'})\\n    invalid_line_flag = False\\n    "
                  'elevation_angle_at_nadir_of_antenna = Container: \\n        electronic = (0, '
                  "{'units': 'deg'})\\n        mechanic = (0, {'units': 'deg'})\\n    "
                  "antenna_squint_angle = Container: \\n        electronic = (0, {'units': "
                  "'deg'})\\n        mechanic = (0, {'units': 'deg'})\\n    "
                  "slant_range_to_first_data_sample = (0, {'units': 'm'})\\n    "
                  "data_record_window_position = (0, {'units': 'ns'})\\n    blanks1 = 0\\n    "
                  'platform_position_parameters_update_flag = (enum) repeat 0\\n    '
                  "platform_latitude = (0.0, {'units': 'deg'})\\n    platform_longitude = (0.0, "
                  "{'units': 'deg'})\\n    platform_altitude = (0, {'units': 'deg'})\\n    "
                  "platform_ground_speed = (0, {'units': 'cm/s'})\\n    platform_velocity = "
                  "Container: \\n        x = (0, {'units': 'cm/s'})\\n        y = (0, {'units': "
                  "'cm/s'})\\n        z = (0, {'units': 'cm/s'})\\n    platform_acceleration = "
                  "Container: \\n        x = (0, {'units': 'cm/s^2'})\\n        y = (0, {'units': "
                  "'cm/s^2'})\\n        z = (0, {'units': 'cm/s^2'})\\n    platform_track_angle = "
                  "(0.0, {'units': 'deg'})\\n    platform_true_track_angle = (0.0, {'units': "
                  "'deg'})\\n    platform_attitude = Container: \\n        pitch = (0.0, {'units': "
                  "'deg'})\\n        roll = (0.0, {'units': 'deg'})\\n        yaw = (0.0, "
                  "{'units': 'deg'})\\n    latitude_of_first_pixel = (0.0, {'units': 'deg'})\\n    "
                  "latitude_of_center_pixel = (0.0, {'units': 'deg'})\\n    latitude_of_last_pixel "
                  "= (0.0, {'units': 'deg'})\\n    longitude_of_first_pixel = (0.0, {'units': "
                  "'deg'})\\n    longitude_of_center_pixel = (0.0, {'units': 'deg'})\\n    "
                  "longitude_of_last_pixel = (0.0, {'units': 'deg'})\\n    burst_number = 0\\n    "
                  "line_number_in_this_burst = 0\\n    blanks2 = b'' (total 0)\\n    "
                  "alos2_frame_number = 0\\n    palsar_auxiliary_data = b'' (total 0)\\n    data = "
                  'Container: \\n        start = 544\\n        size = 4\\n        stop = 548"'),
 'signal:1': ('ok',
              'dict',
              "{'sar_channel_id': 'single_polarization', 'sar_channel_code': 'KA', "
              "'transmitted_pulse_polarization': 'vertical', 'received_pulse_polarization': "
              "'horizontal', 'onboard_range_compressed_flag': True, 'chirp_type_designator': "
              "'phase_modulators', 'invalid_line_flag': True, "
              "'platform_position_parameters_update_flag': 'update', 'data': {'start': 544, "
              "'size': 4, 'stop': 548}}"),
 'signal:1:str': ('ok',
                  'str',
                  '"Container: \\n    record_start = 0\\n    preamble = Container: \\n        '
                  'record_sequence_number = 1\\n        first_record_subtype = 50\\n        '
                  'record_type = 10\\n        second_record_subtype = 18\\n        '
                  'third_record_subtype = 20\\n        record_length = 548\\n    '
                  'sar_image_data_line_number = 0\\n    sar_image_data_record_index = 0\\n    '
                  'actual_count_of_left_fill_pixels = 0\\n    actual_count_of_data_pixels = '
                  '0\\n    actual_count_of_right_fill_pixels = 0\\n    '
                  'sensor_parameters_update_flag = 0\\n    sensor_acquisition_date = 2019-02-01 '
                  '00:00:01.500000\\n    sar_channel_id = (enum) single_polarization 1\\n    '
                  'sar_channel_code = (enum) KA 5\\n    transmitted_pulse_polarization = (enum) '
                  'vertical 1\\n    received_pulse_polarization = (enum) horizontal 0\\n    prf = '
                  "(0, {'units': 'mHz'})\\n    scan_id = 0\\n    onboard_range_compressed_flag = "
                  'True\\n    chirp_type_designator = (enum) phase_modulators 1\\n    chirp_length '
                  "= (0, {'units': 'ns'})\\n    chirp_constant_coefficient = (0, {'units': "
                  "'Hz'})\\n    chirp_linear_coefficient = (0, {'units': 'Hz/µs'})\\n    "
                  "chirp_quadratic_coefficient = (0, {'units': 'Hz/µs^2'})\\n    "
                  'sensor_acquisition_date_microseconds = 2019-02-01 00:00:00\\n    receiver_gain '
                  "= (0, {'units': 'dB'})\\n    invalid_line_flag = True\\n    "
                  'elevation_angle_at_nadir_of_antenna = Container: \\n        electronic = (0, '
                  "{'units': 'deg'})\\n        mechanic = (0, {'units': 'deg'})\\n    "
                  "antenna_squint_angle = Container: \\n        electronic = (0, {'units': "
                  "'deg'})\\n        mechanic = (0, {'units': 'deg'})\\n    "
                  "slant_range_to_first_data_sample = (0, {'units': 'm'})\\n    "
                  "data_record_window_position = (0, {'units': 'ns'})\\n    blanks1 = 0\\n    "
                  'platform_position_parameters_update_flag = (enum) update 1\\n    '
                  "platform_latitude = (0.0, {'units': 'deg'})\\n    platform_longitude = (0.0, "
                  "{'units': 'deg'})\\n    platform_altitude = (0, {'units': 'deg'})\\n    "
                  "platform_ground_speed = (0, {'units': 'cm/s'})\\n    platform_velocity = "
                  "Container: \\n        x = (0, {'units': 'cm/s'})\\n        y = (0, {'units': "
                  "'cm/s'})\\n        z = (0, {'units': 'cm/s'})\\n    platform_acceleration = "
                  "Container: \\n        x = (0, {'units': 'cm/s^2'})\\n        y = (0, {'units': "
                  "'cm/s^2'})\\n        z = (0, {'units': 'cm/s^2'})\\n    platform_track_angle = "
                  "(0.0, {'units': 'deg'})\\n    platform_true_track_angle = (0.0, {'units': "
                  "'deg'})\\n    platform_attitude = Container: \\n        pitch = (0.0, {'units': "
                  "'deg'})\\n        roll = (0.0, {'units': 'deg'})\\n        yaw = (0.0, "
                  "{'units': 'deg'})\\n    latitude_of_first_pixel = (0.0, {'units': 'deg'})\\n    "
                  "latitude_of_center_pixel = (0.0, {'units': 'deg'})\\n    latitude_of_last_pixel "
                  "= (0.0, {'units': 'deg'})\\n    longitude_of_first_pixel = (0.0, {'units': "
                  "'deg'})\\n    longitude_of_center_pixel = (0.0, {'units': 'deg'})\\n    "
                  "longitude_of_last_pixel = (0.0, {'units': 'deg'})\\n    burst_number = 0\\n    "
                  "line_number_in_this_burst = 0\\n    blanks2 = b'' (total 0)\\n    "
                  "alos2_frame_number = 0\\n    palsar_auxiliary_data = b'' (total 0)\\n    data = "
                  'Container: \\n        start = 544\\n        size = 4\\n        stop = 548"'),
 'signal:2': ('ok',
              'dict',
              "{'sar_channel_id': 'full_polarization', 'sar_channel_code': 'KU', "
              "'transmitted_pulse_polarization': 'horizontal', 'received_pulse_polarization': "
              "'vertical', 'onboard_range_compressed_flag': True, 'chirp_type_designator': "
              "'linear_fm_chirp', 'invalid_line_flag': True, "
              "'platform_position_parameters_update_flag': 'repeat', 'data': {'start': 544, "
              "'size': 4, 'stop': 548}}"),
 'signal:2:str': ('ok',
                  'str',
                  '"Container: \\n    record_start = 0\\n    preamble = Container: \\n        '
                  'record_sequence_number = 1\\n        first_record_subtype = 50\\n        '
                  'record_type = 10\\n        second_record_subtype = 18\\n        '
                  'third_record_subtype = 20\\n        record_length = 548\\n    '
                  'sar_image_data_line_number = 0\\n    sar_image_data_record_index = 0\\n    '
                  'actual_count_of_left_fill_pixels = 0\\n    actual_count_of_data_pixels = '
                  '0\\n    actual_count_of_right_fill_pixels = 0\\n    '
                  'sensor_parameters_update_flag = 0\\n    sensor_acquisition_date = 2019-02-01 '
                  '00:00:01.500000\\n    sar_channel_id = (enum) full_polarization 4\\n    '
                  'sar_channel_code = (enum) KU 4\\n    transmitted_pulse_polarization = (enum) '
                  'horizontal 0\\n    received_pulse_polarization = (enum) vertical 1\\n    prf = '
                  "(0, {'units': 'mHz'})\\n    scan_id = 0\\n    onboard_range_compressed_flag = "
                  'True\\n    chirp_type_designator = (enum) linear_fm_chirp 0\\n    chirp_length '
                  "= (0, {'units': 'ns'})\\n    chirp_constant_coefficient = (0, {'units': "
                  "'Hz'})\\n    chirp_linear_coefficient = (0, {'units': 'Hz/µs'})\\n    "
                  "chirp_quadratic_coefficient = (0, {'units': 'Hz/µs^2'})\\n    "
                  'sensor_acquisition_date_microseconds = 2019-02-01 00:00:00\\n    receiver_gain '
                  "= (0, {'units': 'dB'})\\n    invalid_line_flag = True\\n    "
                  'elevation_angle_at_nadir_of_antenna = Container: \\n        electronic = (0, '
                  "{'units': 'deg'})\\n        mechanic = (0, {'units': 'deg'})\\n    "
                  "antenna_squint_angle = Container: \\n        electronic = (0, {'units': "
                  "'deg'})\\n        mechanic = (0, {'units': 'deg'})\\n    "
                  "slant_range_to_first_data_sample = (0, {'units': 'm'})\\n    "
                  "data_record_window_position = (0, {'units': 'ns'})\\n    blanks1 = 0\\n    "
                  'platform_position_parameters_update_flag = (enum) repeat 0\\n    '
                  "platform_latitude = (0.0, {'units': 'deg'})\\n    platform_longitude = (0.0, "
                  "{'units': 'deg'})\\n    platform_altitude = (0, {'units': 'deg'})\\n    "
                  "platform_ground_speed = (0, {'units': 'cm/s'})\\n    platform_velocity = "
                  "Container: \\n        x = (0, {'units': 'cm/s'})\\n        y = (0, {'units': "
                  "'cm/s'})\\n        z = (0, {'units': 'cm/s'})\\n    platform_acceleration = "
                  "Container: \\n        x = (0, {'units': 'cm/s^2'})\\n        y = (0, {'units': "
                  "'cm/s^2'})\\n        z = (0, {'units': 'cm/s^2'})\\n    platform_track_angle = "
                  "(0.0, {'units': 'deg'})\\n    platform_true_track_angle = (0.0, {'units': "
                  "'deg'})\\n    platform_attitude = Container: \\n        pitch = (0.0, {'units': "
                  "'deg'})\\n        roll = (0.0, {'units': 'deg'})\\n        yaw = (0.0, "
                  "{'units': 'deg'})\\n    latitude_of_first_pixel = (0.0, {'units': 'deg'})\\n    "
                  "latitude_of_center_pixel = (0.0, {'units': 'deg'})\\n    latitude_of_last_pixel "
                  "= (0.0, {'units': 'deg'})\\n    longitude_of_first_pixel = (0.0, {'units': "
                  "'deg'})\\n    longitude_of_center_pixel = (0.0, {'units': 'deg'})\\n    "
                  "longitude_of_last_pixel = (0.0, {'units': 'deg'})\\n    burst_number = 0\\n    "
                  "line_number_in_this_burst = 0\\n    blanks2 = b'' (total 0)\\n    "
                  "alos2_frame_number = 0\\n    palsar_auxiliary_data = b'' (total 0)\\n    data = "
                  'Container: \\n        start = 544\\n        size = 4\\n        stop = 548"'),
 'signal:3': ('ok',
              'dict',
              "{'sar_channel_id': 3, 'sar_channel_code': 6, 'transmitted_pulse_polarization': 2, "
              "'received_pulse_polarization': 65535, 'onboard_range_compressed_flag': True, "
              "'chirp_type_designator': 9, 'invalid_line_flag': True, "
              "'platform_position_parameters_update_flag': 4294967295, 'data': {'start': 544, "
              "'size': 4, 'stop': 548}}"),
 'signal:3:str': ('ok',
                  'str',
                  '"Container: \\n    record_start = 0\\n    preamble = Container: \\n        '
                  'record_sequence_number = 1\\n        first_record_subtype = 50\\n        '
                  'record_type = 10\\n        second_record_subtype = 18\\n        '
                  'third_record_subtype = 20\\n        record_length = 548\\n    '
                  'sar_image_data_line_number = 0\\n    sar_image_data_record_index = 0\\n    '
                  'actual_count_of_left_fill_pixels = 0\\n    actual_count_of_data_pixels = '
                  '0\\n    actual_count_of_right_fill_pixels = 0\\n    '
                  'sensor_parameters_update_flag = 0\\n    sensor_acquisition_date = 2019-02-01 '
                  '00:00:01.500000\\n    sar_channel_id = (enum) (unknown) 3\\n    '
                  'sar_channel_code = (enum) (unknown) 6\\n    transmitted_pulse_polarization = '
                  '(enum) (unknown) 2\\n    received_pulse_polarization = (enum) (unknown) '
                  "65535\\n    prf = (0, {'units': 'mHz'})\\n    scan_id = 0\\n    "
                  'onboard_range_compressed_flag = True\\n    chirp_type_designator = (enum) '
                  "(unknown) 9\\n    chirp_length = (0, {'units': 'ns'})\\n    "
                  "chirp_constant_coefficient = (0, {'units': 'Hz'})\\n    "
                  "chirp_linear_coefficient = (0, {'units': 'Hz/µs'})\\n    "
                  "chirp_quadratic_coefficient = (0, {'units': 'Hz/µs^2'})\\n    "
                  'sensor_acquisition_date_microseconds = 2019-02-01 00:00:00\\n    receiver_gain '
                  "= (0, {'units': 'dB'})\\n    invalid_line_flag = True\\n    "
                  'elevation_angle_at_nadir_of_antenna = Container: \\n        electronic = (0, '
                  "{'units': 'deg'})\\n        mechanic = (0, {'units': 'deg'})\\n    "
                  "antenna_squint_angle = Container: \\n        electronic = (0, {'units': "
                  "'deg'})\\n        mechanic = (0, {'units': 'deg'})\\n    "
                  "slant_range_to_first_data_sample = (0, {'units': 'm'})\\n    "
                  "data_record_window_position = (0, {'units': 'ns'})\\n    blanks1 = 0\\n    "
                  'platform_position_parameters_update_flag = (enum) (unknown) 4294967295\\n    '
                  "platform_latitude = (0.0, {'units': 'deg'})\\n    platform_longitude = (0.0, "
                  "{'units': 'deg'})\\n    platform_altitude = (0, {'units': 'deg'})\\n    "
                  "platform_ground_speed = (0, {'units': 'cm/s'})\\n    platform_velocity = "
                  "Container: \\n        x = (0, {'units': 'cm/s'})\\n        y = (0, {'units': "
                  "'cm/s'})\\n        z = (0, {'units': 'cm/s'})\\n    platform_acceleration = "
                  "Container: \\n        x = (0, {'units': 'cm/s^2'})\\n        y = (0, {'units': "
                  "'cm/s^2'})\\n        z = (0, {'units': 'cm/s^2'})\\n    platform_track_angle = "
                  "(0.0, {'units': 'deg'})\\n    platform_true_track_angle = (0.0, {'units': "
                  "'deg'})\\n    platform_attitude = Container: \\n        pitch = (0.0, {'units': "
                  "'deg'})\\n        roll = (0.0, {'units': 'deg'})\\n        yaw = (0.0, "
                  "{'units': 'deg'})\\n    latitude_of_first_pixel = (0.0, {'units': 'deg'})\\n    "
                  "latitude_of_center_pixel = (0.0, {'units': 'deg'})\\n    latitude_of_last_pixel "
                  "= (0.0, {'units': 'deg'})\\n    longitude_of_first_pixel = (0.0, {'units': "
                  "'deg'})\\n    longitude_of_center_pixel = (0.0, {'units': 'deg'})\\n    "
                  "longitude_of_last_pixel = (0.0, {'units': 'deg'})\\n    burst_number = 0\\n    "
                  "line_number_in_this_burst = 0\\n    blanks2 = b'' (total 0)\\n    "
                  "alos2_frame_number = 0\\n    palsar_auxiliary_data = b'' (total 0)\\n    data = "
                  'Container: \\n        start = 544\\n        size = 4\\n        stop = 548"'),
 'processed:0': ('ok', 'dict', "{'data': {'start': 192, 'size': 4, 'stop': 196}}"),
 'processed:0:str': ('ok',
                     'str',
                     '"Container: \\n    record_start = 0\\n    preamble = Container: \\n        '
                     'record_sequence_number = 1\\n        first_record_subtype = 50\\n        '
                     'record_type = 11\\n        second_record_subtype = 18\\n        '
                     'third_record_subtype = 20\\n        record_length = 196\\n    '
                     'sar_image_data_line_number = 0\\n    sar_image_data_record_index = 0\\n    '
                     'actual_count_of_left_fill_pixels = 0\\n    actual_count_of_data_pixels = '
                     '0\\n    actual_count_of_right_fill_pixels = 0\\n    '
                     'sensor_parameters_update_flag = 0\\n    sensor_acquisition_date = 2019-02-01 '
                     '00:00:01.500000\\n    sar_channel_id = (enum) (unknown) 0\\n    '
                     'sar_channel_code = (enum) L 0\\n    transmitted_pulse_polarization = (enum) '
                     'horizontal 0\\n    received_pulse_polarization = (enum) horizontal 0\\n    '
                     "prf = (0, {'units': 'mHz'})\\n    scan_id = 0\\n    "
                     "slant_range_to_first_pixel = (0, {'units': 'm'})\\n    "
                     "slant_range_to_mid_pixel = (0, {'units': 'm'})\\n    "
                     "slant_range_to_last_pixel = (0, {'units': 'm'})\\n    "
                     "doppler_centroid_value_at_first_pixel = (0.0, {'units': 'Hz'})\\n    "
                     "doppler_centroid_value_at_mid_pixel = (0.0, {'units': 'Hz'})\\n    "
                     "doppler_centroid_value_at_last_pixel = (0.0, {'units': 'Hz'})\\n    "
                     "azimuth_fm_rate_of_first_pixel = (0, {'units': 'Hz/ms'})\\n    "
                     "azimuth_fm_rate_of_mid_pixel = (0, {'units': 'Hz/ms'})\\n    "
                     "azimuth_fm_rate_of_last_pixel = (0, {'units': 'Hz/ms'})\\n    "
                     "look_angle_of_nadir = (0.0, {'units': 'deg'})\\n    azimuth_squint_angle = "
                     "(0.0, {'units': 'deg'})\\n    blanks1 = b'' (total 0)\\n    "
                     'geographic_reference_parameter_update_flag = 0\\n    latitude_of_first_pixel '
                     "= (0.0, {'units': 'deg'})\\n    latitude_of_center_pixel = (0.0, {'units': "
                     "'deg'})\\n    latitude_of_last_pixel = (0.0, {'units': 'deg'})\\n    "
                     "longitude_of_first_pixel = (0.0, {'units': 'deg'})\\n    "
                     "longitude_of_center_pixel = (0.0, {'units': 'deg'})\\n    "
                     "longitude_of_last_pixel = (0.0, {'units': 'deg'})\\n    "
                     "northing_of_first_pixel = (0, {'units': 'm'})\\n    blanks2 = b'' (total "
                     "0)\\n    northing_of_last_pixel = (0, {'units': 'm'})\\n    "
                     "easting_of_first_pixel = (0, {'units': 'm'})\\n    blanks3 = b'' (total "
                     "0)\\n    easting_of_last_pixel = (0, {'units': 'm'})\\n    line_heading = "
                     "(0.0, {'units': 'deg'})\\n    blanks4 = b'' (total 0)\\n    data = "
                     'Container: \\n        start = 192\\n        size = 4\\n        stop = 196"'),
 'processed:1': ('ok',
                 'dict',
                 "{'sar_channel_id': 'single_polarization', 'sar_channel_code': 'KA', "
                 "'transmitted_pulse_polarization': 'vertical', 'received_pulse_polarization': "
                 "'horizontal', 'data': {'start': 192, 'size': 4, 'stop': 196}}"),
 'processed:1:str': ('ok',
                     'str',
                     '"Container: \\n    record_start = 0\\n    preamble = Container: \\n        '
                     'record_sequence_number = 1\\n        first_record_subtype = 50\\n        '
                     'record_type = 11\\n        second_record_subtype = 18\\n        '
                     'third_record_subtype = 20\\n        record_length = 196\\n    '
                     'sar_image_data_line_number = 16843009\\n    sar_image_data_record_index = '
                     '16843009\\n    actual_count_of_left_fill_pixels = 16843009\\n    '
                     'actual_count_of_data_pixels = 16843009\\n    '
                     'actual_count_of_right_fill_pixels = 16843009\\n    '
                     'sensor_parameters_update_flag = 16843009\\n    sensor_acquisition_date = '
                     '2019-02-01 00:00:01.500000\\n    sar_channel_id = (enum) single_polarization '
                     '1\\n    sar_channel_code = (enum) KA 5\\n    transmitted_pulse_polarization '
                     '= (enum) vertical 1\\n    received_pulse_polarization = (enum) horizontal '
                     "0\\n    prf = (16843009, {'units': 'mHz'})\\n    scan_id = 16843009\\n    "
                     "slant_range_to_first_pixel = (16843009, {'units': 'm'})\\n    "
                     "slant_range_to_mid_pixel = (16843009, {'units': 'm'})\\n    "
                     "slant_range_to_last_pixel = (16843009, {'units': 'm'})\\n    "
                     "doppler_centroid_value_at_first_pixel = (16843.009000000002, {'units': "
                     "'Hz'})\\n    doppler_centroid_value_at_mid_pixel = (16843.009000000002, "
                     "{'units': 'Hz'})\\n    doppler_centroid_value_at_last_pixel = "
                     "(16843.009000000002, {'units': 'Hz'})\\n    azimuth_fm_rate_of_first_pixel = "
                     "(16843009, {'units': 'Hz/ms'})\\n    azimuth_fm_rate_of_mid_pixel = "
                     "(16843009, {'units': 'Hz/ms'})\\n    azimuth_fm_rate_of_last_pixel = "
                     "(16843009, {'units': 'Hz/ms'})\\n    look_angle_of_nadir = (16.843009, "
                     "{'units': 'deg'})\\n    azimuth_squint_angle = (16.843009, {'units': "
                     "'deg'})\\n    blanks1 = "
                     "b'\\\\x01\\\\x01\\\\x01\\\\x01\\\\x01\\\\x01\\\\x01\\\\x01\\\\x01\\\\x01\\\\x01\\\\x01\\\\x01\\\\x01\\\\x01\\\\x01'... "
                     '(truncated, total 20)\\n    geographic_reference_parameter_update_flag = '
                     "16843009\\n    latitude_of_first_pixel = (16.843009, {'units': 'deg'})\\n    "
                     "latitude_of_center_pixel = (16.843009, {'units': 'deg'})\\n    "
                     "latitude_of_last_pixel = (16.843009, {'units': 'deg'})\\n    "
                     "longitude_of_first_pixel = (16.843009, {'units': 'deg'})\\n    "
                     "longitude_of_center_pixel = (16.843009, {'units': 'deg'})\\n    "
                     "longitude_of_last_pixel = (16.843009, {'units': 'deg'})\\n    "
                     "northing_of_first_pixel = (16843009, {'units': 'm'})\\n    blanks2 = "
                     "b'\\\\x01\\\\x01\\\\x01\\\\x01' (total 4)\\n    northing_of_last_pixel = "
                     "(16843009, {'units': 'm'})\\n    easting_of_first_pixel = (16843009, "
                     "{'units': 'm'})\\n    blanks3 = b'\\\\x01\\\\x01\\\\x01\\\\x01' (total "
                     "4)\\n    easting_of_last_pixel = (16843009, {'units': 'm'})\\n    "
                     "line_heading = (16.843009, {'units': 'deg'})\\n    blanks4 = "
                     "b'\\\\x01\\\\x01\\\\x01\\\\x01\\\\x01\\\\x01\\\\x01\\\\x01' (total 8)\\n    "
                     'data = Container: \\n        start = 192\\n        size = 4\\n        stop = '
                     '196"'),
 'processed:2': ('ok',
                 'dict',
                 "{'sar_channel_id': 'full_polarization', 'sar_channel_code': 'KU', "
                 "'transmitted_pulse_polarization': 'horizontal', 'received_pulse_polarization': "
                 "'vertical', 'data': {'start': 192, 'size': 4, 'stop': 196}}"),
 'processed:2:str': ('ok',
                     'str',
                     '"Container: \\n    record_start = 0\\n    preamble = Container: \\n        '
                     'record_sequence_number = 1\\n        first_record_subtype = 50\\n        '
                     'record_type = 11\\n        second_record_subtype = 18\\n        '
                     'third_record_subtype = 20\\n        record_length = 196\\n    '
                     'sar_image_data_line_number = 33686018\\n    sar_image_data_record_index = '
                     '33686018\\n    actual_count_of_left_fill_pixels = 33686018\\n    '
                     'actual_count_of_data_pixels = 33686018\\n    '
                     'actual_count_of_right_fill_pixels = 33686018\\n    '
                     'sensor_parameters_update_flag = 33686018\\n    sensor_acquisition_date = '
                     '2019-02-01 00:00:01.500000\\n    sar_channel_id = (enum) full_polarization '
                     '4\\n    sar_channel_code = (enum) KU 4\\n    transmitted_pulse_polarization '
                     '= (enum) horizontal 0\\n    received_pulse_polarization = (enum) vertical '
                     "1\\n    prf = (33686018, {'units': 'mHz'})\\n    scan_id = 33686018\\n    "
                     "slant_range_to_first_pixel = (33686018, {'units': 'm'})\\n    "
                     "slant_range_to_mid_pixel = (33686018, {'units': 'm'})\\n    "
                     "slant_range_to_last_pixel = (33686018, {'units': 'm'})\\n    "
                     "doppler_centroid_value_at_first_pixel = (33686.018000000004, {'units': "
                     "'Hz'})\\n    doppler_centroid_value_at_mid_pixel = (33686.018000000004, "
                     "{'units': 'Hz'})\\n    doppler_centroid_value_at_last_pixel = "
                     "(33686.018000000004, {'units': 'Hz'})\\n    azimuth_fm_rate_of_first_pixel = "
                     "(33686018, {'units': 'Hz/ms'})\\n    azimuth_fm_rate_of_mid_pixel = "
                     "(33686018, {'units': 'Hz/ms'})\\n    azimuth_fm_rate_of_last_pixel = "
                     "(33686018, {'units': 'Hz/ms'})\\n    look_angle_of_nadir = (33.686018, "
                     "{'units': 'deg'})\\n    azimuth_squint_angle = (33.686018, {'units': "
                     "'deg'})\\n    blanks1 = "
                     "b'\\\\x02\\\\x02\\\\x02\\\\x02\\\\x02\\\\x02\\\\x02\\\\x02\\\\x02\\\\x02\\\\x02\\\\x02\\\\x02\\\\x02\\\\x02\\\\x02'... "
                     '(truncated, total 20)\\n    geographic_reference_parameter_update_flag = '
                     "33686018\\n    latitude_of_first_pixel = (33.686018, {'units': 'deg'})\\n    "
                     "latitude_of_center_pixel = (33.686018, {'units': 'deg'})\\n    "
                     "latitude_of_last_pixel = (33.686018, {'units': 'deg'})\\n    "
                     "longitude_of_first_pixel = (33.686018, {'units': 'deg'})\\n    "
                     "longitude_of_center_pixel = (33.686018, {'units': 'deg'})\\n    "
                     "longitude_of_last_pixel = (33.686018, {'units': 'deg'})\\n    "
                     "northing_of_first_pixel = (33686018, {'units': 'm'})\\n    blanks2 = "
                     "b'\\\\x02\\\\x02\\\\x02\\\\x02' (total 4)\\n    northing_of_last_pixel = "
                     "(33686018, {'units': 'm'})\\n    easting_of_first_pixel = (33686018, "
                     "{'units': 'm'})\\n    blanks3 = b'\\\\x02\\\\x02\\\\x02\\\\x02' (total "
                     "4)\\n    easting_of_last_pixel = (33686018, {'units': 'm'})\\n    "
                     "line_heading = (33.686018, {'units': 'deg'})\\n    blanks4 = "
                     "b'\\\\x02\\\\x02\\\\x02\\\\x02\\\\x02\\\\x02\\\\x02\\\\x02' (total 8)\\n    "
                     'data = Container: \\n        start = 192\\n        size = 4\\n        stop = '
                     '196"'),
 'processed:3': ('ok',
                 'dict',
                 "{'sar_channel_id': 3, 'sar_channel_code': 6, 'transmitted_pulse_polarization': "
                 "2, 'received_pulse_polarization': 65535, 'data': {'start': 192, 'size': 4, "
                 "'stop': 196}}"),
 'processed:3:str': ('ok',
                     'str',
                     '"Container: \\n    record_start = 0\\n    preamble = Container: \\n        '
                     'record_sequence_number = 1\\n        first_record_subtype = 50\\n        '
                     'record_type = 11\\n        second_record_subtype = 18\\n        '
                     'third_record_subtype = 20\\n        record_length = 196\\n    '
                     'sar_image_data_line_number = 50529027\\n    sar_image_data_record_index = '
                     '50529027\\n    actual_count_of_left_fill_pixels = 50529027\\n    '
                     'actual_count_of_data_pixels = 50529027\\n    '
                     'actual_count_of_right_fill_pixels = 50529027\\n    '
                     'sensor_parameters_update_flag = 50529027\\n    sensor_acquisition_date = '
                     '2019-02-01 00:00:01.500000\\n    sar_channel_id = (enum) (unknown) 3\\n    '
                     'sar_channel_code = (enum) (unknown) 6\\n    transmitted_pulse_polarization = '
                     '(enum) (unknown) 2\\n    received_pulse_polarization = (enum) (unknown) '
                     "65535\\n    prf = (50529027, {'units': 'mHz'})\\n    scan_id = "
                     "50529027\\n    slant_range_to_first_pixel = (50529027, {'units': 'm'})\\n    "
                     "slant_range_to_mid_pixel = (50529027, {'units': 'm'})\\n    "
                     "slant_range_to_last_pixel = (50529027, {'units': 'm'})\\n    "
                     "doppler_centroid_value_at_first_pixel = (50529.027, {'units': 'Hz'})\\n    "
                     "doppler_centroid_value_at_mid_pixel = (50529.027, {'units': 'Hz'})\\n    "
                     "doppler_centroid_value_at_last_pixel = (50529.027, {'units': 'Hz'})\\n    "
                     "azimuth_fm_rate_of_first_pixel = (50529027, {'units': 'Hz/ms'})\\n    "
                     "azimuth_fm_rate_of_mid_pixel = (50529027, {'units': 'Hz/ms'})\\n    "
                     "azimuth_fm_rate_of_last_pixel = (50529027, {'units': 'Hz/ms'})\\n    "
                     "look_angle_of_nadir = (50.529027, {'units': 'deg'})\\n    "
                     "azimuth_squint_angle = (50.529027, {'units': 'deg'})\\n    blanks1 = "
                     "b'\\\\x03\\\\x03\\\\x03\\\\x03\\\\x03\\\\x03\\\\x03\\\\x03\\\\x03\\\\x03\\\\x03\\\\x03\\\\x03\\\\x03\\\\x03\\\\x03'... "
                     '(truncated, total 20)\\n    geographic_reference_parameter_update_flag = '
                     "50529027\\n    latitude_of_first_pixel = (50.529027, {'units': 'deg'})\\n    "
                     "latitude_of_center_pixel = (50.529027, {'units': 'deg'})\\n    "
                     "latitude_of_last_pixel = (50.529027, {'units': 'deg'})\\n    "
                     "longitude_of_first_pixel = (50.529027, {'units': 'deg'})\\n    "
                     "longitude_of_center_pixel = (50.529027, {'units': 'deg'})\\n    "
                     "longitude_of_last_pixel = (50.529027, {'units': 'deg'})\\n    "
                     "northing_of_first_pixel = (50529027, {'units': 'm'})\\n    blanks2 = "
                     "b'\\\\x03\\\\x03\\\\x03\\\\x03' (total 4)\\n    northing_of_last_pixel = "
                     "(50529027, {'units': 'm'})\\n    easting_of_first_pixel = (50529027, "
                     "{'units': 'm'})\\n    blanks3 = b'\\\\x03\\\\x03\\\\x03\\\\x03' (total "
                     "4)\\n    easting_of_last_pixel = (50529027, {'units': 'm'})\\n    "
                     "line_heading = (50.529027, {'units': 'deg'})\\n    blanks4 = "
                     "b'\\\\x03\\\\x03\\\\x03\\\\x03\\\\x03\\\\x03\\\\x03\\\\x03' (total 8)\\n    "
                     'data = Container: \\n        start = 192\\n        size = 4\\n        stop = '
                     '196"')}


def test_equivalence():
    actual = observe()
    assert list(actual) == list(EXPECTED)
    for key, value in actual.items():
        assert value == EXPECTED[key], key


if __name__ == "__main__":
    if "--record" in sys.argv:
        pprint.pprint(observe(), width=100, sort_dicts=False)
    else:
        test_equivalence()
        print(f"ok: {len(EXPECTED)} observations identical")
