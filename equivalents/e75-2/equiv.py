"""Equivalence checks for refactoring 2.

Touched: ceos_alos2/transformers.py (as_variable, as_group, new helper split_attrs)
and ceos_alos2/sar_leader/radiometric_data.py (transform_matrices).

Run as a script (`python equiv.py`) or through pytest.  `python equiv.py --record`
prints EXPECTED as computed by the code under test (the values in this file were
recorded from the unchanged code at HEAD).
"""
import collections
import sys

from ceos_alos2 import transformers
from ceos_alos2.hierarchy import Group, Variable
from ceos_alos2.sar_leader import io, radiometric_data

# ---- synthetic SAR leader builder (copied verbatim into each equiv.py that needs it) ----
import struct as _struct

from construct import Struct as _Struct


def _unwrap(con):
    while not isinstance(con, _Struct):
        con = con.subcon
    return con


def _locate(con, path):
    con = _unwrap(con)
    off = 0
    head, *rest = path
    for sc in con.subcons:
        if sc.name == head:
            if rest:
                inner, size = _locate(sc, rest)
                return off + inner, size
            return off, sc.sizeof()
        off += sc.sizeof()
    raise KeyError(head)


def _preamble(length, seq=1):
    return _struct.pack(">IBBBBI", seq, 18, 10, 18, 20, length)


def _fixed(con, fields, seq=1):
    size = con.sizeof()
    buf = bytearray(_preamble(size, seq) + b" " * (size - 12))
    for path, text in fields.items():
        off, width = _locate(con, path.split("/"))
        raw = text.encode("ascii")
        assert len(raw) <= width, (path, width)
        buf[off : off + width] = raw.ljust(width)
    return bytes(buf)


def build_leader(
    n_map=1,
    designator="UTM-PROJECTION",
    n_points=2,
    n_channels=2,
    date="2020 03 04",
    scene_center_time="20200102030405678900",
    attitude_values=True,
    seconds_of_day="3661.5",
):
    from ceos_alos2.sar_leader.dataset_summary import dataset_summary_record
    from ceos_alos2.sar_leader.facility_related_data import facility_related_data_5_record
    from ceos_alos2.sar_leader.file_descriptor import file_descriptor_record
    from ceos_alos2.sar_leader.map_projection import map_projection_record
    from ceos_alos2.sar_leader.platform_position import platform_position_record
    from ceos_alos2.sar_leader.radiometric_data import radiometric_data_record

    fd = _fixed(file_descriptor_record, {"map_projection/number_of_records": str(n_map)})
    ds = _fixed(
        dataset_summary_record,
        {
            "scene_center_time": scene_center_time,
            "line_spacing": "2.5",
            "sensor_platform_mission_identifier": "ALOS2",
            "base_band_conversion_flag": "YES",
            "range_compression_flag": "NO",
            "echo_tracker_status": "ON",
            "weighting_function_in_azimuth": "1",
            "weighting_function_in_range": "1",
            "clutter_lock_applied_flag": "OFF",
            "auto_focusing_applied_flag": "YES",
            "motion_compensation_indicator": "1",
        },
    )
    mp = b"".join(
        _fixed(
            map_projection_record,
            {
                "map_projection_designator": designator,
                "map_projection_general_information/number_of_lines": str(100 + i),
                "map_projection_general_information/number_of_pixels_per_line": "250",
                "utm_projection/zone_number": "31",
                "ups_projection/scale_factor": "0.994",
                "national_system_projection/projection_descriptor": "LCC",
                "corner_points/projected/top_left_corner/northing": "1.5",
                "corner_points/geographic/bottom_left_corner/longitude": "-3.25",
                "conversion_coefficients/map_projection_to_pixels/A11": "2.25",
                "conversion_coefficients/pixels_to_map_projection/B24": "-1e-3",
            },
        )
        for i in range(n_map)
    )
    pp = _fixed(
        platform_position_record,
        {
            "orbital_elements_designator": "1",
            "datetime_of_first_point/date": date,
            "datetime_of_first_point/day_of_year": "64",
            "datetime_of_first_point/seconds_of_day": seconds_of_day,
            "time_interval_between_data_points": "60.0",
            "occurrence_flag_of_a_leap_second": "0",
        },
    )
    points = b""
    for i in range(n_points):
        p = bytearray(b" " * 120)
        if attitude_values:
            p[0:4] = str(10 + i).rjust(4).encode()
            p[4:12] = str(1000 * (i + 1)).rjust(8).encode()
            p[12:16] = b"   1"
            p[16:20] = b"   0"
            p[24:38] = f"{0.5 * i:14.6f}".encode()
            p[66:70] = b"   0"
            p[78:92] = f"{-0.25 * i:14.6f}".encode()
        points += bytes(p)
    att_len = 12 + 4 + len(points) + 7
    att = _preamble(att_len) + str(n_points).rjust(4).encode() + points + b" " * 7
    rd = _fixed(
        radiometric_data_record, {"calibration_factor": "-83.0"}
    )
    dqs = bytearray(_preamble(1620) + b" " * (1620 - 12))
    dqs[26:30] = str(n_channels).rjust(4).encode()
    dqs[222 : 222 + 16] = b"1.25".ljust(16)
    facs = b""
    for i in range(4):
        length = 66 + 10 * (i + 1)
        body = bytearray(b" " * (length - 12))
        body[0:4] = str(i + 1).rjust(4).encode()
        body[54:] = (b"raw%d" % i).ljust(length - 66)
        facs += _preamble(length, seq=i + 1) + bytes(body)
    f5 = _fixed(
        facility_related_data_5_record,
        {"prf_switching_flag": "1", "calibration_mode_data_location_flag": "2", "record_sequence_number": "5"},
    )
    return fd + ds + mp + pp + att + rd + bytes(dqs) + facs + f5


def plain(obj):
    """canonical, comparable representation of Group / Variable / containers"""
    import numpy as np

    from ceos_alos2.hierarchy import Group, Variable

    if isinstance(obj, Group):
        return (
            "Group",
            obj.path,
            obj.url,
            [(k, plain(v)) for k, v in obj.data.items()],
            plain(obj.attrs),
        )
    if isinstance(obj, Variable):
        return ("Variable", plain(obj.dims), plain(obj.data), plain(obj.attrs))
    if isinstance(obj, np.ndarray):
        return ("ndarray", str(obj.dtype), obj.shape, repr(obj.tolist()))
    if isinstance(obj, dict):
        return ("dict", [(k, plain(v)) for k, v in obj.items()])
    if isinstance(obj, (list, tuple)):
        return (type(obj).__name__, [plain(v) for v in obj])
    return (type(obj).__name__, repr(obj))


def digest(obj):
    import hashlib

    return hashlib.sha256(repr(plain(obj)).encode()).hexdigest()
# ---- end of builder ----


EXPECTED = {'as_variable/scalar': ('returned', ('Variable', ('tuple', []), ('int', '1'), ('dict', []))),
 'as_variable/float-units': ('returned',
                             ('Variable',
                              ('tuple', []),
                              ('float', '1.5'),
                              ('dict', [('units', ('str', "'m'"))]))),
 'as_variable/string-data': ('returned',
                             ('Variable', ('tuple', []), ('str', "'abc'"), ('dict', []))),
 'as_variable/1d': ('returned',
                    ('Variable',
                     ('list', [('str', "'d'")]),
                     ('list', [('int', '1'), ('int', '2')]),
                     ('dict', []))),
 'as_variable/2d': ('returned',
                    ('Variable',
                     ('list', [('str', "'x'"), ('str', "'y'")]),
                     ('list',
                      [('list', [('int', '1'), ('int', '2')]),
                       ('list', [('int', '3'), ('int', '4')])]),
                     ('dict', [('a', ('int', '1'))]))),
 'as_variable/0d-explicit': ('returned', ('Variable', ('tuple', []), ('int', '1'), ('dict', []))),
 'as_variable/attrs-none': ('returned',
                            ('Variable', ('tuple', []), ('int', '1'), ('NoneType', 'None'))),
 'as_variable/str-len2': ('returned', ('Variable', ('tuple', []), ('str', "'a'"), ('str', "'b'"))),
 'as_variable/str-len3': ('returned',
                          ('Variable', ('list', [('str', "'a'")]), ('str', "'b'"), ('str', "'c'"))),
 'as_variable/list-len2': ('returned', ('Variable', ('tuple', []), ('int', '1'), ('dict', []))),
 'as_variable/list-len3': ('returned',
                           ('Variable',
                            ('list', [('str', "'x'")]),
                            ('list', [('int', '1')]),
                            ('dict', [('u', ('int', '1'))]))),
 'as_variable/dict-len2': ('returned', ('Variable', ('tuple', []), ('str', "'a'"), ('str', "'b'"))),
 'as_variable/dict-len3': ('returned',
                           ('Variable',
                            ('list', [('str', "'a'")]),
                            ('str', "'b'"),
                            ('str', "'c'"))),
 'as_variable/namedtuple-2': ('returned',
                              ('Variable',
                               ('tuple', []),
                               ('int', '3'),
                               ('dict', [('u', ('str', "'s'"))]))),
 'as_variable/namedtuple-3': ('returned',
                              ('Variable',
                               ('list', [('str', "'x'")]),
                               ('list', [('int', '1')]),
                               ('dict', []))),
 'as_variable/empty-tuple': ('raised',
                             'ValueError',
                             'not enough values to unpack (expected 3, got 0)'),
 'as_variable/len1': ('raised', 'ValueError', 'not enough values to unpack (expected 3, got 1)'),
 'as_variable/len4': ('raised', 'ValueError', 'too many values to unpack (expected 3)'),
 'as_variable/len5-list': ('raised', 'ValueError', 'too many values to unpack (expected 3)'),
 'as_variable/int': ('raised', 'TypeError', "object of type 'int' has no len()"),
 'as_variable/none': ('raised', 'TypeError', "object of type 'NoneType' has no len()"),
 'as_variable/generator': ('raised', 'TypeError', "object of type 'generator' has no len()"),
 'as_variable/len2-iter3': ('raised', 'ValueError', 'too many values to unpack (expected 2)'),
 'as_variable/len2-iter1': ('raised',
                            'ValueError',
                            'not enough values to unpack (expected 2, got 1)'),
 'as_variable/len3-iter2': ('raised',
                            'ValueError',
                            'not enough values to unpack (expected 3, got 2)'),
 'as_variable/len3-iter4': ('raised', 'ValueError', 'too many values to unpack (expected 3)'),
 'as_variable/len0-iter3': ('returned',
                            ('Variable',
                             ('list', [('str', "'d'")]),
                             ('list', [('int', '1')]),
                             ('dict', []))),
 'as_variable/len2-iter2': ('returned',
                            ('Variable',
                             ('tuple', []),
                             ('list', [('int', '1')]),
                             ('dict', [('a', ('int', '1'))]))),
 'as_group/empty': ('returned', ('Group', '/', None, [], ('dict', []))),
 'as_group/empty-with-attrs': ('returned',
                               ('Group', '/', None, [], ('dict', [('a', ('int', '1'))]))),
 'as_group/attrs-only': ('returned',
                         ('Group',
                          '/',
                          None,
                          [],
                          ('dict',
                           [('a', ('int', '1')),
                            ('b', ('str', "'x'")),
                            ('c', ('NoneType', 'None')),
                            ('d', ('float', '1.5'))]))),
 'as_group/variables': ('returned',
                        ('Group',
                         '/',
                         None,
                         [('a', ('Variable', ('tuple', []), ('int', '1'), ('dict', [])))],
                         ('dict', []))),
 'as_group/subgroups': ('returned',
                        ('Group',
                         '/',
                         None,
                         [('a', ('Group', '/a', None, [], ('dict', [('b', ('int', '2'))])))],
                         ('dict', []))),
 'as_group/nested': ('returned',
                     ('Group',
                      '/',
                      None,
                      [('a',
                        ('Group',
                         '/a',
                         None,
                         [('c',
                           ('Variable',
                            ('list', [('str', "'d'")]),
                            ('list', [('int', '1'), ('int', '2')]),
                            ('dict', [])))],
                         ('dict', [('b', ('int', '2'))])))],
                      ('dict', []))),
 'as_group/list-len2': ('returned',
                        ('Group',
                         '/',
                         None,
                         [('a', ('Variable', ('tuple', []), ('int', '1'), ('int', '2')))],
                         ('dict', []))),
 'as_group/list-len3': ('returned',
                        ('Group',
                         '/',
                         None,
                         [('a',
                           ('Variable',
                            ('list', [('str', "'x'")]),
                            ('list', [('int', '1')]),
                            ('dict', [])))],
                         ('dict', []))),
 'as_group/list-len1': ('raised', 'ValueError', 'not enough values to unpack (expected 3, got 1)'),
 'as_group/empty-list': ('raised', 'ValueError', 'not enough values to unpack (expected 3, got 0)'),
 'as_group/empty-tuple-value': ('raised', 'IndexError', 'tuple index out of range'),
 'as_group/pair-len1': ('raised', 'ValueError', 'not enough values to unpack (expected 2, got 1)'),
 'as_group/pair-len3': ('raised', 'ValueError', 'too many values to unpack (expected 2)'),
 'as_group/pair-len0': ('raised', 'ValueError', 'not enough values to unpack (expected 2, got 0)'),
 'as_group/attrs-conflict': ('returned',
                             ('Group',
                              '/',
                              None,
                              [],
                              ('dict',
                               [('a', ('int', '2')), ('b', ('int', '2')), ('c', ('int', '3'))]))),
 'as_group/additional-none': ('raised',
                              'TypeError',
                              "unsupported operand type(s) for |: 'dict' and 'NoneType'"),
 'as_group/additional-none-empty': ('raised',
                                    'TypeError',
                                    "unsupported operand type(s) for |: 'dict' and 'NoneType'"),
 'as_group/additional-list': ('raised',
                              'TypeError',
                              "unsupported operand type(s) for |: 'dict' and 'list'"),
 'as_group/none': ('raised', 'AttributeError', "'NoneType' object has no attribute 'items'"),
 'as_group/list': ('raised', 'AttributeError', "'list' object has no attribute 'items'"),
 'as_group/int': ('raised', 'AttributeError', "'int' object has no attribute 'items'"),
 'as_group/mixed-order': ('returned',
                          ('Group',
                           '/',
                           None,
                           [('v', ('Variable', ('tuple', []), ('int', '1'), ('dict', []))),
                            ('v2',
                             ('Variable',
                              ('list', [('str', "'d'")]),
                              ('list', [('int', '1')]),
                              ('dict', []))),
                            ('g', ('Group', '/g', None, [], ('dict', [('x', ('int', '1'))]))),
                            ('g2', ('Group', '/g2', None, [], ('dict', [])))],
                           ('dict', [('a', ('int', '3')), ('b', ('str', "'z'"))]))),
 'as_group/errors-variable-first': ('raised',
                                    'ValueError',
                                    'not enough values to unpack (expected 3, got 1)'),
 'as_group/errors-variable-first-reversed': ('raised',
                                             'ValueError',
                                             'not enough values to unpack (expected 3, got 1)'),
 'as_group/errors-group-only': ('raised',
                                'ValueError',
                                'not enough values to unpack (expected 2, got 1)'),
 'as_group/errors-nested-group': ('raised', 'ValueError', 'too many values to unpack (expected 2)'),
 'as_group/deep': ('returned',
                   ('Group',
                    '/',
                    None,
                    [('a',
                      ('Group',
                       '/a',
                       None,
                       [('b',
                         ('Group',
                          '/a/b',
                          None,
                          [('f',
                            ('Variable',
                             ('list', [('str', "'x'")]),
                             ('list', [('int', '1')]),
                             ('dict', []))),
                           ('c',
                            ('Group',
                             '/a/b/c',
                             None,
                             [('d',
                               ('Variable',
                                ('tuple', []),
                                ('int', '1'),
                                ('dict', [('u', ('str', "'m'"))])))],
                             ('dict', [('e', ('int', '2'))])))],
                          ('dict', [])))],
                       ('dict', [])))],
                    ('dict', []))),
 'as_group/namedtuple': ('returned',
                         ('Group',
                          '/',
                          None,
                          [('v', ('Variable', ('tuple', []), ('int', '1'), ('dict', [])))],
                          ('dict', [('a', ('int', '1')), ('b', ('int', '2'))]))),
 'as_group/ordered': ('returned',
                      ('Group',
                       '/',
                       None,
                       [('z', ('Variable', ('tuple', []), ('int', '1'), ('dict', []))),
                        ('g', ('Group', '/g', None, [], ('dict', [])))],
                       ('dict', [('a', ('int', '1'))]))),
 'as_group/tuple-keys': ('returned',
                         ('Group',
                          '/',
                          None,
                          [(2, ('Variable', ('tuple', []), ('int', '1'), ('dict', [])))],
                          ('dict', [(('a', 1), ('int', '1'))]))),
 'as_group/group-in-tuple-with-group': ('returned',
                                        ('Group',
                                         '/',
                                         None,
                                         [('a',
                                           ('Group',
                                            '/a',
                                            None,
                                            [('b',
                                              ('Group',
                                               '/a/b',
                                               None,
                                               [],
                                               ('dict',
                                                [('c', ('int', '1')), ('d', ('int', '2'))])))],
                                            ('dict', [('e', ('int', '3'))])))],
                                         ('dict', []))),
 'as_group/variable-with-dict-data': ('returned',
                                      ('Group',
                                       '/',
                                       None,
                                       [('a',
                                         ('Variable',
                                          ('tuple', []),
                                          ('list', [('int', '1')]),
                                          ('dict', [('u', ('int', '1'))]))),
                                        ('b',
                                         ('Variable',
                                          ('list', [('str', "'x'")]),
                                          ('dict', [('k', ('int', '1'))]),
                                          ('dict', [])))],
                                       ('dict', []))),
 'as_group/only-items': ('returned',
                         ('Group',
                          '/',
                          None,
                          [('v',
                            ('Variable',
                             ('list', [('str', "'d'")]),
                             ('list', [('int', '1')]),
                             ('dict', [])))],
                          ('dict', [('a', ('int', '1'))]))),
 'matrices/single': ('returned',
                     ('tuple',
                      [('dict',
                        [('a',
                          ('tuple',
                           [('list', [('str', "'i'"), ('str', "'j'")]),
                            ('list',
                             [('list', [('int', '0'), ('int', '1')]),
                              ('list', [('int', '2'), ('int', '3')])]),
                            ('dict', [])])),
                         ('i',
                          ('tuple',
                           [('str', "'i'"),
                            ('list', [('str', "'horizontal'"), ('str', "'vertical'")]),
                            ('dict', [('long_name', ('str', "'reception polarization'"))])])),
                         ('j',
                          ('tuple',
                           [('str', "'j'"),
                            ('list', [('str', "'horizontal'"), ('str', "'vertical'")]),
                            ('dict', [('long_name', ('str', "'transmission polarization'"))])]))]),
                       ('dict', [])])),
 'matrices/with-attrs': ('returned',
                         ('tuple',
                          [('dict',
                            [('a',
                              ('tuple',
                               [('list', [('str', "'i'"), ('str', "'j'")]),
                                ('list',
                                 [('list', [('int', '0'), ('int', '1')]),
                                  ('list', [('int', '2'), ('int', '3')])]),
                                ('dict', [])])),
                             ('i',
                              ('tuple',
                               [('str', "'i'"),
                                ('list', [('str', "'horizontal'"), ('str', "'vertical'")]),
                                ('dict', [('long_name', ('str', "'reception polarization'"))])])),
                             ('j',
                              ('tuple',
                               [('str', "'j'"),
                                ('list', [('str', "'horizontal'"), ('str', "'vertical'")]),
                                ('dict',
                                 [('long_name', ('str', "'transmission polarization'"))])]))]),
                           ('dict', [('a', ('str', "'def'"))])])),
 'matrices/complex': ('returned',
                      ('tuple',
                       [('dict',
                         [('a',
                           ('tuple',
                            [('list', [('str', "'i'"), ('str', "'j'")]),
                             ('list',
                              [('list', [('complex', '1j'), ('complex', '2j')]),
                               ('list', [('complex', '3j'), ('complex', '4j')])]),
                             ('dict', [])])),
                          ('b',
                           ('tuple',
                            [('list', [('str', "'i'"), ('str', "'j'")]),
                             ('list',
                              [('list', [('complex', '0j'), ('complex', '1j')]),
                               ('list', [('complex', '2j'), ('complex', '3j')])]),
                             ('dict', [])])),
                          ('i',
                           ('tuple',
                            [('str', "'i'"),
                             ('list', [('str', "'horizontal'"), ('str', "'vertical'")]),
                             ('dict', [('long_name', ('str', "'reception polarization'"))])])),
                          ('j',
                           ('tuple',
                            [('str', "'j'"),
                             ('list', [('str', "'horizontal'"), ('str', "'vertical'")]),
                             ('dict', [('long_name', ('str', "'transmission polarization'"))])]))]),
                        ('dict', [])])),
 'matrices/empty': ('returned',
                    ('tuple',
                     [('dict',
                       [('i',
                         ('tuple',
                          [('str', "'i'"),
                           ('list', [('str', "'horizontal'"), ('str', "'vertical'")]),
                           ('dict', [('long_name', ('str', "'reception polarization'"))])])),
                        ('j',
                         ('tuple',
                          [('str', "'j'"),
                           ('list', [('str', "'horizontal'"), ('str', "'vertical'")]),
                           ('dict', [('long_name', ('str', "'transmission polarization'"))])]))]),
                      ('dict', [])])),
 'matrices/empty-with-attrs': ('returned',
                               ('tuple',
                                [('dict',
                                  [('i',
                                    ('tuple',
                                     [('str', "'i'"),
                                      ('list', [('str', "'horizontal'"), ('str', "'vertical'")]),
                                      ('dict',
                                       [('long_name', ('str', "'reception polarization'"))])])),
                                   ('j',
                                    ('tuple',
                                     [('str', "'j'"),
                                      ('list', [('str', "'horizontal'"), ('str', "'vertical'")]),
                                      ('dict',
                                       [('long_name',
                                         ('str', "'transmission polarization'"))])]))]),
                                 ('dict', [('f', ('int', '1'))])])),
 'matrices/three-values': ('returned',
                           ('tuple',
                            [('dict',
                              [('a',
                                ('tuple',
                                 [('list', [('str', "'i'"), ('str', "'j'")]),
                                  ('list', [('list', [('int', '1'), ('int', '2')])]),
                                  ('dict', [])])),
                               ('i',
                                ('tuple',
                                 [('str', "'i'"),
                                  ('list', [('str', "'horizontal'"), ('str', "'vertical'")]),
                                  ('dict', [('long_name', ('str', "'reception polarization'"))])])),
                               ('j',
                                ('tuple',
                                 [('str', "'j'"),
                                  ('list', [('str', "'horizontal'"), ('str', "'vertical'")]),
                                  ('dict',
                                   [('long_name', ('str', "'transmission polarization'"))])]))]),
                             ('dict', [])])),
 'matrices/five-values': ('returned',
                          ('tuple',
                           [('dict',
                             [('a',
                               ('tuple',
                                [('list', [('str', "'i'"), ('str', "'j'")]),
                                 ('list',
                                  [('list', [('int', '1'), ('int', '2')]),
                                   ('list', [('int', '3'), ('int', '4')])]),
                                 ('dict', [])])),
                              ('i',
                               ('tuple',
                                [('str', "'i'"),
                                 ('list', [('str', "'horizontal'"), ('str', "'vertical'")]),
                                 ('dict', [('long_name', ('str', "'reception polarization'"))])])),
                              ('j',
                               ('tuple',
                                [('str', "'j'"),
                                 ('list', [('str', "'horizontal'"), ('str', "'vertical'")]),
                                 ('dict',
                                  [('long_name', ('str', "'transmission polarization'"))])]))]),
                            ('dict', [])])),
 'matrices/no-values': ('returned',
                        ('tuple',
                         [('dict',
                           [('a',
                             ('tuple',
                              [('list', [('str', "'i'"), ('str', "'j'")]),
                               ('list', []),
                               ('dict', [])])),
                            ('i',
                             ('tuple',
                              [('str', "'i'"),
                               ('list', [('str', "'horizontal'"), ('str', "'vertical'")]),
                               ('dict', [('long_name', ('str', "'reception polarization'"))])])),
                            ('j',
                             ('tuple',
                              [('str', "'j'"),
                               ('list', [('str', "'horizontal'"), ('str', "'vertical'")]),
                               ('dict',
                                [('long_name', ('str', "'transmission polarization'"))])]))]),
                          ('dict', [])])),
 'matrices/has-i': ('returned',
                    ('tuple',
                     [('dict',
                       [('i',
                         ('tuple',
                          [('str', "'i'"),
                           ('list', [('str', "'horizontal'"), ('str', "'vertical'")]),
                           ('dict', [('long_name', ('str', "'reception polarization'"))])])),
                        ('z',
                         ('tuple',
                          [('list', [('str', "'i'"), ('str', "'j'")]),
                           ('list', [('list', [('int', '3'), ('int', '4')])]),
                           ('dict', [])])),
                        ('j',
                         ('tuple',
                          [('str', "'j'"),
                           ('list', [('str', "'horizontal'"), ('str', "'vertical'")]),
                           ('dict', [('long_name', ('str', "'transmission polarization'"))])]))]),
                      ('dict', [])])),
 'matrices/has-j-first': ('returned',
                          ('tuple',
                           [('dict',
                             [('j',
                               ('tuple',
                                [('str', "'j'"),
                                 ('list', [('str', "'horizontal'"), ('str', "'vertical'")]),
                                 ('dict',
                                  [('long_name', ('str', "'transmission polarization'"))])])),
                              ('i',
                               ('tuple',
                                [('str', "'i'"),
                                 ('list', [('str', "'horizontal'"), ('str', "'vertical'")]),
                                 ('dict', [('long_name', ('str', "'reception polarization'"))])])),
                              ('z',
                               ('tuple',
                                [('list', [('str', "'i'"), ('str', "'j'")]),
                                 ('list', []),
                                 ('dict', [])]))]),
                            ('dict', [])])),
 'matrices/pair-len1': ('raised', 'ValueError', 'not enough values to unpack (expected 2, got 1)'),
 'matrices/pair-len3': ('raised', 'ValueError', 'too many values to unpack (expected 2)'),
 'matrices/pair-len0': ('raised', 'ValueError', 'not enough values to unpack (expected 2, got 0)'),
 'matrices/none': ('raised', 'AttributeError', "'NoneType' object has no attribute 'keys'"),
 'matrices/attrs-none': ('returned',
                         ('tuple',
                          [('dict',
                            [('a',
                              ('tuple',
                               [('list', [('str', "'i'"), ('str', "'j'")]),
                                ('list', [('list', [('int', '1'), ('int', '2')])]),
                                ('dict', [])])),
                             ('i',
                              ('tuple',
                               [('str', "'i'"),
                                ('list', [('str', "'horizontal'"), ('str', "'vertical'")]),
                                ('dict', [('long_name', ('str', "'reception polarization'"))])])),
                             ('j',
                              ('tuple',
                               [('str', "'j'"),
                                ('list', [('str', "'horizontal'"), ('str', "'vertical'")]),
                                ('dict',
                                 [('long_name', ('str', "'transmission polarization'"))])]))]),
                           ('NoneType', 'None')])),
 'matrices/list-values': ('raised', 'AttributeError', "'list' object has no attribute 'values'"),
 'matrices/int-values': ('raised', 'AttributeError', "'int' object has no attribute 'values'"),
 'matrices/list': ('raised', 'AttributeError', "'list' object has no attribute 'keys'"),
 'matrices/namedtuple': ('returned',
                         ('tuple',
                          [('dict',
                            [('m',
                              ('tuple',
                               [('list', [('str', "'i'"), ('str', "'j'")]),
                                ('list',
                                 [('list', [('int', '1'), ('int', '2')]),
                                  ('list', [('int', '3'), ('int', '4')])]),
                                ('dict', [])])),
                             ('i',
                              ('tuple',
                               [('str', "'i'"),
                                ('list', [('str', "'horizontal'"), ('str', "'vertical'")]),
                                ('dict', [('long_name', ('str', "'reception polarization'"))])])),
                             ('j',
                              ('tuple',
                               [('str', "'j'"),
                                ('list', [('str', "'horizontal'"), ('str', "'vertical'")]),
                                ('dict',
                                 [('long_name', ('str', "'transmission polarization'"))])]))]),
                           ('dict', [('formula', ('str', "'x'"))])])),
 'matrices/ordered-values': ('returned',
                             ('tuple',
                              [('dict',
                                [('a',
                                  ('tuple',
                                   [('list', [('str', "'i'"), ('str', "'j'")]),
                                    ('list',
                                     [('list', [('int', '1'), ('int', '2')]),
                                      ('list', [('int', '3'), ('int', '4')])]),
                                    ('dict', [])])),
                                 ('i',
                                  ('tuple',
                                   [('str', "'i'"),
                                    ('list', [('str', "'horizontal'"), ('str', "'vertical'")]),
                                    ('dict',
                                     [('long_name', ('str', "'reception polarization'"))])])),
                                 ('j',
                                  ('tuple',
                                   [('str', "'j'"),
                                    ('list', [('str', "'horizontal'"), ('str', "'vertical'")]),
                                    ('dict',
                                     [('long_name', ('str', "'transmission polarization'"))])]))]),
                               ('dict', [])])),
 'radiometric_data/ignored': ('returned', ('Group', '/', None, [], ('dict', []))),
 'radiometric_data/calibration_factor': ('returned',
                                         ('Group',
                                          '/',
                                          None,
                                          [('calibration_factor',
                                            ('Variable',
                                             ('tuple', []),
                                             ('float', '-10.0'),
                                             ('dict', [('formula', ('str', "'abc'"))])))],
                                          ('dict', []))),
 'radiometric_data/distortion_matrix': ('returned',
                                        ('Group',
                                         '/',
                                         None,
                                         [('distortion_matrix',
                                           ('Group',
                                            '/distortion_matrix',
                                            None,
                                            [('a',
                                              ('Variable',
                                               ('list', [('str', "'i'"), ('str', "'j'")]),
                                               ('list',
                                                [('list', [('int', '1'), ('int', '2')]),
                                                 ('list', [('int', '3'), ('int', '4')])]),
                                               ('dict', []))),
                                             ('b',
                                              ('Variable',
                                               ('list', [('str', "'i'"), ('str', "'j'")]),
                                               ('list',
                                                [('list', [('int', '0'), ('int', '1')]),
                                                 ('list', [('int', '2'), ('int', '3')])]),
                                               ('dict', []))),
                                             ('i',
                                              ('Variable',
                                               ('list', [('str', "'i'")]),
                                               ('list',
                                                [('str', "'horizontal'"), ('str', "'vertical'")]),
                                               ('dict',
                                                [('long_name',
                                                  ('str', "'reception polarization'"))]))),
                                             ('j',
                                              ('Variable',
                                               ('list', [('str', "'j'")]),
                                               ('list',
                                                [('str', "'horizontal'"), ('str', "'vertical'")]),
                                               ('dict',
                                                [('long_name',
                                                  ('str', "'transmission polarization'"))])))],
                                            ('dict', [('formula', ('str', "'def'"))])))],
                                         ('dict', []))),
 'radiometric_data/distortion_matrix-no-attrs': ('returned',
                                                 ('Group',
                                                  '/',
                                                  None,
                                                  [('distortion_matrix',
                                                    ('Group',
                                                     '/distortion_matrix',
                                                     None,
                                                     [('a',
                                                       ('Variable',
                                                        ('list', [('str', "'i'"), ('str', "'j'")]),
                                                        ('list',
                                                         [('list', [('int', '1'), ('int', '2')]),
                                                          ('list', [('int', '3'), ('int', '4')])]),
                                                        ('dict', []))),
                                                      ('i',
                                                       ('Variable',
                                                        ('list', [('str', "'i'")]),
                                                        ('list',
                                                         [('str', "'horizontal'"),
                                                          ('str', "'vertical'")]),
                                                        ('dict',
                                                         [('long_name',
                                                           ('str', "'reception polarization'"))]))),
                                                      ('j',
                                                       ('Variable',
                                                        ('list', [('str', "'j'")]),
                                                        ('list',
                                                         [('str', "'horizontal'"),
                                                          ('str', "'vertical'")]),
                                                        ('dict',
                                                         [('long_name',
                                                           ('str',
                                                            "'transmission polarization'"))])))],
                                                     ('dict', [])))],
                                                  ('dict', []))),
 'radiometric_data/distortion_matrix-bad': ('raised',
                                            'ValueError',
                                            'not enough values to unpack (expected 2, got 1)'),
 'leader/default': 'aad2ccadb302e342ae7ddc59aa0aa45b638153ee64032bcecf4f2214a9f4f5a2',
 'leader-radiometric/default': ('Group',
                                '/radiometric_data',
                                None,
                                [('calibration_factor',
                                  ('Variable',
                                   ('tuple', []),
                                   ('float', '-83.0'),
                                   ('dict',
                                    [('formula',
                                      ('str',
                                       "'σ⁰=10*log_10<I^2 + Q^2> + CF - 32.0; "
                                       "σ⁰(level1.5/level3.1)=10*log_10<DN^2> + CF'")),
                                     ('I', ('str', "'level 1.1 real pixel value'")),
                                     ('Q', ('str', "'level 1.1 imaginary pixel value'")),
                                     ('DN', ('str', "'level 1.5/3.1 pixel value'"))]))),
                                 ('distortion_matrix',
                                  ('Group',
                                   '/radiometric_data/distortion_matrix',
                                   None,
                                   [('transmission',
                                     ('Variable',
                                      ('list', [('str', "'i'"), ('str', "'j'")]),
                                      ('list',
                                       [('list',
                                         [('complex', '(nan+nanj)'), ('complex', '(nan+nanj)')]),
                                        ('list',
                                         [('complex', '(nan+nanj)'), ('complex', '(nan+nanj)')])]),
                                      ('dict', []))),
                                    ('reception',
                                     ('Variable',
                                      ('list', [('str', "'i'"), ('str', "'j'")]),
                                      ('list',
                                       [('list',
                                         [('complex', '(nan+nanj)'), ('complex', '(nan+nanj)')]),
                                        ('list',
                                         [('complex', '(nan+nanj)'), ('complex', '(nan+nanj)')])]),
                                      ('dict', []))),
                                    ('i',
                                     ('Variable',
                                      ('list', [('str', "'i'")]),
                                      ('list', [('str', "'horizontal'"), ('str', "'vertical'")]),
                                      ('dict',
                                       [('long_name', ('str', "'reception polarization'"))]))),
                                    ('j',
                                     ('Variable',
                                      ('list', [('str', "'j'")]),
                                      ('list', [('str', "'horizontal'"), ('str', "'vertical'")]),
                                      ('dict',
                                       [('long_name', ('str', "'transmission polarization'"))])))],
                                   ('dict',
                                    [('formula', ('str', "'Z = A*1/r*exp(-4πr/λ) * RST + N'")),
                                     ('Z', ('str', "'measurement matrix'")),
                                     ('A', ('str', "'amplitude'")),
                                     ('r', ('str', "'slant range'")),
                                     ('S', ('str', "'true scattering matrix'")),
                                     ('N', ('str', "'noise component'")),
                                     ('R', ('str', "'reception distortion matrix'")),
                                     ('T', ('str', "'transmission distortion matrix'"))])))],
                                ('dict', [])),
 'leader/n_map=0': 'e650abc55251cb8de9ee5073890be033ffafe7c9baaffca50ff010c09bbf390c',
 'leader/lcc2': 'e4818c2d0af1a14065e36fbe0b2495f90aef495242f72c1f4bce92909bf85378',
 'leader/blank-attitude': 'df929657643b771604f1b084e823ad992b6e680765da21f668aa57950c9f5d98'}
OBSERVED = {}


def outcome(func, *args):
    try:
        result = func(*args)
    except Exception as e:
        return ("raised", type(e).__name__, str(e))
    return ("returned", plain(result))


def check(key, value):
    assert key not in OBSERVED, key
    OBSERVED[key] = value
    if "--record" in sys.argv:
        return
    assert EXPECTED[key] == value, (key, EXPECTED[key], value)


class Sized:
    """len() and iteration disagree"""

    def __init__(self, length, items):
        self.length = length
        self.items = items

    def __len__(self):
        return self.length

    def __iter__(self):
        return iter(self.items)


Pair = collections.namedtuple("Pair", ["value", "attrs"])
Triple = collections.namedtuple("Triple", ["a", "b", "c"])


def variable_cases():
    return {
        "scalar": (1, {}),
        "float-units": (1.5, {"units": "m"}),
        "string-data": ("abc", {}),
        "1d": ("d", [1, 2], {}),
        "2d": (["x", "y"], [[1, 2], [3, 4]], {"a": 1}),
        "0d-explicit": ((), 1, {}),
        "attrs-none": (1, None),
        "str-len2": "ab",
        "str-len3": "abc",
        "list-len2": [1, {}],
        "list-len3": ["x", [1], {"u": 1}],
        "dict-len2": {"a": 1, "b": 2},
        "dict-len3": {"a": 1, "b": 2, "c": 3},
        "namedtuple-2": Pair(3, {"u": "s"}),
        "namedtuple-3": Triple("x", [1], {}),
        "empty-tuple": (),
        "len1": (1,),
        "len4": (1, 2, 3, 4),
        "len5-list": [1, 2, 3, 4, 5],
        "int": 5,
        "none": None,
        "generator": (i for i in range(2)),
        "len2-iter3": Sized(2, [1, 2, 3]),
        "len2-iter1": Sized(2, [1]),
        "len3-iter2": Sized(3, [1, 2]),
        "len3-iter4": Sized(3, [1, 2, 3, 4]),
        "len0-iter3": Sized(0, ["d", [1], {}]),
        "len2-iter2": Sized(2, [[1], {"a": 1}]),
    }


def test_as_variable():
    for name, value in variable_cases().items():
        check("as_variable/" + name, outcome(transformers.as_variable, value))

    data = [1, 2, 3]
    attrs = {"a": 1}
    dims = ["x"]
    var = transformers.as_variable((dims, data, attrs))
    assert type(var) is Variable
    assert var.dims is dims and var.data is data and var.attrs is attrs
    var = transformers.as_variable((data, attrs))
    assert var.dims == () and type(var.dims) is tuple
    assert var.data is data and var.attrs is attrs


def group_cases():
    return {
        "empty": {},
        "empty-with-attrs": ({}, {"a": 1}),
        "attrs-only": {"a": 1, "b": "x", "c": None, "d": 1.5},
        "variables": {"a": (1, {})},
        "subgroups": {"a": ({}, {"b": 2})},
        "nested": {"a": ({"c": ("d", [1, 2], {})}, {"b": 2})},
        "list-len2": {"a": [1, 2]},
        "list-len3": {"a": ["x", [1], {}]},
        "list-len1": {"a": [1]},
        "empty-list": {"a": []},
        "empty-tuple-value": {"a": ()},
        "pair-len1": ({},),
        "pair-len3": ({}, {}, {}),
        "pair-len0": (),
        "attrs-conflict": ({"a": 1, "b": 2}, {"a": 2, "c": 3}),
        "additional-none": ({"a": 1}, None),
        "additional-none-empty": ({}, None),
        "additional-list": ({}, [("a", 1)]),
        "none": None,
        "list": [("a", 1)],
        "int": 3,
        "mixed-order": {
            "g": {"x": 1},
            "v": (1, {}),
            "a": 3,
            "v2": ("d", [1], {}),
            "g2": ({}, {}),
            "b": "z",
        },
        "errors-variable-first": {"g": ({},), "v": (1,)},
        "errors-variable-first-reversed": {"v": (1,), "g": ({},)},
        "errors-group-only": {"g": ({},), "v": (1, {})},
        "errors-nested-group": {"g": {"h": ({}, {}, {})}, "a": 1},
        "deep": {"a": {"b": {"c": {"d": (1, {"u": "m"}), "e": 2}, "f": ("x", [1], {})}}},
        "namedtuple": Pair({"a": 1, "v": (1, {})}, {"b": 2}),
        "ordered": collections.OrderedDict([("z", (1, {})), ("a", 1), ("g", {})]),
        "tuple-keys": {("a", 1): 1, 2: (1, {})},
        "group-in-tuple-with-group": {"a": ({"b": ({"c": 1}, {"d": 2})}, {"e": 3})},
        "variable-with-dict-data": {"a": ([1], {"u": 1}), "b": ("x", {"k": 1}, {})},
    }


def test_as_group():
    for name, value in group_cases().items():
        check("as_group/" + name, outcome(transformers.as_group, value))

    # a fresh attrs dict for every call
    first = transformers.as_group({})
    first.attrs["leak"] = 1
    second = transformers.as_group({})
    assert second.attrs == {}
    assert type(first) is Group

    # the inputs are left alone
    attrs = {"b": 2}
    mapping = {"a": 1, "v": (1, {}), "g": {}}
    result = transformers.as_group((mapping, attrs))
    assert attrs == {"b": 2} and mapping == {"a": 1, "v": (1, {}), "g": {}}
    assert result.attrs == {"a": 1, "b": 2} and list(result.attrs) == ["a", "b"]
    assert result.attrs is not attrs
    assert result.path == "/" and result["g"].path == "/g"

    # custom mapping: only `.items()` is needed
    class OnlyItems:
        def items(self):
            return iter([("a", 1), ("v", ("d", [1], {}))])

    check("as_group/only-items", outcome(transformers.as_group, OnlyItems()))


def matrices_cases():
    return {
        "single": {"a": {"a": 0, "b": 1, "c": 2, "d": 3}},
        "with-attrs": ({"a": {"a": 0, "b": 1, "c": 2, "d": 3}}, {"a": "def"}),
        "complex": {
            "a": {"a": 1j, "b": 2j, "c": 3j, "d": 4j},
            "b": {"f": 0j, "e": 1j, "d": 2j, "c": 3j},
        },
        "empty": {},
        "empty-with-attrs": ({}, {"f": 1}),
        "three-values": {"a": {"a": 1, "b": 2, "c": 3}},
        "five-values": {"a": {"a": 1, "b": 2, "c": 3, "d": 4, "e": 5}},
        "no-values": {"a": {}},
        "has-i": {"i": {"a": 1, "b": 2}, "z": {"a": 3, "b": 4}},
        "has-j-first": {"j": {"a": 1, "b": 2}, "i": {"a": 5, "b": 6}, "z": {}},
        "pair-len1": ({},),
        "pair-len3": ({}, {}, {}),
        "pair-len0": (),
        "none": None,
        "attrs-none": ({"a": {"a": 1, "b": 2}}, None),
        "list-values": {"a": [1, 2]},
        "int-values": {"a": 1},
        "list": [1],
        "namedtuple": Pair({"m": {"a": 1, "b": 2, "c": 3, "d": 4}}, {"formula": "x"}),
        "ordered-values": {"a": collections.OrderedDict([("z", 1), ("y", 2), ("x", 3), ("w", 4)])},
    }


def test_transform_matrices():
    for name, value in matrices_cases().items():
        check("matrices/" + name, outcome(radiometric_data.transform_matrices, value))

    attrs = {"formula": "abc"}
    mapping = {"a": {"a": 0, "b": 1, "c": 2, "d": 3}}
    matrices, new_attrs = radiometric_data.transform_matrices((mapping, attrs))
    assert new_attrs is attrs
    assert mapping == {"a": {"a": 0, "b": 1, "c": 2, "d": 3}}
    assert list(matrices) == ["a", "i", "j"]
    assert type(matrices) is dict and type(matrices["a"]) is tuple

    # nothing is shared between calls
    matrices["i"][1].append("leak")
    matrices["i"][2]["leak"] = 1
    matrices["a"][0].append("leak")
    matrices["a"][2]["leak"] = 1
    matrices2, attrs2 = radiometric_data.transform_matrices(mapping)
    assert matrices2["i"] == ("i", ["horizontal", "vertical"], {"long_name": "reception polarization"})
    assert matrices2["j"] == (
        "j",
        ["horizontal", "vertical"],
        {"long_name": "transmission polarization"},
    )
    assert matrices2["a"] == (["i", "j"], [[0, 1], [2, 3]], {})
    assert attrs2 == {}
    attrs2["leak"] = 1
    assert radiometric_data.transform_matrices(mapping)[1] == {}


def test_transform_radiometric_data():
    cases = {
        "ignored": {
            "preamble": "",
            "radiometric_data_records_sequence_number": 0,
            "number_of_radiometric_fields": 1,
            "blanks": "",
        },
        "calibration_factor": {"calibration_factor": (-10.0, {"formula": "abc"})},
        "distortion_matrix": {
            "distortion_matrix": (
                {
                    "a": {"a": 1, "b": 2, "c": 3, "d": 4},
                    "b": {"f": 0, "e": 1, "d": 2, "c": 3},
                },
                {"formula": "def"},
            )
        },
        "distortion_matrix-no-attrs": {"distortion_matrix": {"a": {"a": 1, "b": 2, "c": 3, "d": 4}}},
        "distortion_matrix-bad": {"distortion_matrix": ({},)},
    }
    for name, value in cases.items():
        check(
            "radiometric_data/" + name, outcome(radiometric_data.transform_radiometric_data, value)
        )


def test_whole_leader():
    variants = {
        "default": {},
        "n_map=0": dict(n_map=0),
        "lcc2": dict(n_map=2, designator="LCC-XX"),
        "blank-attitude": dict(attitude_values=False),
    }
    for name, kwargs in variants.items():
        group = io.open_sar_leader({"LED": build_leader(**kwargs)}, "LED")
        check("leader/" + name, digest(group))
        if name == "default":
            check("leader-radiometric/" + name, plain(group["radiometric_data"]))


def test_public_names():
    for name in [
        "normalize_datetime",
        "remove_spares",
        "item_type",
        "transform_nested",
        "separate_attrs",
        "as_variable",
        "as_group",
        "Group",
        "Variable",
        "groupby",
        "valmap",
    ]:
        assert hasattr(transformers, name), name
    for name in [
        "radiometric_data_record",
        "transform_matrices",
        "transform_radiometric_data",
        "as_group",
        "remove_spares",
        "assoc",
        "partition",
    ]:
        assert hasattr(radiometric_data, name), name


TESTS = [
    test_as_variable,
    test_as_group,
    test_transform_matrices,
    test_transform_radiometric_data,
    test_whole_leader,
    test_public_names,
]

if __name__ == "__main__":
    for test in TESTS:
        test()
    if "--record" in sys.argv:
        import pprint

        print("EXPECTED = " + pprint.pformat(OBSERVED, width=100, sort_dicts=False))
    else:
        print("OK: %d check groups, %d recorded values" % (len(TESTS), len(OBSERVED)))
