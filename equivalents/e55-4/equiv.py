"""Equivalence check for refactoring 4 (ceos_alos2/sar_leader/map_projection.py).

Run as a script (``PYTHONPATH=<worktree> python equiv.py``, exit status 0 on success) or
with pytest (``python -m pytest -q -p no:cacheprovider equiv.py``).  Every case calls one of
the touched functions (``filter_map_projection``, ``transform_general_info``,
``transform_ellipsoid_parameters``, ``transform_projection``, ``transform_corner_points``,
``transform_conversion_coefficients``, ``transform_map_projection``, and the caller
``sar_leader.metadata.transform_metadata``) on deep copies of the inputs and compares the
canonical, type- and order-preserving serialisation of the result (or the type and message of
the exception), plus the state of the inputs after the call, with a recording made with the
UNCHANGED code (``python equiv.py --record`` rewrites the recording).  The ``identities``
cases additionally pin down which objects are shared inside a result and that nothing is
shared between two calls.  Inputs are hand-written edge cases and map projection records
parsed by the real construct declaration from synthesised bytes.  Long serialisations are
stored as sha256 digests.
"""
import copy
import hashlib
import math
import pathlib
import pprint
import random
import struct
import sys

import numpy as np

from ceos_alos2.hierarchy import Group, Variable

# --------------------------------------------------------------------------
# canonical, type-preserving and order-preserving serialisation of results
# --------------------------------------------------------------------------


def canon(obj):
    if isinstance(obj, Group):
        return (
            "Group",
            obj.path,
            obj.url,
            canon(obj.attrs),
            [(canon(k), canon(v)) for k, v in obj.data.items()],
        )
    if isinstance(obj, Variable):
        return ("Variable", canon(obj.dims), canon(obj.data), canon(obj.attrs))
    if isinstance(obj, np.ndarray):
        if obj.dtype.kind in "mM":
            values = obj.astype("int64").tolist()
        else:
            values = obj.tolist()
        return ("ndarray", str(obj.dtype), obj.shape, canon(values))
    if isinstance(obj, np.generic):
        return ("npscalar", type(obj).__name__, str(obj.dtype), repr(obj.tolist()))
    if isinstance(obj, dict):
        return (type(obj).__name__, [(canon(k), canon(v)) for k, v in obj.items()])
    if isinstance(obj, (list, tuple)):
        return (type(obj).__name__, [canon(v) for v in obj])
    if isinstance(obj, float):
        return ("float", "nan" if math.isnan(obj) else repr(obj))
    if isinstance(obj, complex):
        return ("complex", canon(obj.real), canon(obj.imag))
    if obj is None or isinstance(obj, (bool, int, str, bytes)):
        return (type(obj).__name__, repr(obj))
    if callable(obj):
        return ("callable", getattr(obj, "__name__", type(obj).__name__))
    return ("other", type(obj).__module__, type(obj).__name__, repr(obj))


def run(func, *args, **kwargs):
    """call ``func`` on private copies; record result or exception, and the inputs afterwards"""
    args = copy.deepcopy(args)
    kwargs = copy.deepcopy(kwargs)
    try:
        result = ("ok", canon(func(*args, **kwargs)))
    except Exception as e:  # noqa: BLE001
        result = ("raises", type(e).__name__, str(e))
    return repr((result, ("inputs-after", canon(args), canon(kwargs))))


def digest(text):
    if len(text) <= 300:
        return text
    status = "ok" if text.startswith("(('ok'") else "raises"
    return f"sha256[{status}]:{hashlib.sha256(text.encode()).hexdigest()}:{len(text)}"


# --------------------------------------------------------------------------
# synthesise bytes for a construct declaration (all CEOS fields are fixed
# width ASCII), so that the real parser produces the transformers' inputs
# --------------------------------------------------------------------------


def _ctx_get(expr, ctx):
    return expr(ctx) if callable(expr) else expr


def synthesize(con, rng, overrides=None, blank_rate=0.0):
    """return bytes parsable by ``con``

    ``overrides`` maps dotted paths (array indices omitted) to the decoded value
    the field should have (ints / floats / strings), or to a callable ``(rng) -> value``.
    """
    import construct

    from ceos_alos2 import datatypes

    overrides = overrides or {}

    def text(value, width):
        raw = str(value)
        assert len(raw) <= width, (raw, width)
        return raw.rjust(width).encode("ascii")

    def leaf_value(kind, path, width):
        if path in overrides:
            value = overrides[path]
            return value(rng) if callable(value) else value
        if blank_rate and rng.random() < blank_rate:
            return ""
        if kind == "int":
            return rng.randrange(0, 10 ** min(width - 1, 4))
        if kind == "float":
            return f"{rng.uniform(-1000, 1000):.{max(0, min(5, width - 6))}f}"
        alphabet = "ABCDEFGHIJKLMNOPQRSTUVWXYZ0123456789-"
        return "".join(rng.choice(alphabet) for _ in range(rng.randrange(0, min(width, 12) + 1)))

    def gen(con, ctx, path):
        if isinstance(con, construct.Renamed):
            return gen(con.subcon, ctx, path)
        if isinstance(con, construct.Struct):
            sub = construct.Container()
            sub["_"] = ctx
            chunks = []
            for sc in con.subcons:
                subpath = f"{path}.{sc.name}" if path else sc.name
                data, value = gen(sc, sub, subpath)
                sub[sc.name] = value
                chunks.append(data)
            return b"".join(chunks), sub
        if isinstance(con, construct.Array):
            count = _ctx_get(con.count, ctx)
            chunks, values = [], []
            for _ in range(count):
                data, value = gen(con.subcon, ctx, path)
                chunks.append(data)
                values.append(value)
            return b"".join(chunks), values
        if isinstance(con, construct.FormatField):
            value = overrides.get(path, 0)
            return struct.pack(con.fmtstr, value), value
        if isinstance(con, construct.Enum):
            choices = sorted(con.encmapping.values(), key=repr)
            value = overrides.get(path, None)
            if value is None:
                value = rng.choice(choices)
            width = con.subcon._sizeof(ctx, path)
            return text(value, width), value
        if isinstance(con, datatypes.AsciiInteger):
            width = con._sizeof(ctx, path)
            value = leaf_value("int", path, width)
            return text(value, width), (-1 if value == "" else int(value))
        if isinstance(con, datatypes.AsciiFloat):
            width = con._sizeof(ctx, path)
            value = leaf_value("float", path, width)
            return text(value, width), value
        if isinstance(con, datatypes.PaddedString):
            width = con._sizeof(ctx, path)
            value = leaf_value("str", path, width)
            return text(value, width), value
        if isinstance(con, construct.Adapter):  # Metadata, Factor, AsciiComplex
            return gen(con.subcon, ctx, path)
        raise TypeError(f"cannot synthesise {con!r} at {path}")

    data, _ = gen(con, construct.Container(), "")
    return data


def preamble(record_length, sequence_number=1, subtypes=(18, 10, 18, 20)):
    return {
        "preamble.record_sequence_number": sequence_number,
        "preamble.first_record_subtype": subtypes[0],
        "preamble.record_type": subtypes[1],
        "preamble.second_record_subtype": subtypes[2],
        "preamble.third_record_subtype": subtypes[3],
        "preamble.record_length": record_length,
    }


def parse(con, data):
    from ceos_alos2.utils import to_dict

    return to_dict(con.parse(data))


def sample_records(seed, blank_rate=0.0, designator="UTM-PROJECTION", n_points=3, n_channels=2):
    """parse synthesised bytes of every SAR leader record kind with the real declarations"""
    from ceos_alos2.sar_leader import (
        attitude,
        data_quality_summary,
        dataset_summary,
        facility_related_data,
        map_projection,
        platform_position,
        radiometric_data,
    )

    rng = random.Random(seed)

    def date(rng):
        return f"{rng.randrange(1990, 2030)} {rng.randrange(1, 13):02d} {rng.randrange(1, 29):02d}"

    def timestamp(rng):
        return (
            f"{rng.randrange(1990, 2030)}{rng.randrange(1, 13):02d}{rng.randrange(1, 29):02d}"
            f"{rng.randrange(24):02d}{rng.randrange(60):02d}{rng.randrange(60):02d}"
            f"{rng.randrange(1000):03d}"
        )

    specs = {
        "dataset_summary": (
            dataset_summary.dataset_summary_record,
            preamble(4096) | {"scene_center_time": timestamp},
        ),
        "map_projection": (
            map_projection.map_projection_record,
            preamble(1620) | {"map_projection_designator": designator},
        ),
        "platform_position": (
            platform_position.platform_position_record,
            preamble(4680)
            | {
                "datetime_of_first_point.date": date,
                "datetime_of_first_point.seconds_of_day": lambda rng: f"{rng.uniform(0, 86400):.6f}",
                "occurrence_flag_of_a_leap_second": lambda rng: rng.randrange(2),
            },
        ),
        "attitude": (
            attitude.attitude_record,
            preamble(12 + 4 + n_points * 120 + 20)
            | {
                "number_of_points": n_points,
                "data_points.time.day_of_year": lambda rng: rng.randrange(1, 366),
                "data_points.time.millisecond_of_day": lambda rng: rng.randrange(86400000),
                **{
                    f"data_points.{section}.{name}_error": (lambda rng: rng.randrange(3))
                    for section in ("attitude", "rates")
                    for name in ("pitch", "roll", "yaw")
                },
            },
        ),
        "radiometric_data": (radiometric_data.radiometric_data_record, preamble(9860)),
        "data_quality_summary": (
            data_quality_summary.data_quality_summary_record,
            preamble(1620) | {"number_of_channels": n_channels},
        ),
        "facility_related_data_1": (
            facility_related_data.facility_related_data_record,
            preamble(12 + 4 + 50 + 40) | {"record_sequence_number": lambda rng: rng.randrange(0, 6)},
        ),
        "facility_related_data_5": (
            facility_related_data.facility_related_data_5_record,
            preamble(5000) | {"prf_switching_flag": lambda rng: rng.randrange(2)},
        ),
    }
    rates = {name: blank_rate for name in specs}
    # fields without which the transformers raise are always filled in via the overrides
    return {
        name: parse(con, synthesize(con, rng, overrides, blank_rate=rates[name]))
        for name, (con, overrides) in specs.items()
    }


# --------------------------------------------------------------------------
# harness
# --------------------------------------------------------------------------

BEGIN = "# --- BEGIN " + "EXPECTED (recorded from the unchanged code) ---"
END = "# --- END " + "EXPECTED ---"


def main(build_cases, expected, file):
    cases = build_cases()
    ids = [case_id for case_id, _ in cases]
    assert len(ids) == len(set(ids)), "duplicate case ids"
    actual = {case_id: digest(thunk()) for case_id, thunk in cases}

    if "--record" in sys.argv:
        path = pathlib.Path(file)
        source = path.read_text()
        head, rest = source.split(BEGIN, 1)
        _, tail = rest.split(END, 1)
        block = "EXPECTED = " + pprint.pformat(actual, width=100, sort_dicts=False)
        path.write_text(f"{head}{BEGIN}\n{block}\n{END}{tail}")
        print(f"recorded {len(actual)} cases")
        return 0

    failures = []
    for case_id in ids:
        if case_id not in expected:
            failures.append((case_id, "<not recorded>", actual[case_id]))
        elif expected[case_id] != actual[case_id]:
            failures.append((case_id, expected[case_id], actual[case_id]))
    missing = sorted(set(expected) - set(ids))
    for case_id, want, got in failures:
        print(f"MISMATCH {case_id}\n  expected: {want}\n  actual:   {got}")
    if missing:
        print("cases recorded but not run:", missing)
    n_raises = sum(1 for value in actual.values() if "raises" in value[:16])
    print(
        f"{len(ids) - len(failures)}/{len(ids)} cases identical to the recording"
        f" ({len(ids) - n_raises} results, {n_raises} exceptions)"
    )
    return 1 if failures or missing else 0


# --------------------------------------------------------------------------
# cases: ceos_alos2/sar_leader/map_projection.py
# --------------------------------------------------------------------------
import collections

from ceos_alos2.sar_leader import map_projection as mp
from ceos_alos2.sar_leader import metadata

CORNERS = ["top_left_corner", "top_right_corner", "bottom_right_corner", "bottom_left_corner"]


def corner_identities(mapping):
    """object sharing inside one result and between two results of `transform_corner_points`"""
    first = mp.transform_corner_points(copy.deepcopy(mapping))
    second = mp.transform_corner_points(copy.deepcopy(mapping))
    kinds = [k for k in ("projected", "geographic") if k in first and "corner" in first[k]]
    coords = [first[k]["corner"] for k in kinds]
    return {
        "kinds": kinds,
        "names-shared-within-call": [a[1] is b[1] for a in coords for b in coords],
        "dims-shared-within-call": [a[0] is b[0] for a in coords for b in coords],
        "attrs-shared-within-call": [a[2] is b[2] for a in coords for b in coords],
        "names-shared-between-calls": [
            first[k]["corner"][1] is second[k]["corner"][1] for k in kinds
        ],
        "types": [type(first[k]).__name__ for k in first],
    }


def group_identities(mapping):
    first = mp.transform_map_projection(copy.deepcopy(mapping))
    second = mp.transform_map_projection(copy.deepcopy(mapping))

    def corner(group, kind):
        return group["corner_points"][kind]["corner"].data

    return {
        "within": corner(first, "projected") is corner(first, "geographic"),
        "between": corner(first, "projected") is corner(second, "projected"),
        "mutation-isolated": (
            corner(first, "projected").append("x"),
            canon(corner(second, "projected")),
            canon(mp.transform_map_projection(copy.deepcopy(mapping))["corner_points"]),
        )[1:],
    }


def build_cases():
    cases = []

    def add(case_id, func, *args, **kwargs):
        cases.append((case_id, lambda: run(func, *args, **kwargs)))

    def point(a, b, names, units):
        return {names[0]: (a, {"units": units}), names[1]: (b, {"units": units})}

    def projected(offset=0.0):
        return {
            key: point(offset + i, offset - i, ["northing", "easting"], "km")
            for i, key in enumerate(CORNERS)
        }

    def geographic(offset=0.0):
        return {
            key: point(offset + i / 10, offset - i / 10, ["latitude", "longitude"], "deg")
            for i, key in enumerate(CORNERS)
        }

    heights = {key: (float(i), {"units": "deg"}) for i, key in enumerate(CORNERS)}

    def without(mapping, *keys):
        return {k: v for k, v in mapping.items() if k not in keys}

    sections = {
        "utm_projection": {"type": "UTM", "zone_number": "54", "map_origin": {"x": 1}},
        "ups_projection": {"type": "UPS", "scale_factor": 0.5},
        "national_system_projection": {
            "projection_descriptor": "LCC",
            "map_origin": {"false_easting": (1.0, {"units": "m"})},
            "standard_parallel": {"phi1": (1.0, {"units": "deg"})},
            "standard_parallel2": {"param1": (1.0, {"units": "deg"})},
            "central_meridian": {"param1": (1.0, {"units": "deg"})},
        },
    }

    # ---- filter_map_projection
    designators = [
        "UTM-PROJECTION", "utm-x", "UPS-", "ups-a-b", "LCC-CONIC", "MER-CATOR", "Mer-x",
        "XYZ-UNKNOWN", "-", "-utm", "utm -x", " utm-x", "UTM", "", "utm_projection", "UTM–X",
        "ÜTM-x", None, 1, b"utm-x", ["utm-x"], ("utm", "x"),
    ]
    for index, designator in enumerate(designators):
        mapping = {"a": 1, "map_projection_designator": designator, **sections, "z": 2}
        add(f"filter_map_projection/{index}[{designator!r}]", mp.filter_map_projection, mapping)
        add(
            f"filter_map_projection/partial/{index}",
            mp.filter_map_projection,
            {"ups_projection": 1, "map_projection_designator": designator, "projection": "old"},
        )
    filters = {
        "no-designator": {"a": 1, **sections},
        "empty": {},
        "only-designator": {"map_projection_designator": "UTM-X"},
        "projection-exists-before": {"projection": 0, "map_projection_designator": "UTM-X", **sections},
        "projection-exists-after": {"map_projection_designator": "UTM-X", **sections, "projection": 0},
        "none-key": {None: "none", "map_projection_designator": "XYZ-X", **sections},
        "none-key-known": {None: "none", "map_projection_designator": "UPS-X", **sections},
        "order": {**dict(reversed(list(sections.items()))), "map_projection_designator": "MER-X"},
        "ordered-dict": collections.OrderedDict(map_projection_designator="UTM-X", **sections),
        "list": [("map_projection_designator", "UTM-X")],
        "none": None,
        "string": "map_projection_designator",
    }
    for name, value in filters.items():
        add(f"filter_map_projection/{name}", mp.filter_map_projection, value)

    # ---- small section transformers
    simple = {
        "general-info": {
            "map_projection_type": "GEOREFERENCE", "number_of_pixels_per_line": 10,
            "number_of_lines": 20, "platform_headings": (1.0, {"units": "deg"}),
        },
        "general-info-collision": {"n_rows": 1, "number_of_lines": 2, "n_columns": 3},
        "ellipsoid": {
            "reference_ellipsoid": "GRS80", "semimajor_axis": (1.0, {"units": "m"}),
            "datum_shift_parameters": {"dx": (0.0, {"units": "m"})}, "scale_factor": 0.0,
        },
        "projection": sections["national_system_projection"],
        "utm": sections["utm_projection"],
        "empty": {},
        "ordered-dict": collections.OrderedDict(number_of_lines=1, scale_factor=2, map_origin=3),
        "int-keys": {1: 2, None: 3},
        "list": [("number_of_lines", 1)],
        "none": None,
        "string": "scale_factor",
        "tuple": ({"number_of_lines": 1}, {}),
    }
    for name, value in simple.items():
        add(f"transform_general_info/{name}", mp.transform_general_info, value)
        add(f"transform_ellipsoid_parameters/{name}", mp.transform_ellipsoid_parameters, value)
        add(f"transform_projection/{name}", mp.transform_projection, value)

    # ---- transform_corner_points
    corner_points = {
        "full": {
            "projected": projected(), "geographic": geographic(),
            "terrain_heights_relative_to_ellipsoid": heights,
        },
        "reversed": {
            "terrain_heights_relative_to_ellipsoid": heights,
            "geographic": dict(reversed(list(geographic(5.0).items()))),
            "projected": dict(reversed(list(projected(5.0).items()))),
        },
        "only-projected": {"projected": projected()},
        "only-geographic": {"geographic": geographic()},
        "only-heights": {"terrain_heights_relative_to_ellipsoid": heights},
        "empty": {},
        "other-kind": {"projected": projected(), "other": geographic(1.0)},
        "extra-corner-key": {"projected": {**projected(), "center": point(0, 0, ["a", "b"], "km")}},
        "missing-corner": {"projected": without(projected(), "bottom_left_corner")},
        "no-corners": {"projected": {}},
        "corner-collision": {
            "projected": {
                key: {"corner": (i, {"units": "x"}), "northing": (i, {"units": "km"})}
                for i, key in enumerate(CORNERS)
            }
        },
        "ragged-corners": {
            "geographic": {
                **geographic(),
                "top_left_corner": {"latitude": (1.0, {"units": "deg"})},
            }
        },
        "differing-attrs": {
            "geographic": {
                key: {"latitude": (float(i), {"units": f"u{i}"})} for i, key in enumerate(CORNERS)
            }
        },
        "empty-points": {"projected": {key: {} for key in CORNERS}},
        "values-without-attrs": {"projected": {key: {"northing": 1.0} for key in CORNERS}},
        "values-empty-tuple": {"projected": {key: {"northing": ()} for key in CORNERS}},
        "values-1-tuple": {"projected": {key: {"northing": (1.0,)} for key in CORNERS}},
        "values-3-tuple": {"projected": {key: {"northing": (1.0, {}, 2)} for key in CORNERS}},
        "values-lists": {"projected": {key: {"northing": [1.0, {"units": "km"}]} for key in CORNERS}},
        "points-not-dicts": {"projected": {key: 1 for key in CORNERS}},
        "kind-not-dict": {"projected": 1},
        "kind-list": {"geographic": [1, 2, 3, 4]},
        "kind-none": {"geographic": None},
        "heights-odd": {"projected": projected(), "terrain_heights_relative_to_ellipsoid": None},
        "ordered-dict": collections.OrderedDict(
            geographic=collections.OrderedDict(geographic()), projected=projected()
        ),
        "list": [("projected", projected())],
        "none": None,
        "string": "projected",
        "int-key": {1: projected()},
    }
    for name, value in corner_points.items():
        add(f"transform_corner_points/{name}", mp.transform_corner_points, value)
        add(f"transform_corner_points/identities/{name}", corner_identities, value)

    # ---- transform_conversion_coefficients
    def coefficients(prefix, attrs=None):
        names = [f"{prefix}{i}{j}" for i in (1, 2) for j in (1, 2, 3, 4)]
        return {name: float(index) for index, name in enumerate(names)}, (attrs or {})

    conversions = {
        "full": {
            "map_projection_to_pixels": coefficients("A", {"formula": "E = ...", "E": "easting"}),
            "pixels_to_map_projection": coefficients("B", {"formula": "R = ..."}),
        },
        "reversed": {
            "pixels_to_map_projection": coefficients("B"),
            "map_projection_to_pixels": coefficients("A"),
        },
        "one": {"map_projection_to_pixels": ({"A11": 1.0}, {})},
        "other-key": {"something_else": ({"C1": 1.0, "C2": float("nan")}, {"a": 1})},
        "collision": {
            "projected_to_image": coefficients("X"),
            "map_projection_to_pixels": coefficients("A"),
        },
        "collision-reversed": {
            "map_projection_to_pixels": coefficients("A"),
            "projected_to_image": coefficients("X"),
        },
        "empty": {},
        "empty-coefficients": {"map_projection_to_pixels": ({}, {})},
        "no-attrs": {"map_projection_to_pixels": {"A11": 1.0, "A12": 2.0}},
        "1-tuple": {"map_projection_to_pixels": ({"A11": 1.0},)},
        "3-tuple": {"map_projection_to_pixels": ({"A11": 1.0}, {}, {})},
        "list-entry": {"map_projection_to_pixels": [{"A11": 1.0}, {"a": 1}]},
        "raw-not-dict": {"map_projection_to_pixels": ([1.0, 2.0], {})},
        "attrs-none": {"map_projection_to_pixels": ({"A11": 1.0}, None)},
        "entry-int": {"map_projection_to_pixels": 1},
        "entry-none": {"pixels_to_map_projection": None},
        "mixed-values": {"map_projection_to_pixels": ({"A11": "x", 2: None, "A13": [1]}, {})},
        "ordered-dict": collections.OrderedDict(
            pixels_to_map_projection=(collections.OrderedDict(B12=2.0, B11=1.0), {})
        ),
        "list": [("map_projection_to_pixels", ({}, {}))],
        "none": None,
        "string": "abc",
    }
    for name, value in conversions.items():
        add(f"transform_conversion_coefficients/{name}", mp.transform_conversion_coefficients, value)

    # ---- transform_map_projection
    full = {
        "preamble": {"record_length": 1620},
        "blanks": "",
        "map_projection_general_information": simple["general-info"],
        "map_projection_ellipsoid_parameters": simple["ellipsoid"],
        "map_projection_designator": "UTM-PROJECTION",
        **sections,
        "corner_points": corner_points["full"],
        "conversion_coefficients": conversions["full"],
        "blanks1": "",
    }

    def variant(**updates):
        new = copy.deepcopy(full)
        for key, value in updates.items():
            if value is KeyError:
                del new[key]
            else:
                new[key] = value
        return new

    records = {
        "full": full,
        "reversed": dict(reversed(list(full.items()))),
        **{
            f"designator[{d!r}]": variant(map_projection_designator=d)
            for d in ["UPS-X", "LCC-X", "mer-x", "XYZ-X", "UTM", "", None, 5]
        },
        "no-designator": variant(map_projection_designator=KeyError),
        "no-corner-points": variant(corner_points=KeyError),
        "no-coefficients": variant(conversion_coefficients=KeyError),
        "no-sections": variant(
            utm_projection=KeyError, ups_projection=KeyError, national_system_projection=KeyError
        ),
        "only-preamble": {"preamble": {}},
        "empty": {},
        "projection-collision": variant(projection={"already": "there"}),
        "translation-collision": variant(general_information={"old": 1}, ellipsoid_parameters=2),
        "spares-everywhere": variant(
            spare1="x",
            corner_points={**corner_points["full"], "blanks": ""},
            utm_projection={**sections["utm_projection"], "blanks1": "", "spare_not": {}},
        ),
        "corner-points-bad": variant(corner_points={"projected": {}}),
        "coefficients-bad": variant(conversion_coefficients={"map_projection_to_pixels": 1}),
        "general-info-bad": variant(map_projection_general_information=[1]),
        "extra-entries": variant(attr="x", var=(1, {"u": "m"}), array=[1, 2], group={"a": 1}),
        "ordered-dict": collections.OrderedDict(full),
        "list": [full],
        "tuple": (full, {}),
        "none": None,
        "string": "preamble",
        "int-key": {1: 2},
    }
    for name, value in records.items():
        add(f"transform_map_projection/{name}", mp.transform_map_projection, value)
    add("transform_map_projection/identities", group_identities, full)

    # ---- bytes -> parser -> transformers
    parsed_designators = [
        "UTM-PROJECTION", "UPS-PROJECTION", "LCC-PROJECTION", "MER-PROJECTION", "utm-lower",
        "OTHER-PROJECTION", "NODASH", "", "UTM-A-B",
    ]
    for seed, designator in enumerate(parsed_designators):
        for blank_rate in (0.0, 0.2):
            parsed = sample_records(200 + seed, designator=designator, blank_rate=blank_rate)
            record = parsed["map_projection"]
            prefix = f"records/{seed}/{blank_rate}"
            add(f"{prefix}/transform_map_projection", mp.transform_map_projection, record)
            add(f"{prefix}/filter_map_projection", mp.filter_map_projection, record)
            add(
                f"{prefix}/transform_corner_points",
                mp.transform_corner_points,
                record["corner_points"],
            )
            add(
                f"{prefix}/transform_conversion_coefficients",
                mp.transform_conversion_coefficients,
                record["conversion_coefficients"],
            )
            add(
                f"{prefix}/transform_general_info",
                mp.transform_general_info,
                record["map_projection_general_information"],
            )
            for count in (0, 1, 2):
                leader = dict(parsed, map_projection=[record] * count)
                add(f"{prefix}/transform_metadata/{count}", metadata.transform_metadata, leader)

    return cases


# --- BEGIN EXPECTED (recorded from the unchanged code) ---
EXPECTED = {"filter_map_projection/0['UTM-PROJECTION']": 'sha256[ok]:9831574e98bbfe0ffb35b2e77827d60cd42b259177f3bc57017c38af07a59370:1512',
 'filter_map_projection/partial/0': '((\'ok\', (\'dict\', [((\'str\', "\'projection\'"), (\'str\', '
                                    '"\'old\'"))])), (\'inputs-after\', (\'tuple\', [(\'dict\', '
                                    '[((\'str\', "\'ups_projection\'"), (\'int\', \'1\')), '
                                    '((\'str\', "\'map_projection_designator\'"), (\'str\', '
                                    '"\'UTM-PROJECTION\'")), ((\'str\', "\'projection\'"), '
                                    '(\'str\', "\'old\'"))])]), (\'dict\', [])))',
 "filter_map_projection/1['utm-x']": 'sha256[ok]:84ab2105452aa947a3d420df184f5df007794553d7c08d9089142b27c0a9e804:1503',
 'filter_map_projection/partial/1': '((\'ok\', (\'dict\', [((\'str\', "\'projection\'"), (\'str\', '
                                    '"\'old\'"))])), (\'inputs-after\', (\'tuple\', [(\'dict\', '
                                    '[((\'str\', "\'ups_projection\'"), (\'int\', \'1\')), '
                                    '((\'str\', "\'map_projection_designator\'"), (\'str\', '
                                    '"\'utm-x\'")), ((\'str\', "\'projection\'"), (\'str\', '
                                    '"\'old\'"))])]), (\'dict\', [])))',
 "filter_map_projection/2['UPS-']": 'sha256[ok]:50435538d93a2ba04153087540d30621558553cf184d12adc715ad787f521bd7:1433',
 'filter_map_projection/partial/2': '((\'ok\', (\'dict\', [((\'str\', "\'projection\'"), (\'str\', '
                                    '"\'old\'"))])), (\'inputs-after\', (\'tuple\', [(\'dict\', '
                                    '[((\'str\', "\'ups_projection\'"), (\'int\', \'1\')), '
                                    '((\'str\', "\'map_projection_designator\'"), (\'str\', '
                                    '"\'UPS-\'")), ((\'str\', "\'projection\'"), (\'str\', '
                                    '"\'old\'"))])]), (\'dict\', [])))',
 "filter_map_projection/3['ups-a-b']": 'sha256[ok]:89577420c96fda6261d331e5c81be364f3b80fadcaa9962f663b73426e390104:1436',
 'filter_map_projection/partial/3': '((\'ok\', (\'dict\', [((\'str\', "\'projection\'"), (\'str\', '
                                    '"\'old\'"))])), (\'inputs-after\', (\'tuple\', [(\'dict\', '
                                    '[((\'str\', "\'ups_projection\'"), (\'int\', \'1\')), '
                                    '((\'str\', "\'map_projection_designator\'"), (\'str\', '
                                    '"\'ups-a-b\'")), ((\'str\', "\'projection\'"), (\'str\', '
                                    '"\'old\'"))])]), (\'dict\', [])))',
 "filter_map_projection/4['LCC-CONIC']": 'sha256[ok]:485b18a13d53ad5109273b0d9b383c8b713e2d13d4de27a904700c24bb1ad5a4:2012',
 'filter_map_projection/partial/4': '((\'ok\', (\'dict\', [((\'str\', "\'projection\'"), (\'str\', '
                                    '"\'old\'"))])), (\'inputs-after\', (\'tuple\', [(\'dict\', '
                                    '[((\'str\', "\'ups_projection\'"), (\'int\', \'1\')), '
                                    '((\'str\', "\'map_projection_designator\'"), (\'str\', '
                                    '"\'LCC-CONIC\'")), ((\'str\', "\'projection\'"), (\'str\', '
                                    '"\'old\'"))])]), (\'dict\', [])))',
 "filter_map_projection/5['MER-CATOR']": 'sha256[ok]:f2a7b293b60b5992442e0da13808f44f05f1161fe1e0ef7adf2a945e48c9f331:2012',
 'filter_map_projection/partial/5': '((\'ok\', (\'dict\', [((\'str\', "\'projection\'"), (\'str\', '
                                    '"\'old\'"))])), (\'inputs-after\', (\'tuple\', [(\'dict\', '
                                    '[((\'str\', "\'ups_projection\'"), (\'int\', \'1\')), '
                                    '((\'str\', "\'map_projection_designator\'"), (\'str\', '
                                    '"\'MER-CATOR\'")), ((\'str\', "\'projection\'"), (\'str\', '
                                    '"\'old\'"))])]), (\'dict\', [])))',
 "filter_map_projection/6['Mer-x']": 'sha256[ok]:4380b57e98d5e5ba5af3fd2b4bda70bcb4faefdc3dbe95be200ccd6b14c99931:2008',
 'filter_map_projection/partial/6': '((\'ok\', (\'dict\', [((\'str\', "\'projection\'"), (\'str\', '
                                    '"\'old\'"))])), (\'inputs-after\', (\'tuple\', [(\'dict\', '
                                    '[((\'str\', "\'ups_projection\'"), (\'int\', \'1\')), '
                                    '((\'str\', "\'map_projection_designator\'"), (\'str\', '
                                    '"\'Mer-x\'")), ((\'str\', "\'projection\'"), (\'str\', '
                                    '"\'old\'"))])]), (\'dict\', [])))',
 "filter_map_projection/7['XYZ-UNKNOWN']": 'sha256[ok]:2fc0938df6fb9b6d4b241da48fb5dde58d4b44f97d865364bb786c4f7181f32f:1315',
 'filter_map_projection/partial/7': '((\'ok\', (\'dict\', [((\'str\', "\'projection\'"), (\'str\', '
                                    '"\'old\'"))])), (\'inputs-after\', (\'tuple\', [(\'dict\', '
                                    '[((\'str\', "\'ups_projection\'"), (\'int\', \'1\')), '
                                    '((\'str\', "\'map_projection_designator\'"), (\'str\', '
                                    '"\'XYZ-UNKNOWN\'")), ((\'str\', "\'projection\'"), (\'str\', '
                                    '"\'old\'"))])]), (\'dict\', [])))',
 "filter_map_projection/8['-']": 'sha256[ok]:8e6ce155eadbb100bc1ff40db945a3459fa453557d2ec147823b3484e5bc9208:1305',
 'filter_map_projection/partial/8': '((\'ok\', (\'dict\', [((\'str\', "\'projection\'"), (\'str\', '
                                    '"\'old\'"))])), (\'inputs-after\', (\'tuple\', [(\'dict\', '
                                    '[((\'str\', "\'ups_projection\'"), (\'int\', \'1\')), '
                                    '((\'str\', "\'map_projection_designator\'"), (\'str\', '
                                    '"\'-\'")), ((\'str\', "\'projection\'"), (\'str\', '
                                    '"\'old\'"))])]), (\'dict\', [])))',
 "filter_map_projection/9['-utm']": 'sha256[ok]:01485283d72138a73d3b9e111838b6da98be1e9eca2fa5b78c1afc0e19b4dc09:1308',
 'filter_map_projection/partial/9': '((\'ok\', (\'dict\', [((\'str\', "\'projection\'"), (\'str\', '
                                    '"\'old\'"))])), (\'inputs-after\', (\'tuple\', [(\'dict\', '
                                    '[((\'str\', "\'ups_projection\'"), (\'int\', \'1\')), '
                                    '((\'str\', "\'map_projection_designator\'"), (\'str\', '
                                    '"\'-utm\'")), ((\'str\', "\'projection\'"), (\'str\', '
                                    '"\'old\'"))])]), (\'dict\', [])))',
 "filter_map_projection/10['utm -x']": 'sha256[ok]:8028d777d2c37f3d00a3ff92642911f6a3e583265a145cfed8058b04a430e028:1310',
 'filter_map_projection/partial/10': '((\'ok\', (\'dict\', [((\'str\', "\'projection\'"), '
                                     '(\'str\', "\'old\'"))])), (\'inputs-after\', (\'tuple\', '
                                     '[(\'dict\', [((\'str\', "\'ups_projection\'"), (\'int\', '
                                     '\'1\')), ((\'str\', "\'map_projection_designator\'"), '
                                     '(\'str\', "\'utm -x\'")), ((\'str\', "\'projection\'"), '
                                     '(\'str\', "\'old\'"))])]), (\'dict\', [])))',
 "filter_map_projection/11[' utm-x']": 'sha256[ok]:9c1ff7099450a209d9a726e40c971b497fb1b02cc59098ea0906adac2168f13a:1310',
 'filter_map_projection/partial/11': '((\'ok\', (\'dict\', [((\'str\', "\'projection\'"), '
                                     '(\'str\', "\'old\'"))])), (\'inputs-after\', (\'tuple\', '
                                     '[(\'dict\', [((\'str\', "\'ups_projection\'"), (\'int\', '
                                     '\'1\')), ((\'str\', "\'map_projection_designator\'"), '
                                     '(\'str\', "\' utm-x\'")), ((\'str\', "\'projection\'"), '
                                     '(\'str\', "\'old\'"))])]), (\'dict\', [])))',
 "filter_map_projection/12['UTM']": 'sha256[raises]:ff49fae8999f217dd2d3f996a71ab1070b9ae520596e9b4bb137d9d3a126257e:1300',
 'filter_map_projection/partial/12': "(('raises', 'ValueError', 'not enough values to unpack "
                                     "(expected 2, got 1)'), ('inputs-after', ('tuple', [('dict', "
                                     '[((\'str\', "\'ups_projection\'"), (\'int\', \'1\')), '
                                     '((\'str\', "\'map_projection_designator\'"), (\'str\', '
                                     '"\'UTM\'")), ((\'str\', "\'projection\'"), (\'str\', '
                                     '"\'old\'"))])]), (\'dict\', [])))',
 "filter_map_projection/13['']": 'sha256[raises]:f529d0c9efbe24594dd176f785ebadff44b31e5e28ccfd362a810612d9aaba63:1297',
 'filter_map_projection/partial/13': "(('raises', 'ValueError', 'not enough values to unpack "
                                     "(expected 2, got 1)'), ('inputs-after', ('tuple', [('dict', "
                                     '[((\'str\', "\'ups_projection\'"), (\'int\', \'1\')), '
                                     '((\'str\', "\'map_projection_designator\'"), (\'str\', '
                                     '"\'\'")), ((\'str\', "\'projection\'"), (\'str\', '
                                     '"\'old\'"))])]), (\'dict\', [])))',
 "filter_map_projection/14['utm_projection']": 'sha256[raises]:c82a76ada738a0d27ee8311cb8524041d0e34d3cc00925e3c11385dad58f35b7:1311',
 'filter_map_projection/partial/14': "(('raises', 'ValueError', 'not enough values to unpack "
                                     "(expected 2, got 1)'), ('inputs-after', ('tuple', [('dict', "
                                     '[((\'str\', "\'ups_projection\'"), (\'int\', \'1\')), '
                                     '((\'str\', "\'map_projection_designator\'"), (\'str\', '
                                     '"\'utm_projection\'")), ((\'str\', "\'projection\'"), '
                                     '(\'str\', "\'old\'"))])]), (\'dict\', [])))',
 "filter_map_projection/15['UTM–X']": 'sha256[raises]:b2c10464ca5b89e994a539c609f5545a4fea9e0a96ad8362f8059fa0afba50d5:1302',
 'filter_map_projection/partial/15': "(('raises', 'ValueError', 'not enough values to unpack "
                                     "(expected 2, got 1)'), ('inputs-after', ('tuple', [('dict', "
                                     '[((\'str\', "\'ups_projection\'"), (\'int\', \'1\')), '
                                     '((\'str\', "\'map_projection_designator\'"), (\'str\', '
                                     '"\'UTM–X\'")), ((\'str\', "\'projection\'"), (\'str\', '
                                     '"\'old\'"))])]), (\'dict\', [])))',
 "filter_map_projection/16['ÜTM-x']": 'sha256[ok]:3c6a471700d90a3bc84929bb1f1c1af0170ee0124db76d337b5ae1ccd1a5e646:1309',
 'filter_map_projection/partial/16': '((\'ok\', (\'dict\', [((\'str\', "\'projection\'"), '
                                     '(\'str\', "\'old\'"))])), (\'inputs-after\', (\'tuple\', '
                                     '[(\'dict\', [((\'str\', "\'ups_projection\'"), (\'int\', '
                                     '\'1\')), ((\'str\', "\'map_projection_designator\'"), '
                                     '(\'str\', "\'ÜTM-x\'")), ((\'str\', "\'projection\'"), '
                                     '(\'str\', "\'old\'"))])]), (\'dict\', [])))',
 'filter_map_projection/17[None]': 'sha256[ok]:a0791d9becf438af9334a0c464b17593bc5ad3933cd1b08b87077352d38e71d8:2417',
 'filter_map_projection/partial/17': 'sha256[ok]:d0b2d8b6fa2063b7834f5924ee261df845e6faf6e47bf9c1d7b922bfee118bbc:385',
 'filter_map_projection/18[1]': 'sha256[raises]:9e9538b83d9f0a0faab2500c57650465a19bb4f025ae8d166ee671f99352225f:1290',
 'filter_map_projection/partial/18': '((\'raises\', \'AttributeError\', "\'int\' object has no '
                                     'attribute \'lower\'"), (\'inputs-after\', (\'tuple\', '
                                     '[(\'dict\', [((\'str\', "\'ups_projection\'"), (\'int\', '
                                     '\'1\')), ((\'str\', "\'map_projection_designator\'"), '
                                     '(\'int\', \'1\')), ((\'str\', "\'projection\'"), (\'str\', '
                                     '"\'old\'"))])]), (\'dict\', [])))',
 "filter_map_projection/19[b'utm-x']": 'sha256[raises]:c8ea20fccb8c13b97709cf76348ab59d894e6d5598dc60f8c2fb63559300c511:1299',
 'filter_map_projection/partial/19': '((\'raises\', \'TypeError\', "a bytes-like object is '
                                     'required, not \'str\'"), (\'inputs-after\', (\'tuple\', '
                                     '[(\'dict\', [((\'str\', "\'ups_projection\'"), (\'int\', '
                                     '\'1\')), ((\'str\', "\'map_projection_designator\'"), '
                                     '(\'bytes\', "b\'utm-x\'")), ((\'str\', "\'projection\'"), '
                                     '(\'str\', "\'old\'"))])]), (\'dict\', [])))',
 "filter_map_projection/20[['utm-x']]": 'sha256[raises]:1dbdfec2fd92e6a74c7ba2a4a9d9e5f0ea6f510f787469b0c9d524d2b2a61bef:1309',
 'filter_map_projection/partial/20': '((\'raises\', \'AttributeError\', "\'list\' object has no '
                                     'attribute \'lower\'"), (\'inputs-after\', (\'tuple\', '
                                     '[(\'dict\', [((\'str\', "\'ups_projection\'"), (\'int\', '
                                     '\'1\')), ((\'str\', "\'map_projection_designator\'"), '
                                     '(\'list\', [(\'str\', "\'utm-x\'")])), ((\'str\', '
                                     '"\'projection\'"), (\'str\', "\'old\'"))])]), (\'dict\', '
                                     '[])))',
 "filter_map_projection/21[('utm', 'x')]": 'sha256[raises]:7f93a0a0a2136a032d6ff8e7347da6409399a3ed4e92df3a180479079ca66fcf:1325',
 'filter_map_projection/partial/21': 'sha256[raises]:f3ceeda57cfaeb035fe937b019d913231ecb5b0749fd0e85a3410618a6a834de:309',
 'filter_map_projection/no-designator': 'sha256[ok]:fd93066f485d0ac2f3b7c59e8e91f8e1e44d444ed5b32eff9748f51b5a1e3420:2225',
 'filter_map_projection/empty': "(('ok', ('dict', [])), ('inputs-after', ('tuple', [('dict', "
                                "[])]), ('dict', [])))",
 'filter_map_projection/only-designator': "(('ok', ('dict', [])), ('inputs-after', ('tuple', "
                                          "[('dict', [(('str', "
                                          '"\'map_projection_designator\'"), (\'str\', '
                                          '"\'UTM-X\'"))])]), (\'dict\', [])))',
 'filter_map_projection/projection-exists-before': 'sha256[ok]:aa27cde5ee55cefe138586ffb00add5c71e7aeeb0ece7ce056bd151743245a64:1416',
 'filter_map_projection/projection-exists-after': 'sha256[ok]:0e22853d9827d70105913aa849d46f01b1ed60029d6afb732ab65af3e53167a6:1263',
 'filter_map_projection/none-key': 'sha256[ok]:91eeceb4a1831a96119084deb38f7072ff0d6e3d04cfa91deef21ebb05289b3c:1270',
 'filter_map_projection/none-key-known': 'sha256[ok]:38087dd1defb7bd2760c0c16f2788e6e4b1ffda5de6d15870e0dbf740d2519a8:1392',
 'filter_map_projection/order': 'sha256[ok]:925ec5e4fdf72bfb7621b896f0f774c72b8e4932d59bc70c6948a540ba76d53a:1880',
 'filter_map_projection/ordered-dict': 'sha256[ok]:23f1aabb63054157d801866f3fa4c32df00d893337fcbcad5922f0be34e5c2bd:1382',
 'filter_map_projection/list': '((\'raises\', \'AttributeError\', "\'list\' object has no '
                               'attribute \'get\'"), (\'inputs-after\', (\'tuple\', [(\'list\', '
                               '[(\'tuple\', [(\'str\', "\'map_projection_designator\'"), '
                               '(\'str\', "\'UTM-X\'")])])]), (\'dict\', [])))',
 'filter_map_projection/none': '((\'raises\', \'AttributeError\', "\'NoneType\' object has no '
                               'attribute \'get\'"), (\'inputs-after\', (\'tuple\', '
                               "[('NoneType', 'None')]), ('dict', [])))",
 'filter_map_projection/string': '((\'raises\', \'AttributeError\', "\'str\' object has no '
                                 'attribute \'get\'"), (\'inputs-after\', (\'tuple\', [(\'str\', '
                                 '"\'map_projection_designator\'")]), (\'dict\', [])))',
 'transform_general_info/general-info': 'sha256[ok]:4f7b57c733a9223e3e48e9608b2da930d9b63766239807a312fbbedbc89c4d22:620',
 'transform_ellipsoid_parameters/general-info': 'sha256[ok]:440ec329ca47d6e18ce21ed4fbd9e151d51c4d7d025a5d7540c9ff8859403bd4:645',
 'transform_projection/general-info': 'sha256[ok]:440ec329ca47d6e18ce21ed4fbd9e151d51c4d7d025a5d7540c9ff8859403bd4:645',
 'transform_general_info/general-info-collision': '((\'ok\', (\'dict\', [((\'str\', "\'n_rows\'"), '
                                                  '(\'int\', \'2\')), ((\'str\', "\'n_columns\'"), '
                                                  "('int', '3'))])), ('inputs-after', ('tuple', "
                                                  '[(\'dict\', [((\'str\', "\'n_rows\'"), '
                                                  "('int', '1')), (('str', "
                                                  '"\'number_of_lines\'"), (\'int\', \'2\')), '
                                                  '((\'str\', "\'n_columns\'"), (\'int\', '
                                                  "'3'))])]), ('dict', [])))",
 'transform_ellipsoid_parameters/general-info-collision': 'sha256[ok]:2c58e68dc2c55c69b8ee7297b6b359df086339054953673b6c5bb9209d542cfc:323',
 'transform_projection/general-info-collision': 'sha256[ok]:2c58e68dc2c55c69b8ee7297b6b359df086339054953673b6c5bb9209d542cfc:323',
 'transform_general_info/ellipsoid': 'sha256[ok]:fb4fe6156b4900c0ea6b1851f55d4e58b641ae71d15e08ee4fa2a41f5c024916:809',
 'transform_ellipsoid_parameters/ellipsoid': 'sha256[ok]:a9efbb1c1b6f5a09214691d3d2301c232bca65f84d75975a983595019fbeac2b:611',
 'transform_projection/ellipsoid': 'sha256[ok]:fb4fe6156b4900c0ea6b1851f55d4e58b641ae71d15e08ee4fa2a41f5c024916:809',
 'transform_general_info/projection': 'sha256[ok]:b1b6b20ae89e6077d7176273c2a391accf869b6151623f32e188748e1190f924:1397',
 'transform_ellipsoid_parameters/projection': 'sha256[ok]:b1b6b20ae89e6077d7176273c2a391accf869b6151623f32e188748e1190f924:1397',
 'transform_projection/projection': 'sha256[ok]:bd223d874457bea4927c8f67d96251fdbf4f89161808dbfb3353d214be967e3c:943',
 'transform_general_info/utm': 'sha256[ok]:840fc3e41eb230faaf58500ac2c1636dfda6445814b51d615b4a186c6243cafd:387',
 'transform_ellipsoid_parameters/utm': 'sha256[ok]:840fc3e41eb230faaf58500ac2c1636dfda6445814b51d615b4a186c6243cafd:387',
 'transform_projection/utm': 'sha256[ok]:81095b1879918d5e579cd69f1c390403c84515d5917ff8fbb4066d5e4a28707b:316',
 'transform_general_info/empty': "(('ok', ('dict', [])), ('inputs-after', ('tuple', [('dict', "
                                 "[])]), ('dict', [])))",
 'transform_ellipsoid_parameters/empty': "(('ok', ('dict', [])), ('inputs-after', ('tuple', "
                                         "[('dict', [])]), ('dict', [])))",
 'transform_projection/empty': "(('ok', ('dict', [])), ('inputs-after', ('tuple', [('dict', [])]), "
                               "('dict', [])))",
 'transform_general_info/ordered-dict': 'sha256[ok]:4304c5f6ebf236c7cd9a33a5ccca360c39d194adf108bdbe34409e4b3077995f:335',
 'transform_ellipsoid_parameters/ordered-dict': 'sha256[ok]:9aafd5361f1152e001f94b3b00c88361108629e09522322ec633f5bbbe8387ca:301',
 'transform_projection/ordered-dict': 'sha256[ok]:cb5ef7ea255abe8b27e9b12a226895aa7df767198780b9ff6ebb81fbf883918e:303',
 'transform_general_info/int-keys': "(('ok', ('dict', [(('int', '1'), ('int', '2')), (('NoneType', "
                                    "'None'), ('int', '3'))])), ('inputs-after', ('tuple', "
                                    "[('dict', [(('int', '1'), ('int', '2')), (('NoneType', "
                                    "'None'), ('int', '3'))])]), ('dict', [])))",
 'transform_ellipsoid_parameters/int-keys': "(('ok', ('dict', [(('int', '1'), ('int', '2')), "
                                            "(('NoneType', 'None'), ('int', '3'))])), "
                                            "('inputs-after', ('tuple', [('dict', [(('int', '1'), "
                                            "('int', '2')), (('NoneType', 'None'), ('int', "
                                            "'3'))])]), ('dict', [])))",
 'transform_projection/int-keys': "(('ok', ('dict', [(('int', '1'), ('int', '2')), (('NoneType', "
                                  "'None'), ('int', '3'))])), ('inputs-after', ('tuple', [('dict', "
                                  "[(('int', '1'), ('int', '2')), (('NoneType', 'None'), ('int', "
                                  "'3'))])]), ('dict', [])))",
 'transform_general_info/list': '((\'raises\', \'AttributeError\', "\'list\' object has no '
                                'attribute \'keys\'"), (\'inputs-after\', (\'tuple\', [(\'list\', '
                                '[(\'tuple\', [(\'str\', "\'number_of_lines\'"), (\'int\', '
                                "'1')])])]), ('dict', [])))",
 'transform_ellipsoid_parameters/list': '((\'raises\', \'AttributeError\', "\'list\' object has no '
                                        'attribute \'items\'"), (\'inputs-after\', (\'tuple\', '
                                        "[('list', [('tuple', [('str', "
                                        '"\'number_of_lines\'"), (\'int\', \'1\')])])]), '
                                        "('dict', [])))",
 'transform_projection/list': '((\'raises\', \'AttributeError\', "\'list\' object has no attribute '
                              '\'items\'"), (\'inputs-after\', (\'tuple\', [(\'list\', '
                              '[(\'tuple\', [(\'str\', "\'number_of_lines\'"), (\'int\', '
                              "'1')])])]), ('dict', [])))",
 'transform_general_info/none': '((\'raises\', \'AttributeError\', "\'NoneType\' object has no '
                                'attribute \'keys\'"), (\'inputs-after\', (\'tuple\', '
                                "[('NoneType', 'None')]), ('dict', [])))",
 'transform_ellipsoid_parameters/none': '((\'raises\', \'AttributeError\', "\'NoneType\' object '
                                        'has no attribute \'items\'"), (\'inputs-after\', '
                                        "('tuple', [('NoneType', 'None')]), ('dict', [])))",
 'transform_projection/none': '((\'raises\', \'AttributeError\', "\'NoneType\' object has no '
                              'attribute \'items\'"), (\'inputs-after\', (\'tuple\', '
                              "[('NoneType', 'None')]), ('dict', [])))",
 'transform_general_info/string': '((\'raises\', \'AttributeError\', "\'str\' object has no '
                                  'attribute \'keys\'"), (\'inputs-after\', (\'tuple\', [(\'str\', '
                                  '"\'scale_factor\'")]), (\'dict\', [])))',
 'transform_ellipsoid_parameters/string': '((\'raises\', \'AttributeError\', "\'str\' object has '
                                          'no attribute \'items\'"), (\'inputs-after\', '
                                          '(\'tuple\', [(\'str\', "\'scale_factor\'")]), '
                                          "('dict', [])))",
 'transform_projection/string': '((\'raises\', \'AttributeError\', "\'str\' object has no '
                                'attribute \'items\'"), (\'inputs-after\', (\'tuple\', [(\'str\', '
                                '"\'scale_factor\'")]), (\'dict\', [])))',
 'transform_general_info/tuple': '((\'raises\', \'AttributeError\', "\'tuple\' object has no '
                                 'attribute \'keys\'"), (\'inputs-after\', (\'tuple\', '
                                 '[(\'tuple\', [(\'dict\', [((\'str\', "\'number_of_lines\'"), '
                                 "('int', '1'))]), ('dict', [])])]), ('dict', [])))",
 'transform_ellipsoid_parameters/tuple': '((\'raises\', \'AttributeError\', "\'tuple\' object has '
                                         'no attribute \'items\'"), (\'inputs-after\', (\'tuple\', '
                                         "[('tuple', [('dict', [(('str', "
                                         '"\'number_of_lines\'"), (\'int\', \'1\'))]), (\'dict\', '
                                         "[])])]), ('dict', [])))",
 'transform_projection/tuple': '((\'raises\', \'AttributeError\', "\'tuple\' object has no '
                               'attribute \'items\'"), (\'inputs-after\', (\'tuple\', [(\'tuple\', '
                               '[(\'dict\', [((\'str\', "\'number_of_lines\'"), (\'int\', '
                               "'1'))]), ('dict', [])])]), ('dict', [])))",
 'transform_corner_points/full': 'sha256[ok]:90ff17b7e3210fc6d5ea1f8feb9efbe514f4401f2c7cf2421da3924a66d019b5:4081',
 'transform_corner_points/identities/full': 'sha256[ok]:be36be49e50b258632bda46d0803b1c6b0d38a4b2045fa7b37e386e0977d7b14:3408',
 'transform_corner_points/reversed': 'sha256[ok]:562bff9f9cb80ed02f32372cc8c83a5f517bfc9924e955437aadd2046edf9f4a:4069',
 'transform_corner_points/identities/reversed': 'sha256[ok]:85a8ea1aac7847ebffacba213c5be927de1dcf277a6c6c4c4962ddd8532606e9:3402',
 'transform_corner_points/only-projected': 'sha256[ok]:064ff1151e3daf673208369c2786dc07e1669a0ee620fcd1fac53751dbbcc5d9:1801',
 'transform_corner_points/identities/only-projected': 'sha256[ok]:aa9fd151aeba05af981f7675ec631d631844728b7d5af0835c3ef2110bf66047:1551',
 'transform_corner_points/only-geographic': 'sha256[ok]:a1a4015cc87c7de61f1bc286b4c2be52098134fe1ba72c827bf115f6489f4673:1823',
 'transform_corner_points/identities/only-geographic': 'sha256[ok]:6104fda63e5fe213591a95cc1c30a3a59b99cd2e6f756149ef48f6bb9bdff46a:1569',
 'transform_corner_points/only-heights': 'sha256[ok]:95cad90870d6f2149809c17a03e9a60694378244b97e7597e5dc62a1579c7ede:613',
 'transform_corner_points/identities/only-heights': 'sha256[ok]:92772eec4f03c73d28b1a5c2c8ca92194cf72dd281e8c660a862a9ac3bbd7cd4:904',
 'transform_corner_points/empty': "(('ok', ('dict', [])), ('inputs-after', ('tuple', [('dict', "
                                  "[])]), ('dict', [])))",
 'transform_corner_points/identities/empty': 'sha256[ok]:26dc33ab9c31078543774c05bafc63eadd16e7e1d511e0459fe48eb0fefcca80:372',
 'transform_corner_points/other-kind': 'sha256[ok]:7c6caac0283c6dacfbc5914bf70f225ea693fe060057fe450ff30eabf67aaa30:3336',
 'transform_corner_points/identities/other-kind': 'sha256[ok]:08267e135212b49dad8ebe86f35f83fdab0b51ba270a39dc89eede9824a7338c:2656',
 'transform_corner_points/extra-corner-key': 'sha256[ok]:2c50e21a370fe541ca14b2c6d693eed7d85d4982f266e43051df05e4ffa06852:2028',
 'transform_corner_points/identities/extra-corner-key': 'sha256[ok]:2b2590176283b2ebe026287a320bc6de524f64a906837d9550f7b7a0644fd7e1:1778',
 'transform_corner_points/missing-corner': 'sha256[raises]:8a7d4343c327ea19902b4ecf2e907d2d9cf4c3f6b9e31da2d6d97be32038183e:921',
 'transform_corner_points/identities/missing-corner': 'sha256[raises]:8a7d4343c327ea19902b4ecf2e907d2d9cf4c3f6b9e31da2d6d97be32038183e:921',
 'transform_corner_points/no-corners': '((\'raises\', \'KeyError\', "\'top_left_corner\'"), '
                                       "('inputs-after', ('tuple', [('dict', [(('str', "
                                       '"\'projected\'"), (\'dict\', []))])]), (\'dict\', [])))',
 'transform_corner_points/identities/no-corners': "(('raises', 'KeyError', "
                                                  '"\'top_left_corner\'"), (\'inputs-after\', '
                                                  "('tuple', [('dict', [(('str', "
                                                  '"\'projected\'"), (\'dict\', []))])]), '
                                                  "('dict', [])))",
 'transform_corner_points/corner-collision': 'sha256[ok]:f32176cd2dea51a8ec47c1fa769213a0b00335de3e2e250224820079544a6cfe:1526',
 'transform_corner_points/identities/corner-collision': 'sha256[ok]:0b966fb5960c516adb69983b57a46a1d3d246cb282f0cf9e5f6f6ec360c258fe:1508',
 'transform_corner_points/ragged-corners': 'sha256[ok]:449c3d4b73b7a26ab56e80357f8344b28cb93ef54e9d49a5c6fd464c2251e587:1696',
 'transform_corner_points/identities/ragged-corners': 'sha256[ok]:94e126dca74d27d8a874fc7a0ef90664cd56edf227fd43ab93f9b5df913e2c9e:1460',
 'transform_corner_points/differing-attrs': 'sha256[ok]:e5ba9e8f5e831bfc9a0a9eb385088e9de202cae249e1aac319fd9b0839e1ae41:1168',
 'transform_corner_points/identities/differing-attrs': 'sha256[ok]:23b1eefc1f33306259d334ba8433843c4a8d26234ee9ca42b384911be1cef7cd:1126',
 'transform_corner_points/empty-points': 'sha256[ok]:10f0ea78d51de21906eac6b45ddc559f26d3ab182976a14b12cef43d8882832b:540',
 'transform_corner_points/identities/empty-points': 'sha256[ok]:253d481938019447c2446b9130700eacf341d9c6c9eb29ca46a16bfbddb33efa:704',
 'transform_corner_points/values-without-attrs': 'sha256[raises]:ea441d163a1efde331a32cde6049ec97c4e75895f313199930ad68779adc668d:510',
 'transform_corner_points/identities/values-without-attrs': 'sha256[raises]:ea441d163a1efde331a32cde6049ec97c4e75895f313199930ad68779adc668d:510',
 'transform_corner_points/values-empty-tuple': 'sha256[raises]:1ba49be0f69a42c4c064e6aed5e95b69d9b3f1fbdb7018d92b430d3d214798e4:516',
 'transform_corner_points/identities/values-empty-tuple': 'sha256[raises]:1ba49be0f69a42c4c064e6aed5e95b69d9b3f1fbdb7018d92b430d3d214798e4:516',
 'transform_corner_points/values-1-tuple': 'sha256[raises]:ced70a2391b8ec3446e33871b0349bdaba2903ee2a5450350c727af6796ca12d:580',
 'transform_corner_points/identities/values-1-tuple': 'sha256[raises]:ced70a2391b8ec3446e33871b0349bdaba2903ee2a5450350c727af6796ca12d:580',
 'transform_corner_points/values-3-tuple': 'sha256[raises]:90becda5257432696e7032dd1f1cde566dbc837d24ee52b0a0b65090a64015d2:683',
 'transform_corner_points/identities/values-3-tuple': 'sha256[raises]:90becda5257432696e7032dd1f1cde566dbc837d24ee52b0a0b65090a64015d2:683',
 'transform_corner_points/values-lists': 'sha256[ok]:4890ee09512ee975b9cd808604b4c4b65a47cdb24629fdb4fecba987c1ae3dc2:1162',
 'transform_corner_points/identities/values-lists': 'sha256[ok]:ebe80ca881224359fd8d6aff2a80c35f8cd2599e0babd1c7564a9b791b4aad10:1120',
 'transform_corner_points/points-not-dicts': 'sha256[raises]:7f793e75ad2dbaf652eb63caf666776a82dfa1908c6a3793788a2b1bbf18bc77:358',
 'transform_corner_points/identities/points-not-dicts': 'sha256[raises]:7f793e75ad2dbaf652eb63caf666776a82dfa1908c6a3793788a2b1bbf18bc77:358',
 'transform_corner_points/kind-not-dict': '((\'raises\', \'TypeError\', "\'int\' object is not '
                                          'subscriptable"), (\'inputs-after\', (\'tuple\', '
                                          '[(\'dict\', [((\'str\', "\'projected\'"), (\'int\', '
                                          "'1'))])]), ('dict', [])))",
 'transform_corner_points/identities/kind-not-dict': '((\'raises\', \'TypeError\', "\'int\' object '
                                                     'is not subscriptable"), (\'inputs-after\', '
                                                     "('tuple', [('dict', [(('str', "
                                                     '"\'projected\'"), (\'int\', \'1\'))])]), '
                                                     "('dict', [])))",
 'transform_corner_points/kind-list': "(('raises', 'TypeError', 'list indices must be integers or "
                                      "slices, not str'), ('inputs-after', ('tuple', [('dict', "
                                      '[((\'str\', "\'geographic\'"), (\'list\', [(\'int\', '
                                      "'1'), ('int', '2'), ('int', '3'), ('int', '4')]))])]), "
                                      "('dict', [])))",
 'transform_corner_points/identities/kind-list': "(('raises', 'TypeError', 'list indices must be "
                                                 "integers or slices, not str'), ('inputs-after', "
                                                 "('tuple', [('dict', [(('str', "
                                                 '"\'geographic\'"), (\'list\', [(\'int\', \'1\'), '
                                                 "('int', '2'), ('int', '3'), ('int', '4')]))])]), "
                                                 "('dict', [])))",
 'transform_corner_points/kind-none': '((\'raises\', \'TypeError\', "\'NoneType\' object is not '
                                      'subscriptable"), (\'inputs-after\', (\'tuple\', [(\'dict\', '
                                      '[((\'str\', "\'geographic\'"), (\'NoneType\', '
                                      "'None'))])]), ('dict', [])))",
 'transform_corner_points/identities/kind-none': '((\'raises\', \'TypeError\', "\'NoneType\' '
                                                 'object is not subscriptable"), '
                                                 "('inputs-after', ('tuple', [('dict', [(('str', "
                                                 '"\'geographic\'"), (\'NoneType\', '
                                                 "'None'))])]), ('dict', [])))",
 'transform_corner_points/heights-odd': 'sha256[ok]:70867da5a0efa1f71b5f607a4ade63830c964f3399b016d42b7cac2f942e3d79:1877',
 'transform_corner_points/identities/heights-odd': 'sha256[ok]:8d4107625e68c647ac002136221393e90df8676f58d5a48c44bb0f459ae08fe1:1627',
 'transform_corner_points/ordered-dict': 'sha256[ok]:cc91536f15eec6c1c839a7c6e3642124ffd139525aa31dd223aaa20b4459ca73:3561',
 'transform_corner_points/identities/ordered-dict': 'sha256[ok]:5607651c886e70536fb271b246ff71d3b61cd57d81bbd44758d56b56ec888c3e:2888',
 'transform_corner_points/list': 'sha256[raises]:07b279b24824649a7b5e1cea574509f2dad8fa403bae5b0d89eaf8c9931a2518:1217',
 'transform_corner_points/identities/list': 'sha256[raises]:07b279b24824649a7b5e1cea574509f2dad8fa403bae5b0d89eaf8c9931a2518:1217',
 'transform_corner_points/none': '((\'raises\', \'AttributeError\', "\'NoneType\' object has no '
                                 'attribute \'items\'"), (\'inputs-after\', (\'tuple\', '
                                 "[('NoneType', 'None')]), ('dict', [])))",
 'transform_corner_points/identities/none': '((\'raises\', \'AttributeError\', "\'NoneType\' '
                                            'object has no attribute \'items\'"), '
                                            "('inputs-after', ('tuple', [('NoneType', 'None')]), "
                                            "('dict', [])))",
 'transform_corner_points/string': '((\'raises\', \'AttributeError\', "\'str\' object has no '
                                   'attribute \'items\'"), (\'inputs-after\', (\'tuple\', '
                                   '[(\'str\', "\'projected\'")]), (\'dict\', [])))',
 'transform_corner_points/identities/string': '((\'raises\', \'AttributeError\', "\'str\' object '
                                              'has no attribute \'items\'"), (\'inputs-after\', '
                                              '(\'tuple\', [(\'str\', "\'projected\'")]), '
                                              "('dict', [])))",
 'transform_corner_points/int-key': 'sha256[ok]:09425cf6fb0f44f6a142fb7f61adc61a094288abc946adbb9f9b7670bd11bc29:1586',
 'transform_corner_points/identities/int-key': 'sha256[ok]:988db55bace2d6561dc852942a59af2b0717a7dd215b2f12981f4c1a4ab43a8f:1454',
 'transform_conversion_coefficients/full': 'sha256[ok]:0fc843cc3872604e87e2fd7b87f66ce0a73103b1c4039833e137f7187db02d7e:2163',
 'transform_conversion_coefficients/reversed': 'sha256[ok]:adfe5c77ef01599d358c9995d88b44dc07725e0d6677b2ea7d2dd46f3eb171df:1907',
 'transform_conversion_coefficients/one': 'sha256[ok]:108812472b729ed1239f2156d7d3ae6752c3313af95b75d75e48f8f3521837a6:474',
 'transform_conversion_coefficients/other-key': 'sha256[ok]:a573c51aedfdef31fd7a51ee4ed56a5dee3d43a9be42aae5d19cc5aaed5c7bf6:590',
 'transform_conversion_coefficients/collision': 'sha256[ok]:586d0721aa30d4d3b37598d7abb52524eba7917573f180a85bdc063fcb812c31:1370',
 'transform_conversion_coefficients/collision-reversed': 'sha256[ok]:41831699723b4be5c28b5e8236377f4583185adb20e05ed8f0791eb1006dbaef:1370',
 'transform_conversion_coefficients/empty': "(('ok', ('dict', [])), ('inputs-after', ('tuple', "
                                            "[('dict', [])]), ('dict', [])))",
 'transform_conversion_coefficients/empty-coefficients': "(('raises', 'ValueError', 'not enough "
                                                         "values to unpack (expected 2, got 0)'), "
                                                         "('inputs-after', ('tuple', [('dict', "
                                                         "[(('str', "
                                                         '"\'map_projection_to_pixels\'"), '
                                                         "('tuple', [('dict', []), ('dict', "
                                                         "[])]))])]), ('dict', [])))",
 'transform_conversion_coefficients/no-attrs': '((\'raises\', \'AttributeError\', "\'str\' object '
                                               'has no attribute \'items\'"), (\'inputs-after\', '
                                               "('tuple', [('dict', [(('str', "
                                               '"\'map_projection_to_pixels\'"), (\'dict\', '
                                               '[((\'str\', "\'A11\'"), (\'float\', \'1.0\')), '
                                               '((\'str\', "\'A12\'"), (\'float\', '
                                               "'2.0'))]))])]), ('dict', [])))",
 'transform_conversion_coefficients/1-tuple': "(('raises', 'ValueError', 'not enough values to "
                                              "unpack (expected 2, got 1)'), ('inputs-after', "
                                              "('tuple', [('dict', [(('str', "
                                              '"\'map_projection_to_pixels\'"), (\'tuple\', '
                                              '[(\'dict\', [((\'str\', "\'A11\'"), (\'float\', '
                                              "'1.0'))])]))])]), ('dict', [])))",
 'transform_conversion_coefficients/3-tuple': "(('raises', 'ValueError', 'too many values to "
                                              "unpack (expected 2)'), ('inputs-after', ('tuple', "
                                              "[('dict', [(('str', "
                                              '"\'map_projection_to_pixels\'"), (\'tuple\', '
                                              '[(\'dict\', [((\'str\', "\'A11\'"), (\'float\', '
                                              "'1.0'))]), ('dict', []), ('dict', [])]))])]), "
                                              "('dict', [])))",
 'transform_conversion_coefficients/list-entry': 'sha256[ok]:74357f99307d6ad09987b21b188ac432747631cc05caa92e845f9adf2474a2f6:533',
 'transform_conversion_coefficients/raw-not-dict': '((\'raises\', \'AttributeError\', "\'list\' '
                                                   'object has no attribute \'items\'"), '
                                                   "('inputs-after', ('tuple', [('dict', [(('str', "
                                                   '"\'map_projection_to_pixels\'"), (\'tuple\', '
                                                   "[('list', [('float', '1.0'), ('float', "
                                                   "'2.0')]), ('dict', [])]))])]), ('dict', [])))",
 'transform_conversion_coefficients/attrs-none': 'sha256[ok]:267e84cba0d40552aa5354b43a2499b084738d7b595fb5f3e900e63f3c5e5cd2:490',
 'transform_conversion_coefficients/entry-int': "(('raises', 'TypeError', 'cannot unpack "
                                                "non-iterable int object'), ('inputs-after', "
                                                "('tuple', [('dict', [(('str', "
                                                '"\'map_projection_to_pixels\'"), (\'int\', '
                                                "'1'))])]), ('dict', [])))",
 'transform_conversion_coefficients/entry-none': "(('raises', 'TypeError', 'cannot unpack "
                                                 "non-iterable NoneType object'), ('inputs-after', "
                                                 "('tuple', [('dict', [(('str', "
                                                 '"\'pixels_to_map_projection\'"), (\'NoneType\', '
                                                 "'None'))])]), ('dict', [])))",
 'transform_conversion_coefficients/mixed-values': 'sha256[ok]:27b87dd2d3ae22420f44034cd06747440ab9addf23404cf3dc7d5c826ab80d7b:634',
 'transform_conversion_coefficients/ordered-dict': 'sha256[ok]:309630ed696d1dd1cfca8097c9decff6248b487afba8a73a76ed243a50133d7d:562',
 'transform_conversion_coefficients/list': '((\'raises\', \'AttributeError\', "\'list\' object has '
                                           'no attribute \'keys\'"), (\'inputs-after\', '
                                           "('tuple', [('list', [('tuple', [('str', "
                                           '"\'map_projection_to_pixels\'"), (\'tuple\', '
                                           "[('dict', []), ('dict', [])])])])]), ('dict', [])))",
 'transform_conversion_coefficients/none': '((\'raises\', \'AttributeError\', "\'NoneType\' object '
                                           'has no attribute \'keys\'"), (\'inputs-after\', '
                                           "('tuple', [('NoneType', 'None')]), ('dict', [])))",
 'transform_conversion_coefficients/string': '((\'raises\', \'AttributeError\', "\'str\' object '
                                             'has no attribute \'keys\'"), (\'inputs-after\', '
                                             '(\'tuple\', [(\'str\', "\'abc\'")]), (\'dict\', '
                                             '[])))',
 'transform_map_projection/full': 'sha256[ok]:95c10372f8ac73201dba6a6d00f816d1f889644284080460f2d1d1b511df3356:9561',
 'transform_map_projection/reversed': 'sha256[ok]:93637ec6eedcceb6634642cfca3cc6eef2a27f9b88d38b6c0f170cbdb34ea12a:9561',
 "transform_map_projection/designator['UPS-X']": 'sha256[ok]:62911c22fec28505e2cd758abb57e16cb25a9610a6ff37ce66eb03bde4864553:9554',
 "transform_map_projection/designator['LCC-X']": 'sha256[ok]:76d6435bbd058c96e46e913ab8a86560301985de9a1450721d785514fd1618f2:9742',
 "transform_map_projection/designator['mer-x']": 'sha256[ok]:d235fd18c215e4ce706c828888672c430bfab397eccbeeff23dc64a0f2dcd359:9742',
 "transform_map_projection/designator['XYZ-X']": 'sha256[ok]:49e6ad3562ccbebfc0bc7299a2be4be0aaa611bb61367966dc0a7cb0f49c141a:9393',
 "transform_map_projection/designator['UTM']": 'sha256[raises]:24e03fec07222e2745c20fe7aa82ad322bf2ab5bcd09e160fdbe2be797b103e8:5869',
 "transform_map_projection/designator['']": 'sha256[raises]:5d2a09a028c978b4764d13271f7be28dbd899767e9a3e19995e64c239bb538ee:5866',
 'transform_map_projection/designator[None]': 'sha256[ok]:0512b47a14d82e044a51eccf4b553ccc3617be7b3310ed7b2178323f597bf265:11015',
 'transform_map_projection/designator[5]': 'sha256[raises]:8987df124a790b814ce182de1fe9a86ff2daaf080846c29e8bd9f1a6963a5178:5859',
 'transform_map_projection/no-designator': 'sha256[ok]:b3218a16b2b35ee7a4d0bcfaf6f2fd05e1ee1b178ee24d55a01f8945c1f4784e:10889',
 'transform_map_projection/no-corner-points': 'sha256[ok]:42e909ec6be28b6f3c8c0de762a892d9d5f7a80360331fc53b14e1363196981b:5329',
 'transform_map_projection/no-coefficients': 'sha256[ok]:13269e8d089d1b4f28d303e37ad0291c731bc1f8f8e5ed85a7bd52200eb7abc1:7188',
 'transform_map_projection/no-sections': 'sha256[ok]:479ab7bda849ed54b32d234bffd17d34d8e97be267e5caf7f98c923ed21e100d:8360',
 'transform_map_projection/only-preamble': "(('ok', ('Group', '/', None, ('dict', []), [])), "
                                           "('inputs-after', ('tuple', [('dict', [(('str', "
                                           '"\'preamble\'"), (\'dict\', []))])]), (\'dict\', [])))',
 'transform_map_projection/empty': "(('ok', ('Group', '/', None, ('dict', []), [])), "
                                   "('inputs-after', ('tuple', [('dict', [])]), ('dict', [])))",
 'transform_map_projection/projection-collision': 'sha256[ok]:17dd92ffe9897da6465a3aea539cf35b3ca3cb3ae76832ad839bdd78aad0c3f4:9604',
 'transform_map_projection/translation-collision': 'sha256[ok]:c375652b028fb87969d7a0c48b168c1e800807ec0f4255412055e57b5d436e54:9227',
 'transform_map_projection/spares-everywhere': 'sha256[ok]:06bad2f8cf096bc534cfddf2ce8f3a32144ab971bc613f619db60911b0b5760e:9801',
 'transform_map_projection/corner-points-bad': 'sha256[raises]:b5af3ffaa5ece52e1c43555544f1bbdbb0694286684b511176b67912a1135293:3183',
 'transform_map_projection/coefficients-bad': 'sha256[raises]:e64c44088ac5c5a4e838bb705909fe1d6d252d5d19e04b81061b42608ecc9f9c:5028',
 'transform_map_projection/general-info-bad': 'sha256[raises]:9b33251623950a85ef08a751e6673773d644b5ecb2ebe10f976058ea6f9944cd:5604',
 'transform_map_projection/extra-entries': 'sha256[ok]:03d657d140fa864c3281b82c6862a6abf69633fbd010c7b9b44814185460c9ed:10139',
 'transform_map_projection/ordered-dict': 'sha256[ok]:823b1b6afeba0022b3e33b63fa5570040204e1c6001b91d4328127f74c189acc:9568',
 'transform_map_projection/list': 'sha256[raises]:07808401b01b7a607db6d5cca32aacd16df14ac8b56bc6c2412d2c1896207a8d:5887',
 'transform_map_projection/tuple': 'sha256[raises]:54a750d719d220d86c9518b3bb96e0d69594dabac036a945f4c3604ee81520f3:5903',
 'transform_map_projection/none': '((\'raises\', \'AttributeError\', "\'NoneType\' object has no '
                                  'attribute \'items\'"), (\'inputs-after\', (\'tuple\', '
                                  "[('NoneType', 'None')]), ('dict', [])))",
 'transform_map_projection/string': '((\'raises\', \'AttributeError\', "\'str\' object has no '
                                    'attribute \'items\'"), (\'inputs-after\', (\'tuple\', '
                                    '[(\'str\', "\'preamble\'")]), (\'dict\', [])))',
 'transform_map_projection/int-key': '((\'raises\', \'AttributeError\', "\'int\' object has no '
                                     'attribute \'startswith\'"), (\'inputs-after\', (\'tuple\', '
                                     "[('dict', [(('int', '1'), ('int', '2'))])]), ('dict', [])))",
 'transform_map_projection/identities': 'sha256[ok]:1d507894722db67b8722c6f32de921705256f0c9b77a30a0825e40b22c79f0e4:10384',
 'records/0/0.0/transform_map_projection': 'sha256[ok]:5aafc018bbd1194a13e648ca529d430f8bd3d93ff22a135d769bf692e78df70d:16821',
 'records/0/0.0/filter_map_projection': 'sha256[ok]:927e21db8e38ef27b7c0f3d141f3a2deeacf1ac90ad4eab81fc5c998f3478020:18812',
 'records/0/0.0/transform_corner_points': 'sha256[ok]:a0f2b88980f53b66bcc1fe16e5be23ecbdb241afb4cd8adb70fa73d9821870eb:4293',
 'records/0/0.0/transform_conversion_coefficients': 'sha256[ok]:99cea16696c8b9ea606c536859d168d3a03eaa307840af91a62fce95121f8bbe:3299',
 'records/0/0.0/transform_general_info': 'sha256[ok]:ff25fbe407a833a91bedb59d4fe8ca2c3dc41fbabb86886adf36140e8dbaa598:3050',
 'records/0/0.0/transform_metadata/0': 'sha256[ok]:60f127efe2aa30de8ab42aa486d2ab7708fd8a9473b1a3978f803f7f19a16a6b:102381',
 'records/0/0.0/transform_metadata/1': 'sha256[ok]:68821f38d3716e780d13f1309d2feb33f2814201895d04acfe642d376fb8e0a4:119342',
 'records/0/0.0/transform_metadata/2': 'sha256[ok]:53b4a7f1cf30d565c7e454e73aa33ce60f133d52c506f6e417a6a47310e54449:129787',
 'records/0/0.2/transform_map_projection': 'sha256[ok]:084bd533321efed528e1a12d4216698571b1b4f332713b969032374dc4a1af5d:16662',
 'records/0/0.2/filter_map_projection': 'sha256[ok]:7f7ce30b79b5af32bc2598432a6f6249beb1f8db2bf8f4d3165d1058e037f132:18614',
 'records/0/0.2/transform_corner_points': 'sha256[ok]:78164834bddb8e7702610bf4cb193116c4bcc85aa930394465e7b47e41a24247:4272',
 'records/0/0.2/transform_conversion_coefficients': 'sha256[ok]:cfcb2b635bb7fd3cb6ebec79061b47664171a755ae3e1976536fac909f4938df:3259',
 'records/0/0.2/transform_general_info': 'sha256[ok]:803413d1de16550415817bb35ac28a6e9fb751d58335cf3d0f131e36c693e4e3:3034',
 'records/0/0.2/transform_metadata/0': 'sha256[ok]:5a9fee2495c11ba5ba09b05e95b538b66c04c60f80692b3ada1b831a4fdc9a3b:100819',
 'records/0/0.2/transform_metadata/1': 'sha256[ok]:5adb5d31102d6d0ee55cf747ae58c39eb6957b99411eb6db750e013aa1c3cc5d:117621',
 'records/0/0.2/transform_metadata/2': 'sha256[ok]:a31c3d8f4811e2d0a09bdb0a5920cae4544d47ef7a4984d0584e4d16fb50cf56:127956',
 'records/1/0.0/transform_map_projection': 'sha256[ok]:0cf25c5d83c073071d6d59b412809eb6350e7ae67c255b3df0f51db41d5682cd:16788',
 'records/1/0.0/filter_map_projection': 'sha256[ok]:afc5c0d9456d16f137df487a4e70ccb31b71faefd4cc1362357578cc2925a3a4:18414',
 'records/1/0.0/transform_corner_points': 'sha256[ok]:3ac757c5b995be1392c217b9e9bfe2a02cce171ca9cf0bb484bce0742a8cfc43:4299',
 'records/1/0.0/transform_conversion_coefficients': 'sha256[ok]:db18e6589b6a96bf2d295c1ab217bf4ba3365053e88d04f823700f03c56ed0dc:3303',
 'records/1/0.0/transform_general_info': 'sha256[ok]:958121724ae10320830ebe9ad96cccbcaafccf2429ffc8f1b9c93962c4948ad5:3058',
 'records/1/0.0/transform_metadata/0': 'sha256[ok]:1cce2f0385e72480597637006af709b7eb1519b2d1ff0585a8974e92d3d040dc:102399',
 'records/1/0.0/transform_metadata/1': 'sha256[ok]:e51f25ebf4f0eb1970428a2056468912870b6b6cbfa083e735fca40e2aa3b09c:119327',
 'records/1/0.0/transform_metadata/2': 'sha256[ok]:120f7199e95db79091122ef3363ee48ef574fa4e6d921d29254e0a4b4c9b3293:129770',
 'records/1/0.2/transform_map_projection': 'sha256[ok]:913860a539df5e548febada9232c8fae0c7db404efabe9fec82380d7e1814940:16600',
 'records/1/0.2/filter_map_projection': 'sha256[ok]:120ac03b133155b9edbce205553495b07b39032b11952f1f48049be6aabc01a4:18215',
 'records/1/0.2/transform_corner_points': 'sha256[ok]:23b7b30ea1d37be351071c2edc9365cd6d5f0552b3461daf2be85dfe622e0a54:4234',
 'records/1/0.2/transform_conversion_coefficients': 'sha256[ok]:a5e436d05b0c69fed4f5bac9174df08140e0b2380029be6808844bb4d5ab0c70:3245',
 'records/1/0.2/transform_general_info': 'sha256[ok]:02bb2d9eedb1302cb7d21650a7f0412a7c94b362302fef4fdb45d92af8f324df:3032',
 'records/1/0.2/transform_metadata/0': 'sha256[ok]:e85097ab01923945784aca3cf1dc3a5413d18998fbd7cc26cd45d6580e472579:100875',
 'records/1/0.2/transform_metadata/1': 'sha256[ok]:68e9131d8a4d3307e32de0d80b9eb7b1640bd6cc10d88016b0c6120513cb2d8e:117615',
 'records/1/0.2/transform_metadata/2': 'sha256[ok]:8db5cbc6b1f3b65fb020f3b6bc78706c018086e997c857850e1c2e0aa7c7ca8a:127944',
 'records/2/0.0/transform_map_projection': 'sha256[ok]:34ff2993d05bd04d3655f435f74f530ff979511c2f050b3b464aa4a42182e730:17033',
 'records/2/0.0/filter_map_projection': 'sha256[ok]:f74eacde0117f1e631875ce2d3b5aa6b658cb0a8aadc58a93d995ff05251c862:19527',
 'records/2/0.0/transform_corner_points': 'sha256[ok]:3d9630e3fe1581725ffcdf042393589ac304048c0d518cd02c51941187bb2f13:4286',
 'records/2/0.0/transform_conversion_coefficients': 'sha256[ok]:e8a6a54b14d4811d87b72100cdcf23a484dda3741745a933afbc13759932416b:3301',
 'records/2/0.0/transform_general_info': 'sha256[ok]:55706d835931fe9b39a642cc76192dfbad89f08ce08549590936006d01ca7b20:3030',
 'records/2/0.0/transform_metadata/0': 'sha256[ok]:139146c1b2a50fa8077fc2dd9bbea4b313951231563f33cec36b8593090ff775:102419',
 'records/2/0.0/transform_metadata/1': 'sha256[ok]:2615ca4b58307021dc2b53140ce5161929a3bd5fd656051ffbf2ed9caa64bf76:119607',
 'records/2/0.0/transform_metadata/2': 'sha256[ok]:d430f944cca823371c5f66858f8f7fff8e86c7bf8359ed3034870b894586934e:130012',
 'records/2/0.2/transform_map_projection': 'sha256[ok]:d975d8f0b6c9517c8b727766622aa3dbe52f4f060f1e41ff8e5fbe19f43719d0:16918',
 'records/2/0.2/filter_map_projection': 'sha256[ok]:9853ecc6d33facba9b81b00b812af7749bce3206dc044f31b526b173b59bbdc5:19405',
 'records/2/0.2/transform_corner_points': 'sha256[ok]:c8f413ffe4bd8a7d74326954127211bb63c3d3f0fc3e0aa2c2e0ecc5d3a91d49:4260',
 'records/2/0.2/transform_conversion_coefficients': 'sha256[ok]:bc045930b127daec20eea3d7ac2b7aab2605ae0ccd4fa97e66a923975fc535ca:3237',
 'records/2/0.2/transform_general_info': 'sha256[ok]:6b5ec370bb79e5c32725b3dafdc106d34a6c98417f3b79437e071d98e6e13468:3044',
 'records/2/0.2/transform_metadata/0': 'sha256[ok]:7052860c6dae4924225ddbd53f70cf1f484b2b82949f5e3ff61ac32cc5c05e5b:100951',
 'records/2/0.2/transform_metadata/1': 'sha256[ok]:5b883eb3fa771e66ac11ae76f15ce97e4d1ae2523bfa1c0e50f3afa56c057743:118024',
 'records/2/0.2/transform_metadata/2': 'sha256[ok]:3ef7649a2a805a042f3cd4e15118b458d6120e38c8dcb38566d43f0d40558d73:128359',
 'records/3/0.0/transform_map_projection': 'sha256[ok]:bfb837ac00160f33d241187fceaf50750a96ac13cc433fa57c99b4e85f48764c:17048',
 'records/3/0.0/filter_map_projection': 'sha256[ok]:7a5bc08ee8c5e5aacd5a9a5954dfcfd3624af2dab328b9e014b8706f1467ddc1:19549',
 'records/3/0.0/transform_corner_points': 'sha256[ok]:4a6e94209b1c60339a8fa43db9f1a83d7f8b38175e253996ae8d882923ade9b6:4293',
 'records/3/0.0/transform_conversion_coefficients': 'sha256[ok]:d063f0a9e6763d78a382968e96831d78dfadbec3c6bbc8eccfb72823fccb8256:3289',
 'records/3/0.0/transform_general_info': 'sha256[ok]:ea6a9aaf438be7f310f39d8519f9dd94ad0537445727edb7481767a615a12134:3044',
 'records/3/0.0/transform_metadata/0': 'sha256[ok]:8a692299545b13bf2e430b7161573bb33f98650d1069d0f3d1965813cd17c91e:102244',
 'records/3/0.0/transform_metadata/1': 'sha256[ok]:95a338dd162af710aba2487f3c7933f30717acb2a141d2feaf777c50cffc2c04:119447',
 'records/3/0.0/transform_metadata/2': 'sha256[ok]:6078db6fa7bf7a385ccf44e1d31231c9a4898adeb38d48ac3106c7bbba24d6fd:129858',
 'records/3/0.2/transform_map_projection': 'sha256[ok]:8c6c9c4b18b18243ddde836e23ea6e2a0e1a2cadf8cdb9e9c92ca52d5d4a02ec:16866',
 'records/3/0.2/filter_map_projection': 'sha256[ok]:427a984dd276600d220fad45d5238f292457b70450229483eba35cfb030849ee:19352',
 'records/3/0.2/transform_corner_points': 'sha256[ok]:9f4db53662ae8349b37ec2f48b451063cc183587094a42f81a70f6e9681ceba7:4244',
 'records/3/0.2/transform_conversion_coefficients': 'sha256[ok]:c84c60c2b89f8cf566cd4eea39d81b7d0b9a6aaf4f3bbfc48df6e96ef51e3d5a:3255',
 'records/3/0.2/transform_general_info': 'sha256[ok]:0e3320869d56129996bd96ea4f936389775a3584d68d2c5688502a188f798ba2:2994',
 'records/3/0.2/transform_metadata/0': 'sha256[ok]:7599c7d5c269a4fa5a39371548fc459a79811f544a924307d635b8f59c4fdcf8:100918',
 'records/3/0.2/transform_metadata/1': 'sha256[ok]:9436f7361b179e46f5ea2fd9db010e552f370c1b83621f28322991f4c1a6e646:117939',
 'records/3/0.2/transform_metadata/2': 'sha256[ok]:44749867795f581e355ff879d91962c7e218c53be5f9078fb3c7f40229b5a448:128251',
 'records/4/0.0/transform_map_projection': 'sha256[ok]:a2f22af4ee70725f06730acf05d4a250d1ecb748d0c27e0ea86b718cfbcb4503:16838',
 'records/4/0.0/filter_map_projection': 'sha256[ok]:734403f9462f667744fd36a33bfae0edcfb89dfacc2b025f49b145b7b0f575de:18839',
 'records/4/0.0/transform_corner_points': 'sha256[ok]:72a62cf8856770e72ea2e1acd0c12f245dfc60a15d790b136a58ef83c7a06424:4309',
 'records/4/0.0/transform_conversion_coefficients': 'sha256[ok]:2e19f5569d545f73421f361b94004cadd0f34c934eab459274f1494c4d2ec145:3297',
 'records/4/0.0/transform_general_info': 'sha256[ok]:92fb80471e3077d446827f4b6a1dcfc602048542a47473f0b471cff60222c697:3052',
 'records/4/0.0/transform_metadata/0': 'sha256[ok]:70c09f40460b86fe1f10a1e49de94206390c7c1489544563baaa18ec6ce3a0e0:102344',
 'records/4/0.0/transform_metadata/1': 'sha256[ok]:d6f0c15949b09f88b9902da6bb1db9eeb934e9f953f294559a4281966d915595:119322',
 'records/4/0.0/transform_metadata/2': 'sha256[ok]:657cc5cb9ca874d8501c51e4cc3d9d9a8903bf977d9aebb913a8d781e9472ceb:129780',
 'records/4/0.2/transform_map_projection': 'sha256[ok]:9709060969389da7b57b18f41cdf7136955fa6aace6a7aafbedc1446554a8b7e:16664',
 'records/4/0.2/filter_map_projection': 'sha256[ok]:6d3e051725d9e3516059c3c330fc1afb4d1894e3070cd1d0e17712b2d60682b2:18636',
 'records/4/0.2/transform_corner_points': 'sha256[ok]:837c03f5d779c52bdf205182d70eae4ee87b2191f1c134f580c781eb9b174999:4299',
 'records/4/0.2/transform_conversion_coefficients': 'sha256[ok]:838882a4b78f4b423cc2e6a27aaa683b3156519f552fa2d645233e2ff9141ca6:3253',
 'records/4/0.2/transform_general_info': 'sha256[ok]:e7939df5bde41efab9dae60d3b9c8e92f05d5ea61f5dc6afc2fb95a3f298d2ab:3008',
 'records/4/0.2/transform_metadata/0': 'sha256[ok]:25e980aaa9e06502e8c9e9e5541f070a7916ce63878720671b6f5c1740978b50:100976',
 'records/4/0.2/transform_metadata/1': 'sha256[ok]:e156b37d26bf4762c89e7fce2472f9e21e56271d4f20351cb6edc556e2b7a6fc:117780',
 'records/4/0.2/transform_metadata/2': 'sha256[ok]:832edd7eb259cca5c9bf473f87c1447a1be8ef0a1a8eced281babecdb2de5e74:128125',
 'records/5/0.0/transform_map_projection': 'sha256[ok]:f98e6e0e1b8f593fed2e4ac53d81bd9c852f4a400eeba2a7fa8a1ef2734fb4bf:16212',
 'records/5/0.0/filter_map_projection': 'sha256[ok]:debf4fbfb93829c67f3d96546a49fdc602498730c1c45fb576a97ee9c68f2d9f:17951',
 'records/5/0.0/transform_corner_points': 'sha256[ok]:ce4ff36e339d37eff88826f81248ecb4e9b2e7b7389b14aa4f4090f90ce60dbc:4291',
 'records/5/0.0/transform_conversion_coefficients': 'sha256[ok]:6ac55662653bc742e6d738ce1c82b1947ab9716426bff64833a832a06d34bc46:3307',
 'records/5/0.0/transform_general_info': 'sha256[ok]:ad6912d3606ca44052cb9c5a8db902a975a313fb21d7a3c397e8ef7cb615a8a3:3050',
 'records/5/0.0/transform_metadata/0': 'sha256[ok]:33ecd6f36651f649f83d06b2fda6841d73e0d66547d1a7b6686d053b439f9ab4:102300',
 'records/5/0.0/transform_metadata/1': 'sha256[ok]:1efa630da49905e76457859e1d73dc9c88b553edbbd1a5139c8a4da56670b8d8:118622',
 'records/5/0.0/transform_metadata/2': 'sha256[ok]:dfadede2b8995dc0cebacfb7950436029af763751f36ecfcf2a05ac33b0123bb:129041',
 'records/5/0.2/transform_map_projection': 'sha256[ok]:ba43f82d4bb416c81a6b0bc4015df9e96e1466a0a2d06c404149fd5c73008d01:16064',
 'records/5/0.2/filter_map_projection': 'sha256[ok]:2ccd977165edc0594949bfa843bb8222f597552cf86d61ff4d284d8639225d06:17774',
 'records/5/0.2/transform_corner_points': 'sha256[ok]:64a09a4ca3cc4bd287f742adccd3ba41ce3f11d935a897eb0f28227bc8484217:4245',
 'records/5/0.2/transform_conversion_coefficients': 'sha256[ok]:860fc2dec5f8769f5a507c3eaaf215d32a56c8ddbd11d139d97a572ab6bbcfff:3279',
 'records/5/0.2/transform_general_info': 'sha256[ok]:51902da1d4314123b01bdecb12b54c1df139b5b1128157123c87299bbf7d1ba3:3032',
 'records/5/0.2/transform_metadata/0': 'sha256[ok]:c2c6ec01dcf424e49b9cb29e38b79e6ca5982e89a591b537df85cf180f74f133:100887',
 'records/5/0.2/transform_metadata/1': 'sha256[ok]:dc3c97e67529724aa8d21a5aa804332b4428e35647dca8313d682dccb7636cf4:117061',
 'records/5/0.2/transform_metadata/2': 'sha256[ok]:3b2ab6ab52f6527fba8294a223567d6852d5ddd83ab2c773471c98ecbfd562ff:127378',
 'records/6/0.0/transform_map_projection': 'sha256[raises]:f1f2b66a0fd091b4e239d8578b9f5f4ae2456db8970839e7def0cd3f2bea4f3c:10534',
 'records/6/0.0/filter_map_projection': 'sha256[raises]:f1f2b66a0fd091b4e239d8578b9f5f4ae2456db8970839e7def0cd3f2bea4f3c:10534',
 'records/6/0.0/transform_corner_points': 'sha256[ok]:987d42118505b89123de3cde06d0dfd0b76f6ee426c587d04f0703c42abb4f04:4295',
 'records/6/0.0/transform_conversion_coefficients': 'sha256[ok]:1b8906e0b1179bec9abf375897f824396582c00bc02170f4f0afa110f6b77641:3291',
 'records/6/0.0/transform_general_info': 'sha256[ok]:8797a5c921244d3a668a190fc312868fa36dfbaccac43d4d7abd42e5b26dd564:3038',
 'records/6/0.0/transform_metadata/0': 'sha256[ok]:1d01033fcfe3fba390e64ad4c9142e07a2ec9a79155f67bf9c1cd520b0a34875:102344',
 'records/6/0.0/transform_metadata/1': 'sha256[raises]:3e14467ac3a342cef2b2d6b4eeacc911b0ea9b337a58ac44a4ca7d9a54170e71:76643',
 'records/6/0.0/transform_metadata/2': 'sha256[raises]:2a95c6e8d8f45239bd570c16eab6448d52f26dbf7b007ffb42a7336c22b1a16b:87055',
 'records/6/0.2/transform_map_projection': 'sha256[raises]:66a2da1f0e32be059b47d6f2396453140c22b648e6e8c2b91e0d6e9148262b32:10358',
 'records/6/0.2/filter_map_projection': 'sha256[raises]:66a2da1f0e32be059b47d6f2396453140c22b648e6e8c2b91e0d6e9148262b32:10358',
 'records/6/0.2/transform_corner_points': 'sha256[ok]:312b774335b132b5bc39c6545d3f78e30e9e5c5ffe759d92e110fe23e4133c3b:4190',
 'records/6/0.2/transform_conversion_coefficients': 'sha256[ok]:7678f4389132b5608590945872ac59a9410ea1f9d6c15ae5a44228bba4311c79:3241',
 'records/6/0.2/transform_general_info': 'sha256[ok]:8bd8e6cfac6fb4ea276a4e9f965a741a78372bade741e8096c45f4dac410f221:3024',
 'records/6/0.2/transform_metadata/0': 'sha256[ok]:a4b238c8ef37ff4229d3ac641f5926319a766ae2ef02f9f24e8ae10caea1d04a:101154',
 'records/6/0.2/transform_metadata/1': 'sha256[raises]:7988ecc4d1b313f5bd3091377d07d093764b3dec92e5ab336f7c0c9034269cc6:75824',
 'records/6/0.2/transform_metadata/2': 'sha256[raises]:2584f708a4a9aa2923d3ae7315492369081faa64559583ade9ef3c7a514cead7:86060',
 'records/7/0.0/transform_map_projection': 'sha256[raises]:1d6cb379dfbf933169c8bca76793d13938ee467663a33b289f32327f48857913:10539',
 'records/7/0.0/filter_map_projection': 'sha256[raises]:1d6cb379dfbf933169c8bca76793d13938ee467663a33b289f32327f48857913:10539',
 'records/7/0.0/transform_corner_points': 'sha256[ok]:7e8362d83f15d246fe4984a9e25c05f766bd2ed5485e641b479fdb18fbd2b3fc:4299',
 'records/7/0.0/transform_conversion_coefficients': 'sha256[ok]:ed8c12c42c6cdba1c80a762a656b472b85a4840f5b8403569c42b29015ab48b1:3299',
 'records/7/0.0/transform_general_info': 'sha256[ok]:bcf278dc0835546b4cffd1ebf3a7953d4fa53b7226e7eefee31aae0cfd359145:3050',
 'records/7/0.0/transform_metadata/0': 'sha256[ok]:0859f0115c4d15411f1b7d44c0346b1d431bc9b26487c3778448611562bfc647:102262',
 'records/7/0.0/transform_metadata/1': 'sha256[raises]:f09e9faa092c63b711d3c07ece97358a13727f281cbb6fe7d92bed934edd613b:76604',
 'records/7/0.0/transform_metadata/2': 'sha256[raises]:5d737ebb047caf18f89c1616143a344f8de4262cbf011aff14ab2858573d3a9b:87021',
 'records/7/0.2/transform_map_projection': 'sha256[raises]:99e1594004283a6387fe29ba1d6441ef98bf38b49b19c745ad64efc4a1ffd863:10440',
 'records/7/0.2/filter_map_projection': 'sha256[raises]:99e1594004283a6387fe29ba1d6441ef98bf38b49b19c745ad64efc4a1ffd863:10440',
 'records/7/0.2/transform_corner_points': 'sha256[ok]:4c5cd675b8c7e0f7704796604204f9ba42b109c36a6911ca8134edf7f843f9d7:4223',
 'records/7/0.2/transform_conversion_coefficients': 'sha256[ok]:267a56ea17eb7d4eb4e0f8f7d18305e323fe7bc08eec55aad28cd6f92e5e18ad:3253',
 'records/7/0.2/transform_general_info': 'sha256[ok]:f378c08d07db533cfec33db1c7b7dab2f17fdb41c8692466a7b3b1f403f4154e:3022',
 'records/7/0.2/transform_metadata/0': 'sha256[ok]:553df8f1e2dc22502b682df217fc03332ca5e3f1bf097d28b9e73e775b2150ee:101000',
 'records/7/0.2/transform_metadata/1': 'sha256[raises]:94d6e626c5bb1c145af75274411af064eb3ba06a6e1743348b4579d5f57ff175:75842',
 'records/7/0.2/transform_metadata/2': 'sha256[raises]:67431306b180795257f224e67c0477c1dcb1536d1b313b6d6d8ab4367d986b56:86160',
 'records/8/0.0/transform_map_projection': 'sha256[ok]:740634a090c4e57d48cb23d9770148e311934f988293b8920c98c37aa283581b:16801',
 'records/8/0.0/filter_map_projection': 'sha256[ok]:cadbd52eecebfccf4970e1d4a4cd0076ae9b3128de44ece3de300e829fcc159d:18785',
 'records/8/0.0/transform_corner_points': 'sha256[ok]:05fd79058bb382f09d7afec40e0b1acb1f43a88831ae785068c7e53945b842d5:4292',
 'records/8/0.0/transform_conversion_coefficients': 'sha256[ok]:68c27264260eeabd94a0366ea941eeb35e7645e8de2f57883a991391cb79ec6d:3299',
 'records/8/0.0/transform_general_info': 'sha256[ok]:0d38264a5142ada0d123900300525ae99224bec90996103210f5ddb53afe8ad0:3060',
 'records/8/0.0/transform_metadata/0': 'sha256[ok]:30c8d988622b5087c3ae2f6d2aafeea5aee2b636fef8115ff08379d4dc342233:102351',
 'records/8/0.0/transform_metadata/1': 'sha256[ok]:76ad55648372c17846f65e9ef64d2b006ff04da9e17319a568fb610aae22520c:119292',
 'records/8/0.0/transform_metadata/2': 'sha256[ok]:27e6b89d891eedd1cffe5c77d2c56ceaef2d732036bab4f4a39d36e56d97401d:129720',
 'records/8/0.2/transform_map_projection': 'sha256[ok]:2a8493d2b82267c8010ffb83b39de74c63e1c5e78f1ad39d52d84029441187e3:16704',
 'records/8/0.2/filter_map_projection': 'sha256[ok]:c11c12deea125ae93b2e9b0f64a23768806f8f1ac24bbd0ec7b26bb8928eaab0:18691',
 'records/8/0.2/transform_corner_points': 'sha256[ok]:4c234d848363e431b9a65be10432ddd1302e155cb5d240e89e03e7faf1c3706b:4267',
 'records/8/0.2/transform_conversion_coefficients': 'sha256[ok]:eb3b63185df0e59f7ee71ca8d5320d3d4f762bf3bacd9d3a26782a12a3d656d4:3247',
 'records/8/0.2/transform_general_info': 'sha256[ok]:0d18f07829b6e438547477c64d67833ce5598243d327d801a5fc8f10e6b3c473:3040',
 'records/8/0.2/transform_metadata/0': 'sha256[ok]:0b9546927baf232d729555d74de975dc414de82bbb022ebfcb09d80731546301:100851',
 'records/8/0.2/transform_metadata/1': 'sha256[ok]:f7f83778e3e278c3d10d087d36069c8ed5986bfbe7c8ecb21ce3256d92ea910d:117695',
 'records/8/0.2/transform_metadata/2': 'sha256[ok]:d5a83cc5c854539668a99f4b4e7745e45feafb5696c7eec76d23d5849dbec69a:128069'}
# --- END EXPECTED ---


def test_equivalence():
    assert main(build_cases, EXPECTED, __file__) == 0


if __name__ == "__main__":
    sys.exit(main(build_cases, EXPECTED, __file__))
