"""Equivalence check for refactoring 2 (ceos_alos2/sar_image/file_descriptor.py).

Parses a spread of synthetic 720 byte SAR image file descriptors (valid, blank, damaged,
truncated, ...) with ``file_descriptor_record`` / ``read_file_descriptor`` and compares the
complete result (names, order, types, values, exception types and messages) against what the
unchanged code produced.  Run as

    cd /tmp/wt10/e86 && PYTHONPATH=/tmp/wt10/e86 /venv/bin/python _eq/2/equiv.py

(``--record`` prints the table of expected results instead of checking it).
"""

import hashlib
import io
import pprint
import struct
import sys

from construct import Container, ListContainer

from ceos_alos2.sar_image import file_descriptor as module
from ceos_alos2.sar_image.file_descriptor import file_descriptor_record
from ceos_alos2.sar_image.io import read_file_descriptor

# the layout according to the unchanged source: (name, kind, width); "s": string, "i": integer
LAYOUT = [
    ("ascii_ebcdic_flag", "s", 2),
    ("blanks1", "s", 2),
    ("format_control_document_id", "s", 12),
    ("format_control_document_revision_level", "s", 2),
    ("file_design_descriptor_revision_letter", "s", 2),
    ("software_release_and_revision_number", "s", 12),
    ("file_number", "i", 4),
    ("file_id", "s", 16),
    ("record_sequence_and_location_type_flag", "s", 4),
    ("location_sequence_number", "i", 8),
    ("field_length_of_sequence_number", "i", 4),
    ("record_code_and_location_type_flag", "s", 4),
    ("record_code_location", "i", 8),
    ("record_code_field_length", "i", 4),
    ("record_length_and_location_type_flag", "s", 4),
    ("record_length_location", "i", 8),
    ("record_length_field_length", "i", 4),
    ("reserved1", "s", 1),
    ("reserved2", "s", 1),
    ("reserved3", "s", 1),
    ("reserved4", "s", 1),
    ("blanks6", "s", 64),
    ("number_of_sar_data_records", "i", 6),
    ("sar_data_record_length", "i", 6),
    ("reserved5", "s", 24),
    ("sample_group_data.bit_length_per_sample", "i", 4),
    ("sample_group_data.number_of_samples_per_data_group", "i", 4),
    ("sample_group_data.number_of_bytes_per_data_group", "i", 4),
    ("sample_group_data.justification_and_order_of_samples_within_data_group", "s", 4),
    ("sar_related_data_in_the_record.number_of_sar_channels", "i", 4),
    ("sar_related_data_in_the_record.number_of_lines_per_dataset", "i", 8),
    ("sar_related_data_in_the_record.number_of_left_border_pixels_per_line", "i", 4),
    ("sar_related_data_in_the_record.number_of_data_groups_per_line", "i", 8),
    ("sar_related_data_in_the_record.number_of_right_border_pixels_per_line", "i", 4),
    ("sar_related_data_in_the_record.number_of_top_border_lines", "i", 4),
    ("sar_related_data_in_the_record.number_of_bottom_border_lines", "i", 4),
    ("sar_related_data_in_the_record.interleaving_id", "s", 4),
    ("record_data_in_the_file.number_of_physical_records_per_line", "i", 2),
    (
        "record_data_in_the_file.number_of_physical_records_per_multichannel_line_in_this_file",
        "i",
        2,
    ),
    ("record_data_in_the_file.number_of_bytes_of_prefix_data_per_record", "i", 4),
    ("record_data_in_the_file.number_of_bytes_of_sar_data_per_record", "i", 8),
    ("record_data_in_the_file.number_of_bytes_of_suffix_data_per_record", "i", 4),
    ("record_data_in_the_file.prefix_suffix_repeat_flag", "s", 4),
    ("prefix_suffix_data_locators.sample_data_line_number_locator", "s", 8),
    ("prefix_suffix_data_locators.sar_channel_number_locator", "s", 8),
    ("prefix_suffix_data_locators.time_of_sar_data_line_locator", "s", 8),
    ("prefix_suffix_data_locators.left_fill_count_locator", "s", 8),
    ("prefix_suffix_data_locators.right_fill_count_locator", "s", 8),
    ("prefix_suffix_data_locators.pad_pixels_present_indicator", "s", 4),
    ("prefix_suffix_data_locators.blanks", "s", 28),
    ("prefix_suffix_data_locators.sar_data_line_quality_code_locator", "s", 8),
    ("prefix_suffix_data_locators.calibration_information_field_locator", "s", 8),
    ("prefix_suffix_data_locators.gain_values_field_locator", "s", 8),
    ("prefix_suffix_data_locators.bias_values_field_locator", "s", 8),
    ("prefix_suffix_data_locators.sar_data_format_type_indicator", "s", 28),
    ("prefix_suffix_data_locators.sar_data_format_type_code", "s", 4),
    ("prefix_suffix_data_locators.number_of_left_fill_bits_within_pixel", "i", 4),
    ("prefix_suffix_data_locators.number_of_right_fill_bits_within_pixel", "i", 4),
    ("prefix_suffix_data_locators.maximum_data_range_of_pixel", "i", 8),
    ("prefix_suffix_data_locators.number_of_burst_data", "i", 4),
    ("prefix_suffix_data_locators.number_of_lines_per_burst", "i", 4),
    ("scansar_burst_data_information.number_of_overlap_lines_with_adjacent_bursts", "i", 4),
    ("scansar_burst_data_information.blanks", "s", 260),
]
assert 12 + sum(width for _, _, width in LAYOUT) == 720

PREAMBLE = struct.pack(">IBBBBI", 1, 50, 192, 18, 18, 720)


class Stream:
    """deterministic pseudo-random numbers that do not depend on the ``random`` module"""

    def __init__(self, seed):
        self.seed = seed
        self.counter = 0

    def below(self, n):
        digest = hashlib.sha256(f"{self.seed}:{self.counter}".encode()).digest()
        self.counter += 1
        return int.from_bytes(digest[:8], "big") % n

    def choice(self, options):
        return options[self.below(len(options))]


LETTERS = "ABCDEFGHIJKLMNOPQRSTUVWXYZabcdefghijklmnopqrstuvwxyz0123456789.-_/"


def string_field(stream, width):
    style = stream.below(5)
    if style == 0:
        return " " * width
    length = width if style == 1 else 1 + stream.below(width)
    text = "".join(stream.choice(LETTERS) for _ in range(length))
    if style == 2:
        return text.rjust(width)
    if style == 3:
        return text.center(width)
    return text.ljust(width)


def integer_field(stream, width):
    style = stream.below(6)
    if style == 0:
        return " " * width
    n_digits = width if style == 1 else 1 + stream.below(width)
    digits = "".join(stream.choice("0123456789") for _ in range(n_digits))
    if style == 2:
        return digits.ljust(width)
    if style == 3 and n_digits < width:
        return ("-" + digits).rjust(width)
    if style == 4:
        return digits.zfill(width)
    return digits.rjust(width)


def synthesize(seed, overrides=None):
    stream = Stream(seed)
    overrides = overrides or {}
    parts = [PREAMBLE]
    for name, kind, width in LAYOUT:
        if name in overrides:
            value = overrides[name]
            if isinstance(value, str):
                value = value.encode("latin-1")
        else:
            make = string_field if kind == "s" else integer_field
            value = make(stream, width).encode("ascii")
        assert len(value) == width, (name, value, width)
        parts.append(value)
    data = b"".join(parts)
    assert len(data) == 720
    return data


def realistic():
    values = {
        "ascii_ebcdic_flag": "A ",
        "blanks1": "  ",
        "format_control_document_id": "CEOS-SAR    ",
        "format_control_document_revision_level": " A",
        "file_design_descriptor_revision_letter": " A",
        "software_release_and_revision_number": "  001.001   ",
        "file_number": "   2",
        "file_id": "AL2 SARIMOP     ",
        "record_sequence_and_location_type_flag": "FSEQ",
        "location_sequence_number": "       1",
        "field_length_of_sequence_number": "   4",
        "record_code_and_location_type_flag": "FTYP",
        "record_code_location": "       5",
        "record_code_field_length": "   4",
        "record_length_and_location_type_flag": "FLGT",
        "record_length_location": "       9",
        "record_length_field_length": "   4",
        "number_of_sar_data_records": " 27088",
        "sar_data_record_length": " 19640",
        "sample_group_data.bit_length_per_sample": "  32",
        "sample_group_data.number_of_samples_per_data_group": "   2",
        "sample_group_data.number_of_bytes_per_data_group": "   8",
        "sar_related_data_in_the_record.number_of_sar_channels": "   1",
        "sar_related_data_in_the_record.number_of_lines_per_dataset": "   27088",
        "sar_related_data_in_the_record.number_of_data_groups_per_line": "    2304",
        "sar_related_data_in_the_record.interleaving_id": "BSQ ",
        "prefix_suffix_data_locators.sample_data_line_number_locator": "  1354PB",
        "prefix_suffix_data_locators.sar_data_format_type_indicator": "COMPLEX*8".ljust(28),
        "prefix_suffix_data_locators.sar_data_format_type_code": "C*8 ",
        "prefix_suffix_data_locators.maximum_data_range_of_pixel": "        ",
    }
    blank = {name: " " * width for name, _, width in LAYOUT}
    return synthesize("realistic", blank | values)


def canon(value):
    if isinstance(value, Container):
        items = ", ".join(f"{k!r}: {canon(v)}" for k, v in value.items() if k != "_io")
        return f"Container({items})"
    if isinstance(value, ListContainer):
        return "ListContainer[" + ", ".join(canon(v) for v in value) + "]"
    if isinstance(value, tuple):
        return "(" + ", ".join(canon(v) for v in value) + ")"
    return f"{type(value).__module__}.{type(value).__qualname__}:{value!r}"


def summarize(text):
    if len(text) <= 400:
        return text
    return f"sha256:{hashlib.sha256(text.encode()).hexdigest()} length:{len(text)}"


def run(func):
    try:
        result = func()
    except BaseException as e:  # noqa: B902
        chain = []
        while e is not None:
            chain.append(f"{type(e).__module__}.{type(e).__qualname__}:{e}")
            e = e.__cause__ or (None if e.__suppress_context__ else e.__context__)
        return "EXC " + " <- ".join(chain)
    return summarize("OK " + canon(result))


def parse(data):
    return lambda: file_descriptor_record.parse(data)


def flat_values(data):
    """explicit, human readable values of a parsed descriptor: ``{dotted name: value}``"""

    def func():
        parsed = file_descriptor_record.parse(data)
        out = []
        for name, _, _ in LAYOUT:
            value = parsed
            for part in name.split("."):
                value = value[part]
            out.append(value)
        return tuple(out)

    return func


class RecordingFile(io.BytesIO):
    def __init__(self, data):
        super().__init__(data)
        self.requests = []

    def read(self, size=-1):
        self.requests.append(("read", size, self.tell()))
        return super().read(size)

    def seek(self, *args):
        self.requests.append(("seek", *args))
        return super().seek(*args)


def through_io(data):
    def func():
        f = RecordingFile(data)
        try:
            result = read_file_descriptor(f)
        finally:
            requests = tuple(f.requests)
        return (result, requests, f.tell())

    return func


def io_failure(data):
    def func():
        f = RecordingFile(data)
        try:
            read_file_descriptor(f)
        except Exception as e:
            return (type(e).__name__, str(e), tuple(f.requests), f.tell())
        raise AssertionError("expected a failure")

    return func


def structure():
    """field names, their order, the parser classes and the sizes"""

    def walk(con, prefix):
        out = []
        for sub in con.subcons:
            path = f"{prefix}{sub.name}"
            chain = [sub]
            while hasattr(chain[-1], "subcon") and not hasattr(chain[-1], "subcons"):
                chain.append(chain[-1].subcon)
            classes = ">".join(type(c).__name__ for c in chain)
            out.append(f"{path}:{classes}:{sub.sizeof()}")
            if hasattr(chain[-1], "subcons"):
                out.extend(walk(chain[-1], path + "."))
        return out

    lines = walk(file_descriptor_record, "")
    return (file_descriptor_record.sizeof(), len(lines), "\n".join(lines))


def public_names():
    return tuple(sorted(name for name in vars(module) if not name.startswith("_")))


def parse_twice_independent():
    # the results of two parses share nothing that could be modified
    data = realistic()
    first = file_descriptor_record.parse(data)
    first["file_number"] = 99
    first["sample_group_data"]["bit_length_per_sample"] = 77
    del first["prefix_suffix_data_locators"]["blanks"]
    second = file_descriptor_record.parse(data)
    return (
        second["file_number"],
        second["sample_group_data"]["bit_length_per_sample"],
        second["prefix_suffix_data_locators"]["blanks"],
        second["sample_group_data"] is not first["sample_group_data"],
    )


def boundaries():
    offsets = [0, 1, 11, 12]
    position = 12
    for _, _, width in LAYOUT:
        offsets.extend([position + 1, position + width - 1, position + width])
        position += width
    return sorted(set(offset for offset in offsets if 0 <= offset < 720))


good = synthesize("good")

cases = {
    "structure": structure,
    "public-names": public_names,
    "realistic": parse(realistic()),
    "realistic-values": flat_values(realistic()),
    "independent-results": parse_twice_independent,
    "all-blank": flat_values(PREAMBLE + b" " * 708),
    "all-zero-digits": parse(PREAMBLE + b"0" * 708),
    "all-nines": flat_values(PREAMBLE + b"9" * 708),
    "all-nul": parse(PREAMBLE + b"\x00" * 708),
    "all-tabs-and-newlines": flat_values(PREAMBLE + b"\t\n\r\x0b\x0c \x1c\x1f" * 88 + b"    "),
    "all-letters": parse(PREAMBLE + b"x" * 708),
    "all-high-bytes": parse(PREAMBLE + b"\xff" * 708),
    "zero-preamble": parse(b"\x00" * 12 + good[12:]),
    "trailing-garbage": parse(good + b"garbage"),
    "through-io": through_io(good),
    "through-io-trailing": through_io(good + b"\x00" * 100),
    "through-io-short": io_failure(good[:300]),
    "through-io-empty": io_failure(b""),
    "build": lambda: file_descriptor_record.build(
        dict(
            preamble=dict(
                record_sequence_number=1,
                first_record_subtype=50,
                record_type=192,
                second_record_subtype=18,
                third_record_subtype=18,
                record_length=720,
            ),
            ascii_ebcdic_flag="A",
        )
    ),
    "build-empty": lambda: file_descriptor_record.build({}),
}
for index in range(12):
    cases[f"random-{index}"] = parse(synthesize(f"random-{index}"))
cases["random-3-values"] = flat_values(synthesize("random-3"))
cases["random-7-values"] = flat_values(synthesize("random-7"))

# a single damaged field: the failure (or the odd value) has to come from the same field
damage = {
    "file_number": ["12a4", "1 2 ", "+123", "-  1", "1_00", "0x1f", "1.50", "\xb9\xb2\xb3 ", " \x00 1"],
    "location_sequence_number": ["1e5     ", "١٢٣     "[:8].encode("utf-8")[:8], "  -00012"],
    "reserved1": ["\x00", "\x80", "\t"],
    "reserved3": ["\xe9"],
    "reserved4": ["\x7f"],
    "number_of_sar_data_records": ["27,088", "  nan ", "  1234"],
    "sample_group_data.bit_length_per_sample": ["thir", " 3 2", "３２"[:2].encode("utf-8")[:4]],
    "sar_related_data_in_the_record.number_of_lines_per_dataset": ["   27088".replace("8", "\xff")],
    "sar_related_data_in_the_record.interleaving_id": ["B\xc5Q ", "\x00\x00\x00\x00"],
    "record_data_in_the_file.number_of_bytes_of_sar_data_per_record": ["١٢٣٤", "12345678"],
    "prefix_suffix_data_locators.sample_data_line_number_locator": ["\xff       ", " \x00\x00\x00   "],
    "prefix_suffix_data_locators.bias_values_field_locator": ["\x80" * 8],
    "prefix_suffix_data_locators.number_of_lines_per_burst": ["    ", "\x00\x00\x00\x00", "9" * 4],
    "scansar_burst_data_information.number_of_overlap_lines_with_adjacent_bursts": ["١", "-0  "],
    "scansar_burst_data_information.blanks": ["\xa0" * 260],
}
widths = {name: width for name, _, width in LAYOUT}
for name, values in damage.items():
    for index, value in enumerate(values):
        if isinstance(value, str):
            try:
                value = value.encode("latin-1")
            except UnicodeEncodeError:
                value = value.encode("utf-8")
        value = value[: widths[name]].ljust(widths[name])
        data = synthesize(f"damage-{name}-{index}", {name: value})
        cases[f"damage-{name.split('.')[-1][:30]}-{index}"] = parse(data)

# two damaged fields: the first one in the file wins
cases["damage-order-1"] = parse(
    synthesize(
        "order-1",
        {"file_number": "abcd", "reserved2": "\xff", "record_code_location": "x       "},
    )
)
cases["damage-order-2"] = parse(
    synthesize(
        "order-2",
        {
            "prefix_suffix_data_locators.gain_values_field_locator": "\xff" * 8,
            "prefix_suffix_data_locators.number_of_burst_data": "abcd",
            "reserved4": "\x81",
        },
    )
)

for offset in boundaries():
    cases[f"truncated-{offset}"] = parse(good[:offset])

# recorded with the unchanged code (``--record``)
EXPECTED = {'structure': 'sha256:8ae67a99c65ad8b004f0b9b29c0432894309b915bbaba318013d0f6aa60b5d5c length:8012',
 'public-names': "OK (builtins.str:'AsciiInteger', builtins.str:'PaddedString', "
                 "builtins.str:'Struct', builtins.str:'file_descriptor_record', "
                 "builtins.str:'record_preamble')",
 'realistic': 'sha256:cd74bf7cf4d471324316617cacd73db868afc7447220c1be493e406fe3aa68c7 length:3532',
 'realistic-values': 'sha256:9c9ae660d66961bac73a12957759ac7e9e1b4873029018f7f33ab7d3337f112e '
                     'length:1137',
 'independent-results': "OK (builtins.int:2, builtins.int:32, builtins.str:'', builtins.bool:True)",
 'all-blank': 'sha256:ea1946db7459ffb45f1ce1f82cd8374c39a2ee9abd4b800391c79e904480f229 length:1074',
 'all-zero-digits': 'sha256:60e208cdcf3738d22caec9cd78e6781ed9b72b34d4ca900aac3aca5a96a7fc96 '
                    'length:3999',
 'all-nines': 'sha256:29f8fa6eabc915efa03a025993fa8a95a2c28f87c86a5fc13d615295e9e4b4df length:1722',
 'all-nul': 'sha256:e39e397d66b6582e223eaeecba121e0d523a23d4e8cc6da15173326f2c904ede length:3469',
 'all-tabs-and-newlines': 'sha256:ea1946db7459ffb45f1ce1f82cd8374c39a2ee9abd4b800391c79e904480f229 '
                          'length:1074',
 'all-letters': "EXC builtins.ValueError:invalid literal for int() with base 10: 'xxxx'",
 'all-high-bytes': "EXC construct.core.StringError:cannot use encoding 'ascii' to decode "
                   "b'\\xff\\xff' <- builtins.UnicodeDecodeError:'ascii' codec can't decode byte "
                   '0xff in position 0: ordinal not in range(128)',
 'zero-preamble': 'sha256:596f6fb1594cec130b80af0818fc3d3fa1dc0868a4cdbeda253b6d3cf702f946 '
                  'length:3947',
 'trailing-garbage': 'sha256:f5118a282459b78845c7e8937395a78797de86472e8518cb91fa0c0d4bd07cd8 '
                     'length:3954',
 'through-io': 'sha256:893d458124594e9a47fc83f294751cd794bd8b1d9c4597a3496a05bf96a9f1fb '
               'length:4033',
 'through-io-trailing': 'sha256:893d458124594e9a47fc83f294751cd794bd8b1d9c4597a3496a05bf96a9f1fb '
                        'length:4033',
 'through-io-short': "OK (builtins.str:'StreamError', builtins.str:'Error in path (parsing) -> "
                     'prefix_suffix_data_locators -> sample_data_line_number_locator\\nstream read '
                     "less than specified amount, expected 8, found 4', ((builtins.str:'read', "
                     'builtins.int:720, builtins.int:0)), builtins.int:300)',
 'through-io-empty': "OK (builtins.str:'StreamError', builtins.str:'Error in path (parsing) -> "
                     'preamble -> record_sequence_number\\nstream read less than specified amount, '
                     "expected 4, found 0', ((builtins.str:'read', builtins.int:720, "
                     'builtins.int:0)), builtins.int:0)',
 'build': 'EXC builtins.NotImplementedError:',
 'build-empty': "EXC builtins.KeyError:'preamble'",
 'random-0': 'sha256:887cf1a841bfc602b2a8b6a48e25a2354d54916e46de821b2dd1bab4f2b70e82 length:3847',
 'random-1': 'sha256:00b53bd509ddfc4c6728b178a858de407c193ba758ee50a245bef9c0ea03df6c length:3728',
 'random-2': 'sha256:634797b2a8eacd81917bece26127803d00d8e83a3d3d5c5d64a1f5967ec7b9e8 length:3926',
 'random-3': 'sha256:ebd6cae20441b00c45401d019a9c9aef30e0922b0fbc073626789a943eef16e8 length:3988',
 'random-4': 'sha256:1ce02c857740eb52b5442cd5209b1f5407abf30023a16df7b75c3390dc57f77e length:3898',
 'random-5': 'sha256:b84671d8891a0d68dc01bd501681b2b38deda681f04578fe3e3c232e50e314ac length:3933',
 'random-6': 'sha256:c2ded646df5c8017eff5363ea4e4a42be60b36770245ae19386727ac42b53db5 length:3832',
 'random-7': 'sha256:a09623a9d297ec0c5dfe6cbe60d4480280869dad4440b4163fde28151c820119 length:3887',
 'random-8': 'sha256:4f36a229d9b4a2a445464971ea740a4ab66fac8a61f6a5ff53179575794ead06 length:3747',
 'random-9': 'sha256:175a10126c9f153699c63f6a552c105dec6a88d4e08f3796a8fc5127e495da3a length:3657',
 'random-10': 'sha256:a1079f0ebce0916738495578203376f6c65c9880d8164d800c5215be0622ed34 length:3660',
 'random-11': 'sha256:5917b286dd8905c159adb923f3f7fc73648248395c3f9ac31acc0b161dd60838 length:3937',
 'random-3-values': 'sha256:ebddb43ae6784775c9938333bc22bd4c0b41e27ab16270ede46ae3ff75f11fa1 '
                    'length:1593',
 'random-7-values': 'sha256:3e6211dc86db86224a626ed1dfffed8d9129bb0d6f5f8e0c1fed207842afadc3 '
                    'length:1492',
 'damage-file_number-0': "EXC builtins.ValueError:invalid literal for int() with base 10: '12a4'",
 'damage-file_number-1': "EXC builtins.ValueError:invalid literal for int() with base 10: '1 2'",
 'damage-file_number-2': 'sha256:e05c4fb73449dbab73a8595f424003350ae6ba94e6237320394d0433a7f3bcd3 '
                         'length:3667',
 'damage-file_number-3': "EXC builtins.ValueError:invalid literal for int() with base 10: '-  1'",
 'damage-file_number-4': 'sha256:71b592c165ad62dffe57793744b6ef64cf4e0b184543c9fbaba639ccc260fc30 '
                         'length:3840',
 'damage-file_number-5': "EXC builtins.ValueError:invalid literal for int() with base 10: '0x1f'",
 'damage-file_number-6': "EXC builtins.ValueError:invalid literal for int() with base 10: '1.50'",
 'damage-file_number-7': "EXC construct.core.StringError:cannot use encoding 'ascii' to decode "
                         "b'\\xb9\\xb2\\xb3 ' <- builtins.UnicodeDecodeError:'ascii' codec can't "
                         'decode byte 0xb9 in position 0: ordinal not in range(128)',
 'damage-file_number-8': "EXC builtins.ValueError:invalid literal for int() with base 10: '\\x00 "
                         "1'",
 'damage-location_sequence_number-0': 'EXC builtins.ValueError:invalid literal for int() with base '
                                      "10: '1e5'",
 'damage-location_sequence_number-1': "EXC construct.core.StringError:cannot use encoding 'ascii' "
                                      "to decode b'\\xd9\\xa1\\xd9\\xa2\\xd9\\xa3  ' <- "
                                      "builtins.UnicodeDecodeError:'ascii' codec can't decode byte "
                                      '0xd9 in position 0: ordinal not in range(128)',
 'damage-location_sequence_number-2': 'sha256:f73506fe5596aa32d4947ff52cea0b9ca8c49d9a6a2a7f006111be9cc8d205f9 '
                                      'length:3789',
 'damage-reserved1-0': 'sha256:9ff1372993b0bf36904e314a793e0e2ea7861d188ed6900f2ff6db2364baf647 '
                       'length:3642',
 'damage-reserved1-1': "EXC construct.core.StringError:cannot use encoding 'ascii' to decode "
                       "b'\\x80' <- builtins.UnicodeDecodeError:'ascii' codec can't decode byte "
                       '0x80 in position 0: ordinal not in range(128)',
 'damage-reserved1-2': 'sha256:a65bc6f8b3f5542aa48b885436c2d3f29042110318fc89c23ef326036c1f1c45 '
                       'length:3872',
 'damage-reserved3-0': "EXC construct.core.StringError:cannot use encoding 'ascii' to decode "
                       "b'\\xe9' <- builtins.UnicodeDecodeError:'ascii' codec can't decode byte "
                       '0xe9 in position 0: ordinal not in range(128)',
 'damage-reserved4-0': 'sha256:2ca3bcf21bfa8b8fb8e962c65d114a4bbe28e1847d21334f826cdc5a7449df45 '
                       'length:3747',
 'damage-number_of_sar_data_records-0': 'EXC builtins.ValueError:invalid literal for int() with '
                                        "base 10: '27,088'",
 'damage-number_of_sar_data_records-1': 'EXC builtins.ValueError:invalid literal for int() with '
                                        "base 10: 'nan'",
 'damage-number_of_sar_data_records-2': 'EXC construct.core.StringError:cannot use encoding '
                                        "'ascii' to decode b'\\xa0\\xa01234' <- "
                                        "builtins.UnicodeDecodeError:'ascii' codec can't decode "
                                        'byte 0xa0 in position 0: ordinal not in range(128)',
 'damage-bit_length_per_sample-0': 'EXC builtins.ValueError:invalid literal for int() with base '
                                   "10: 'thir'",
 'damage-bit_length_per_sample-1': 'EXC builtins.ValueError:invalid literal for int() with base '
                                   "10: '3 2'",
 'damage-bit_length_per_sample-2': "EXC construct.core.StringError:cannot use encoding 'ascii' to "
                                   "decode b'\\xef\\xbc\\x93\\xef' <- "
                                   "builtins.UnicodeDecodeError:'ascii' codec can't decode byte "
                                   '0xef in position 0: ordinal not in range(128)',
 'damage-number_of_lines_per_dataset-0': 'EXC construct.core.StringError:cannot use encoding '
                                         "'ascii' to decode b'   270\\xff\\xff' <- "
                                         "builtins.UnicodeDecodeError:'ascii' codec can't decode "
                                         'byte 0xff in position 6: ordinal not in range(128)',
 'damage-interleaving_id-0': "EXC construct.core.StringError:cannot use encoding 'ascii' to decode "
                             "b'B\\xc5Q ' <- builtins.UnicodeDecodeError:'ascii' codec can't "
                             'decode byte 0xc5 in position 1: ordinal not in range(128)',
 'damage-interleaving_id-1': 'sha256:01c8e27c79c0d5eb124700c530ad6126cb46daf1bfe1c7dee24bc97823187d05 '
                             'length:3689',
 'damage-number_of_bytes_of_sar_data_pe-0': 'EXC construct.core.StringError:cannot use encoding '
                                            "'ascii' to decode "
                                            "b'\\xd9\\xa1\\xd9\\xa2\\xd9\\xa3\\xd9\\xa4' <- "
                                            "builtins.UnicodeDecodeError:'ascii' codec can't "
                                            'decode byte 0xd9 in position 0: ordinal not in '
                                            'range(128)',
 'damage-number_of_bytes_of_sar_data_pe-1': 'sha256:f31c64c1b4eb9209ac8866cb9ce33161d840c02db8eea8e8b822788bb8a45c4e '
                                            'length:3746',
 'damage-sample_data_line_number_locato-0': 'EXC construct.core.StringError:cannot use encoding '
                                            "'ascii' to decode b'\\xff       ' <- "
                                            "builtins.UnicodeDecodeError:'ascii' codec can't "
                                            'decode byte 0xff in position 0: ordinal not in '
                                            'range(128)',
 'damage-sample_data_line_number_locato-1': 'sha256:398b4c597d0f960dedbb09a31f6baa2b9ee8f9bde9341f9fa8840c3c380255a8 '
                                            'length:3983',
 'damage-bias_values_field_locator-0': "EXC construct.core.StringError:cannot use encoding 'ascii' "
                                       "to decode b'\\x80\\x80\\x80\\x80\\x80\\x80\\x80\\x80' <- "
                                       "builtins.UnicodeDecodeError:'ascii' codec can't decode "
                                       'byte 0x80 in position 0: ordinal not in range(128)',
 'damage-number_of_lines_per_burst-0': 'sha256:1cd64e77c551246f0f92b51bc0c9068a130b345293c6a346b0a137811095ffe3 '
                                       'length:3973',
 'damage-number_of_lines_per_burst-1': 'sha256:dd34fad715811f4ee34100c62fae19238a538c131e81950fab95fbb0da81b5e2 '
                                       'length:3885',
 'damage-number_of_lines_per_burst-2': 'sha256:951fe0ec9ce71346d5dd23b335e4fd2fca4fae9cacc13a749601ed6e2e9d415b '
                                       'length:3904',
 'damage-number_of_overlap_lines_with_a-0': 'EXC construct.core.StringError:cannot use encoding '
                                            "'ascii' to decode b'\\xd9\\xa1  ' <- "
                                            "builtins.UnicodeDecodeError:'ascii' codec can't "
                                            'decode byte 0xd9 in position 0: ordinal not in '
                                            'range(128)',
 'damage-number_of_overlap_lines_with_a-1': 'sha256:80fb12ee49e08ece0eb5ba31162a378d9a94006c5d9d30c8d4dc737831e2a5bb '
                                            'length:3648',
 'damage-blanks-0': "EXC construct.core.StringError:cannot use encoding 'ascii' to decode "
                    "b'\\xa0\\xa0\\xa0\\xa0\\xa0\\xa0\\xa0\\xa0\\xa0\\xa0\\xa0\\xa0\\xa0\\xa0\\xa0\\xa0\\xa0\\xa0\\xa0\\xa0\\xa0\\xa0\\xa0\\xa0\\xa0\\xa0\\xa0\\xa0\\xa0\\xa0\\xa0\\xa0\\xa0\\xa0\\xa0\\xa0\\xa0\\xa0\\xa0\\xa0\\xa0\\xa0\\xa0\\xa0\\xa0\\xa0\\xa0\\xa0\\xa0\\xa0\\xa0\\xa0\\xa0\\xa0\\xa0\\xa0\\xa0\\xa0\\xa0\\xa0\\xa0\\xa0\\xa0\\xa0\\xa0\\xa0\\xa0\\xa0\\xa0\\xa0\\xa0\\xa0\\xa0\\xa0\\xa0\\xa0\\xa0\\xa0\\xa0\\xa0\\xa0\\xa0\\xa0\\xa0\\xa0\\xa0\\xa0\\xa0\\xa0\\xa0\\xa0\\xa0\\xa0\\xa0\\xa0\\xa0\\xa0\\xa0\\xa0\\xa0\\xa0\\xa0\\xa0\\xa0\\xa0\\xa0\\xa0\\xa0\\xa0\\xa0\\xa0\\xa0\\xa0\\xa0\\xa0\\xa0\\xa0\\xa0\\xa0\\xa0\\xa0\\xa0\\xa0\\xa0\\xa0\\xa0\\xa0\\xa0\\xa0\\xa0\\xa0\\xa0\\xa0\\xa0\\xa0\\xa0\\xa0\\xa0\\xa0\\xa0\\xa0\\xa0\\xa0\\xa0\\xa0\\xa0\\xa0\\xa0\\xa0\\xa0\\xa0\\xa0\\xa0\\xa0\\xa0\\xa0\\xa0\\xa0\\xa0\\xa0\\xa0\\xa0\\xa0\\xa0\\xa0\\xa0\\xa0\\xa0\\xa0\\xa0\\xa0\\xa0\\xa0\\xa0\\xa0\\xa0\\xa0\\xa0\\xa0\\xa0\\xa0\\xa0\\xa0\\xa0\\xa0\\xa0\\xa0\\xa0\\xa0\\xa0\\xa0\\xa0\\xa0\\xa0\\xa0\\xa0\\xa0\\xa0\\xa0\\xa0\\xa0\\xa0\\xa0\\xa0\\xa0\\xa0\\xa0\\xa0\\xa0\\xa0\\xa0\\xa0\\xa0\\xa0\\xa0\\xa0\\xa0\\xa0\\xa0\\xa0\\xa0\\xa0\\xa0\\xa0\\xa0\\xa0\\xa0\\xa0\\xa0\\xa0\\xa0\\xa0\\xa0\\xa0\\xa0\\xa0\\xa0\\xa0\\xa0\\xa0\\xa0\\xa0\\xa0\\xa0\\xa0\\xa0\\xa0\\xa0\\xa0\\xa0\\xa0\\xa0\\xa0\\xa0\\xa0\\xa0\\xa0\\xa0\\xa0\\xa0' "
                    "<- builtins.UnicodeDecodeError:'ascii' codec can't decode byte 0xa0 in "
                    'position 0: ordinal not in range(128)',
 'damage-order-1': "EXC builtins.ValueError:invalid literal for int() with base 10: 'abcd'",
 'damage-order-2': "EXC construct.core.StringError:cannot use encoding 'ascii' to decode b'\\x81' "
                   "<- builtins.UnicodeDecodeError:'ascii' codec can't decode byte 0x81 in "
                   'position 0: ordinal not in range(128)',
 'truncated-0': 'EXC construct.core.StreamError:Error in path (parsing) -> preamble -> '
                'record_sequence_number\n'
                'stream read less than specified amount, expected 4, found 0',
 'truncated-1': 'EXC construct.core.StreamError:Error in path (parsing) -> preamble -> '
                'record_sequence_number\n'
                'stream read less than specified amount, expected 4, found 1',
 'truncated-11': 'EXC construct.core.StreamError:Error in path (parsing) -> preamble -> '
                 'record_length\n'
                 'stream read less than specified amount, expected 4, found 3',
 'truncated-12': 'EXC construct.core.StreamError:Error in path (parsing) -> ascii_ebcdic_flag\n'
                 'stream read less than specified amount, expected 2, found 0',
 'truncated-13': 'EXC construct.core.StreamError:Error in path (parsing) -> ascii_ebcdic_flag\n'
                 'stream read less than specified amount, expected 2, found 1',
 'truncated-14': 'EXC construct.core.StreamError:Error in path (parsing) -> blanks1\n'
                 'stream read less than specified amount, expected 2, found 0',
 'truncated-15': 'EXC construct.core.StreamError:Error in path (parsing) -> blanks1\n'
                 'stream read less than specified amount, expected 2, found 1',
 'truncated-16': 'EXC construct.core.StreamError:Error in path (parsing) -> '
                 'format_control_document_id\n'
                 'stream read less than specified amount, expected 12, found 0',
 'truncated-17': 'EXC construct.core.StreamError:Error in path (parsing) -> '
                 'format_control_document_id\n'
                 'stream read less than specified amount, expected 12, found 1',
 'truncated-27': 'EXC construct.core.StreamError:Error in path (parsing) -> '
                 'format_control_document_id\n'
                 'stream read less than specified amount, expected 12, found 11',
 'truncated-28': 'EXC construct.core.StreamError:Error in path (parsing) -> '
                 'format_control_document_revision_level\n'
                 'stream read less than specified amount, expected 2, found 0',
 'truncated-29': 'EXC construct.core.StreamError:Error in path (parsing) -> '
                 'format_control_document_revision_level\n'
                 'stream read less than specified amount, expected 2, found 1',
 'truncated-30': 'EXC construct.core.StreamError:Error in path (parsing) -> '
                 'file_design_descriptor_revision_letter\n'
                 'stream read less than specified amount, expected 2, found 0',
 'truncated-31': 'EXC construct.core.StreamError:Error in path (parsing) -> '
                 'file_design_descriptor_revision_letter\n'
                 'stream read less than specified amount, expected 2, found 1',
 'truncated-32': 'EXC construct.core.StreamError:Error in path (parsing) -> '
                 'software_release_and_revision_number\n'
                 'stream read less than specified amount, expected 12, found 0',
 'truncated-33': 'EXC construct.core.StreamError:Error in path (parsing) -> '
                 'software_release_and_revision_number\n'
                 'stream read less than specified amount, expected 12, found 1',
 'truncated-43': 'EXC construct.core.StreamError:Error in path (parsing) -> '
                 'software_release_and_revision_number\n'
                 'stream read less than specified amount, expected 12, found 11',
 'truncated-44': 'EXC construct.core.StreamError:Error in path (parsing) -> file_number\n'
                 'stream read less than specified amount, expected 4, found 0',
 'truncated-45': 'EXC construct.core.StreamError:Error in path (parsing) -> file_number\n'
                 'stream read less than specified amount, expected 4, found 1',
 'truncated-47': 'EXC construct.core.StreamError:Error in path (parsing) -> file_number\n'
                 'stream read less than specified amount, expected 4, found 3',
 'truncated-48': 'EXC construct.core.StreamError:Error in path (parsing) -> file_id\n'
                 'stream read less than specified amount, expected 16, found 0',
 'truncated-49': 'EXC construct.core.StreamError:Error in path (parsing) -> file_id\n'
                 'stream read less than specified amount, expected 16, found 1',
 'truncated-63': 'EXC construct.core.StreamError:Error in path (parsing) -> file_id\n'
                 'stream read less than specified amount, expected 16, found 15',
 'truncated-64': 'EXC construct.core.StreamError:Error in path (parsing) -> '
                 'record_sequence_and_location_type_flag\n'
                 'stream read less than specified amount, expected 4, found 0',
 'truncated-65': 'EXC construct.core.StreamError:Error in path (parsing) -> '
                 'record_sequence_and_location_type_flag\n'
                 'stream read less than specified amount, expected 4, found 1',
 'truncated-67': 'EXC construct.core.StreamError:Error in path (parsing) -> '
                 'record_sequence_and_location_type_flag\n'
                 'stream read less than specified amount, expected 4, found 3',
 'truncated-68': 'EXC construct.core.StreamError:Error in path (parsing) -> '
                 'location_sequence_number\n'
                 'stream read less than specified amount, expected 8, found 0',
 'truncated-69': 'EXC construct.core.StreamError:Error in path (parsing) -> '
                 'location_sequence_number\n'
                 'stream read less than specified amount, expected 8, found 1',
 'truncated-75': 'EXC construct.core.StreamError:Error in path (parsing) -> '
                 'location_sequence_number\n'
                 'stream read less than specified amount, expected 8, found 7',
 'truncated-76': 'EXC construct.core.StreamError:Error in path (parsing) -> '
                 'field_length_of_sequence_number\n'
                 'stream read less than specified amount, expected 4, found 0',
 'truncated-77': 'EXC construct.core.StreamError:Error in path (parsing) -> '
                 'field_length_of_sequence_number\n'
                 'stream read less than specified amount, expected 4, found 1',
 'truncated-79': 'EXC construct.core.StreamError:Error in path (parsing) -> '
                 'field_length_of_sequence_number\n'
                 'stream read less than specified amount, expected 4, found 3',
 'truncated-80': 'EXC construct.core.StreamError:Error in path (parsing) -> '
                 'record_code_and_location_type_flag\n'
                 'stream read less than specified amount, expected 4, found 0',
 'truncated-81': 'EXC construct.core.StreamError:Error in path (parsing) -> '
                 'record_code_and_location_type_flag\n'
                 'stream read less than specified amount, expected 4, found 1',
 'truncated-83': 'EXC construct.core.StreamError:Error in path (parsing) -> '
                 'record_code_and_location_type_flag\n'
                 'stream read less than specified amount, expected 4, found 3',
 'truncated-84': 'EXC construct.core.StreamError:Error in path (parsing) -> record_code_location\n'
                 'stream read less than specified amount, expected 8, found 0',
 'truncated-85': 'EXC construct.core.StreamError:Error in path (parsing) -> record_code_location\n'
                 'stream read less than specified amount, expected 8, found 1',
 'truncated-91': 'EXC construct.core.StreamError:Error in path (parsing) -> record_code_location\n'
                 'stream read less than specified amount, expected 8, found 7',
 'truncated-92': 'EXC construct.core.StreamError:Error in path (parsing) -> '
                 'record_code_field_length\n'
                 'stream read less than specified amount, expected 4, found 0',
 'truncated-93': 'EXC construct.core.StreamError:Error in path (parsing) -> '
                 'record_code_field_length\n'
                 'stream read less than specified amount, expected 4, found 1',
 'truncated-95': 'EXC construct.core.StreamError:Error in path (parsing) -> '
                 'record_code_field_length\n'
                 'stream read less than specified amount, expected 4, found 3',
 'truncated-96': 'EXC construct.core.StreamError:Error in path (parsing) -> '
                 'record_length_and_location_type_flag\n'
                 'stream read less than specified amount, expected 4, found 0',
 'truncated-97': 'EXC construct.core.StreamError:Error in path (parsing) -> '
                 'record_length_and_location_type_flag\n'
                 'stream read less than specified amount, expected 4, found 1',
 'truncated-99': 'EXC construct.core.StreamError:Error in path (parsing) -> '
                 'record_length_and_location_type_flag\n'
                 'stream read less than specified amount, expected 4, found 3',
 'truncated-100': 'EXC construct.core.StreamError:Error in path (parsing) -> '
                  'record_length_location\n'
                  'stream read less than specified amount, expected 8, found 0',
 'truncated-101': 'EXC construct.core.StreamError:Error in path (parsing) -> '
                  'record_length_location\n'
                  'stream read less than specified amount, expected 8, found 1',
 'truncated-107': 'EXC construct.core.StreamError:Error in path (parsing) -> '
                  'record_length_location\n'
                  'stream read less than specified amount, expected 8, found 7',
 'truncated-108': 'EXC construct.core.StreamError:Error in path (parsing) -> '
                  'record_length_field_length\n'
                  'stream read less than specified amount, expected 4, found 0',
 'truncated-109': 'EXC construct.core.StreamError:Error in path (parsing) -> '
                  'record_length_field_length\n'
                  'stream read less than specified amount, expected 4, found 1',
 'truncated-111': 'EXC construct.core.StreamError:Error in path (parsing) -> '
                  'record_length_field_length\n'
                  'stream read less than specified amount, expected 4, found 3',
 'truncated-112': 'EXC construct.core.StreamError:Error in path (parsing) -> reserved1\n'
                  'stream read less than specified amount, expected 1, found 0',
 'truncated-113': 'EXC construct.core.StreamError:Error in path (parsing) -> reserved2\n'
                  'stream read less than specified amount, expected 1, found 0',
 'truncated-114': 'EXC construct.core.StreamError:Error in path (parsing) -> reserved3\n'
                  'stream read less than specified amount, expected 1, found 0',
 'truncated-115': 'EXC construct.core.StreamError:Error in path (parsing) -> reserved4\n'
                  'stream read less than specified amount, expected 1, found 0',
 'truncated-116': 'EXC construct.core.StreamError:Error in path (parsing) -> blanks6\n'
                  'stream read less than specified amount, expected 64, found 0',
 'truncated-117': 'EXC construct.core.StreamError:Error in path (parsing) -> blanks6\n'
                  'stream read less than specified amount, expected 64, found 1',
 'truncated-179': 'EXC construct.core.StreamError:Error in path (parsing) -> blanks6\n'
                  'stream read less than specified amount, expected 64, found 63',
 'truncated-180': 'EXC construct.core.StreamError:Error in path (parsing) -> '
                  'number_of_sar_data_records\n'
                  'stream read less than specified amount, expected 6, found 0',
 'truncated-181': 'EXC construct.core.StreamError:Error in path (parsing) -> '
                  'number_of_sar_data_records\n'
                  'stream read less than specified amount, expected 6, found 1',
 'truncated-185': 'EXC construct.core.StreamError:Error in path (parsing) -> '
                  'number_of_sar_data_records\n'
                  'stream read less than specified amount, expected 6, found 5',
 'truncated-186': 'EXC construct.core.StreamError:Error in path (parsing) -> '
                  'sar_data_record_length\n'
                  'stream read less than specified amount, expected 6, found 0',
 'truncated-187': 'EXC construct.core.StreamError:Error in path (parsing) -> '
                  'sar_data_record_length\n'
                  'stream read less than specified amount, expected 6, found 1',
 'truncated-191': 'EXC construct.core.StreamError:Error in path (parsing) -> '
                  'sar_data_record_length\n'
                  'stream read less than specified amount, expected 6, found 5',
 'truncated-192': 'EXC construct.core.StreamError:Error in path (parsing) -> reserved5\n'
                  'stream read less than specified amount, expected 24, found 0',
 'truncated-193': 'EXC construct.core.StreamError:Error in path (parsing) -> reserved5\n'
                  'stream read less than specified amount, expected 24, found 1',
 'truncated-215': 'EXC construct.core.StreamError:Error in path (parsing) -> reserved5\n'
                  'stream read less than specified amount, expected 24, found 23',
 'truncated-216': 'EXC construct.core.StreamError:Error in path (parsing) -> sample_group_data -> '
                  'bit_length_per_sample\n'
                  'stream read less than specified amount, expected 4, found 0',
 'truncated-217': 'EXC construct.core.StreamError:Error in path (parsing) -> sample_group_data -> '
                  'bit_length_per_sample\n'
                  'stream read less than specified amount, expected 4, found 1',
 'truncated-219': 'EXC construct.core.StreamError:Error in path (parsing) -> sample_group_data -> '
                  'bit_length_per_sample\n'
                  'stream read less than specified amount, expected 4, found 3',
 'truncated-220': 'EXC construct.core.StreamError:Error in path (parsing) -> sample_group_data -> '
                  'number_of_samples_per_data_group\n'
                  'stream read less than specified amount, expected 4, found 0',
 'truncated-221': 'EXC construct.core.StreamError:Error in path (parsing) -> sample_group_data -> '
                  'number_of_samples_per_data_group\n'
                  'stream read less than specified amount, expected 4, found 1',
 'truncated-223': 'EXC construct.core.StreamError:Error in path (parsing) -> sample_group_data -> '
                  'number_of_samples_per_data_group\n'
                  'stream read less than specified amount, expected 4, found 3',
 'truncated-224': 'EXC construct.core.StreamError:Error in path (parsing) -> sample_group_data -> '
                  'number_of_bytes_per_data_group\n'
                  'stream read less than specified amount, expected 4, found 0',
 'truncated-225': 'EXC construct.core.StreamError:Error in path (parsing) -> sample_group_data -> '
                  'number_of_bytes_per_data_group\n'
                  'stream read less than specified amount, expected 4, found 1',
 'truncated-227': 'EXC construct.core.StreamError:Error in path (parsing) -> sample_group_data -> '
                  'number_of_bytes_per_data_group\n'
                  'stream read less than specified amount, expected 4, found 3',
 'truncated-228': 'EXC construct.core.StreamError:Error in path (parsing) -> sample_group_data -> '
                  'justification_and_order_of_samples_within_data_group\n'
                  'stream read less than specified amount, expected 4, found 0',
 'truncated-229': 'EXC construct.core.StreamError:Error in path (parsing) -> sample_group_data -> '
                  'justification_and_order_of_samples_within_data_group\n'
                  'stream read less than specified amount, expected 4, found 1',
 'truncated-231': 'EXC construct.core.StreamError:Error in path (parsing) -> sample_group_data -> '
                  'justification_and_order_of_samples_within_data_group\n'
                  'stream read less than specified amount, expected 4, found 3',
 'truncated-232': 'EXC construct.core.StreamError:Error in path (parsing) -> '
                  'sar_related_data_in_the_record -> number_of_sar_channels\n'
                  'stream read less than specified amount, expected 4, found 0',
 'truncated-233': 'EXC construct.core.StreamError:Error in path (parsing) -> '
                  'sar_related_data_in_the_record -> number_of_sar_channels\n'
                  'stream read less than specified amount, expected 4, found 1',
 'truncated-235': 'EXC construct.core.StreamError:Error in path (parsing) -> '
                  'sar_related_data_in_the_record -> number_of_sar_channels\n'
                  'stream read less than specified amount, expected 4, found 3',
 'truncated-236': 'EXC construct.core.StreamError:Error in path (parsing) -> '
                  'sar_related_data_in_the_record -> number_of_lines_per_dataset\n'
                  'stream read less than specified amount, expected 8, found 0',
 'truncated-237': 'EXC construct.core.StreamError:Error in path (parsing) -> '
                  'sar_related_data_in_the_record -> number_of_lines_per_dataset\n'
                  'stream read less than specified amount, expected 8, found 1',
 'truncated-243': 'EXC construct.core.StreamError:Error in path (parsing) -> '
                  'sar_related_data_in_the_record -> number_of_lines_per_dataset\n'
                  'stream read less than specified amount, expected 8, found 7',
 'truncated-244': 'EXC construct.core.StreamError:Error in path (parsing) -> '
                  'sar_related_data_in_the_record -> number_of_left_border_pixels_per_line\n'
                  'stream read less than specified amount, expected 4, found 0',
 'truncated-245': 'EXC construct.core.StreamError:Error in path (parsing) -> '
                  'sar_related_data_in_the_record -> number_of_left_border_pixels_per_line\n'
                  'stream read less than specified amount, expected 4, found 1',
 'truncated-247': 'EXC construct.core.StreamError:Error in path (parsing) -> '
                  'sar_related_data_in_the_record -> number_of_left_border_pixels_per_line\n'
                  'stream read less than specified amount, expected 4, found 3',
 'truncated-248': 'EXC construct.core.StreamError:Error in path (parsing) -> '
                  'sar_related_data_in_the_record -> number_of_data_groups_per_line\n'
                  'stream read less than specified amount, expected 8, found 0',
 'truncated-249': 'EXC construct.core.StreamError:Error in path (parsing) -> '
                  'sar_related_data_in_the_record -> number_of_data_groups_per_line\n'
                  'stream read less than specified amount, expected 8, found 1',
 'truncated-255': 'EXC construct.core.StreamError:Error in path (parsing) -> '
                  'sar_related_data_in_the_record -> number_of_data_groups_per_line\n'
                  'stream read less than specified amount, expected 8, found 7',
 'truncated-256': 'EXC construct.core.StreamError:Error in path (parsing) -> '
                  'sar_related_data_in_the_record -> number_of_right_border_pixels_per_line\n'
                  'stream read less than specified amount, expected 4, found 0',
 'truncated-257': 'EXC construct.core.StreamError:Error in path (parsing) -> '
                  'sar_related_data_in_the_record -> number_of_right_border_pixels_per_line\n'
                  'stream read less than specified amount, expected 4, found 1',
 'truncated-259': 'EXC construct.core.StreamError:Error in path (parsing) -> '
                  'sar_related_data_in_the_record -> number_of_right_border_pixels_per_line\n'
                  'stream read less than specified amount, expected 4, found 3',
 'truncated-260': 'EXC construct.core.StreamError:Error in path (parsing) -> '
                  'sar_related_data_in_the_record -> number_of_top_border_lines\n'
                  'stream read less than specified amount, expected 4, found 0',
 'truncated-261': 'EXC construct.core.StreamError:Error in path (parsing) -> '
                  'sar_related_data_in_the_record -> number_of_top_border_lines\n'
                  'stream read less than specified amount, expected 4, found 1',
 'truncated-263': 'EXC construct.core.StreamError:Error in path (parsing) -> '
                  'sar_related_data_in_the_record -> number_of_top_border_lines\n'
                  'stream read less than specified amount, expected 4, found 3',
 'truncated-264': 'EXC construct.core.StreamError:Error in path (parsing) -> '
                  'sar_related_data_in_the_record -> number_of_bottom_border_lines\n'
                  'stream read less than specified amount, expected 4, found 0',
 'truncated-265': 'EXC construct.core.StreamError:Error in path (parsing) -> '
                  'sar_related_data_in_the_record -> number_of_bottom_border_lines\n'
                  'stream read less than specified amount, expected 4, found 1',
 'truncated-267': 'EXC construct.core.StreamError:Error in path (parsing) -> '
                  'sar_related_data_in_the_record -> number_of_bottom_border_lines\n'
                  'stream read less than specified amount, expected 4, found 3',
 'truncated-268': 'EXC construct.core.StreamError:Error in path (parsing) -> '
                  'sar_related_data_in_the_record -> interleaving_id\n'
                  'stream read less than specified amount, expected 4, found 0',
 'truncated-269': 'EXC construct.core.StreamError:Error in path (parsing) -> '
                  'sar_related_data_in_the_record -> interleaving_id\n'
                  'stream read less than specified amount, expected 4, found 1',
 'truncated-271': 'EXC construct.core.StreamError:Error in path (parsing) -> '
                  'sar_related_data_in_the_record -> interleaving_id\n'
                  'stream read less than specified amount, expected 4, found 3',
 'truncated-272': 'EXC construct.core.StreamError:Error in path (parsing) -> '
                  'record_data_in_the_file -> number_of_physical_records_per_line\n'
                  'stream read less than specified amount, expected 2, found 0',
 'truncated-273': 'EXC construct.core.StreamError:Error in path (parsing) -> '
                  'record_data_in_the_file -> number_of_physical_records_per_line\n'
                  'stream read less than specified amount, expected 2, found 1',
 'truncated-274': 'EXC construct.core.StreamError:Error in path (parsing) -> '
                  'record_data_in_the_file -> '
                  'number_of_physical_records_per_multichannel_line_in_this_file\n'
                  'stream read less than specified amount, expected 2, found 0',
 'truncated-275': 'EXC construct.core.StreamError:Error in path (parsing) -> '
                  'record_data_in_the_file -> '
                  'number_of_physical_records_per_multichannel_line_in_this_file\n'
                  'stream read less than specified amount, expected 2, found 1',
 'truncated-276': 'EXC construct.core.StreamError:Error in path (parsing) -> '
                  'record_data_in_the_file -> number_of_bytes_of_prefix_data_per_record\n'
                  'stream read less than specified amount, expected 4, found 0',
 'truncated-277': 'EXC construct.core.StreamError:Error in path (parsing) -> '
                  'record_data_in_the_file -> number_of_bytes_of_prefix_data_per_record\n'
                  'stream read less than specified amount, expected 4, found 1',
 'truncated-279': 'EXC construct.core.StreamError:Error in path (parsing) -> '
                  'record_data_in_the_file -> number_of_bytes_of_prefix_data_per_record\n'
                  'stream read less than specified amount, expected 4, found 3',
 'truncated-280': 'EXC construct.core.StreamError:Error in path (parsing) -> '
                  'record_data_in_the_file -> number_of_bytes_of_sar_data_per_record\n'
                  'stream read less than specified amount, expected 8, found 0',
 'truncated-281': 'EXC construct.core.StreamError:Error in path (parsing) -> '
                  'record_data_in_the_file -> number_of_bytes_of_sar_data_per_record\n'
                  'stream read less than specified amount, expected 8, found 1',
 'truncated-287': 'EXC construct.core.StreamError:Error in path (parsing) -> '
                  'record_data_in_the_file -> number_of_bytes_of_sar_data_per_record\n'
                  'stream read less than specified amount, expected 8, found 7',
 'truncated-288': 'EXC construct.core.StreamError:Error in path (parsing) -> '
                  'record_data_in_the_file -> number_of_bytes_of_suffix_data_per_record\n'
                  'stream read less than specified amount, expected 4, found 0',
 'truncated-289': 'EXC construct.core.StreamError:Error in path (parsing) -> '
                  'record_data_in_the_file -> number_of_bytes_of_suffix_data_per_record\n'
                  'stream read less than specified amount, expected 4, found 1',
 'truncated-291': 'EXC construct.core.StreamError:Error in path (parsing) -> '
                  'record_data_in_the_file -> number_of_bytes_of_suffix_data_per_record\n'
                  'stream read less than specified amount, expected 4, found 3',
 'truncated-292': 'EXC construct.core.StreamError:Error in path (parsing) -> '
                  'record_data_in_the_file -> prefix_suffix_repeat_flag\n'
                  'stream read less than specified amount, expected 4, found 0',
 'truncated-293': 'EXC construct.core.StreamError:Error in path (parsing) -> '
                  'record_data_in_the_file -> prefix_suffix_repeat_flag\n'
                  'stream read less than specified amount, expected 4, found 1',
 'truncated-295': 'EXC construct.core.StreamError:Error in path (parsing) -> '
                  'record_data_in_the_file -> prefix_suffix_repeat_flag\n'
                  'stream read less than specified amount, expected 4, found 3',
 'truncated-296': 'EXC construct.core.StreamError:Error in path (parsing) -> '
                  'prefix_suffix_data_locators -> sample_data_line_number_locator\n'
                  'stream read less than specified amount, expected 8, found 0',
 'truncated-297': 'EXC construct.core.StreamError:Error in path (parsing) -> '
                  'prefix_suffix_data_locators -> sample_data_line_number_locator\n'
                  'stream read less than specified amount, expected 8, found 1',
 'truncated-303': 'EXC construct.core.StreamError:Error in path (parsing) -> '
                  'prefix_suffix_data_locators -> sample_data_line_number_locator\n'
                  'stream read less than specified amount, expected 8, found 7',
 'truncated-304': 'EXC construct.core.StreamError:Error in path (parsing) -> '
                  'prefix_suffix_data_locators -> sar_channel_number_locator\n'
                  'stream read less than specified amount, expected 8, found 0',
 'truncated-305': 'EXC construct.core.StreamError:Error in path (parsing) -> '
                  'prefix_suffix_data_locators -> sar_channel_number_locator\n'
                  'stream read less than specified amount, expected 8, found 1',
 'truncated-311': 'EXC construct.core.StreamError:Error in path (parsing) -> '
                  'prefix_suffix_data_locators -> sar_channel_number_locator\n'
                  'stream read less than specified amount, expected 8, found 7',
 'truncated-312': 'EXC construct.core.StreamError:Error in path (parsing) -> '
                  'prefix_suffix_data_locators -> time_of_sar_data_line_locator\n'
                  'stream read less than specified amount, expected 8, found 0',
 'truncated-313': 'EXC construct.core.StreamError:Error in path (parsing) -> '
                  'prefix_suffix_data_locators -> time_of_sar_data_line_locator\n'
                  'stream read less than specified amount, expected 8, found 1',
 'truncated-319': 'EXC construct.core.StreamError:Error in path (parsing) -> '
                  'prefix_suffix_data_locators -> time_of_sar_data_line_locator\n'
                  'stream read less than specified amount, expected 8, found 7',
 'truncated-320': 'EXC construct.core.StreamError:Error in path (parsing) -> '
                  'prefix_suffix_data_locators -> left_fill_count_locator\n'
                  'stream read less than specified amount, expected 8, found 0',
 'truncated-321': 'EXC construct.core.StreamError:Error in path (parsing) -> '
                  'prefix_suffix_data_locators -> left_fill_count_locator\n'
                  'stream read less than specified amount, expected 8, found 1',
 'truncated-327': 'EXC construct.core.StreamError:Error in path (parsing) -> '
                  'prefix_suffix_data_locators -> left_fill_count_locator\n'
                  'stream read less than specified amount, expected 8, found 7',
 'truncated-328': 'EXC construct.core.StreamError:Error in path (parsing) -> '
                  'prefix_suffix_data_locators -> right_fill_count_locator\n'
                  'stream read less than specified amount, expected 8, found 0',
 'truncated-329': 'EXC construct.core.StreamError:Error in path (parsing) -> '
                  'prefix_suffix_data_locators -> right_fill_count_locator\n'
                  'stream read less than specified amount, expected 8, found 1',
 'truncated-335': 'EXC construct.core.StreamError:Error in path (parsing) -> '
                  'prefix_suffix_data_locators -> right_fill_count_locator\n'
                  'stream read less than specified amount, expected 8, found 7',
 'truncated-336': 'EXC construct.core.StreamError:Error in path (parsing) -> '
                  'prefix_suffix_data_locators -> pad_pixels_present_indicator\n'
                  'stream read less than specified amount, expected 4, found 0',
 'truncated-337': 'EXC construct.core.StreamError:Error in path (parsing) -> '
                  'prefix_suffix_data_locators -> pad_pixels_present_indicator\n'
                  'stream read less than specified amount, expected 4, found 1',
 'truncated-339': 'EXC construct.core.StreamError:Error in path (parsing) -> '
                  'prefix_suffix_data_locators -> pad_pixels_present_indicator\n'
                  'stream read less than specified amount, expected 4, found 3',
 'truncated-340': 'EXC construct.core.StreamError:Error in path (parsing) -> '
                  'prefix_suffix_data_locators -> blanks\n'
                  'stream read less than specified amount, expected 28, found 0',
 'truncated-341': 'EXC construct.core.StreamError:Error in path (parsing) -> '
                  'prefix_suffix_data_locators -> blanks\n'
                  'stream read less than specified amount, expected 28, found 1',
 'truncated-367': 'EXC construct.core.StreamError:Error in path (parsing) -> '
                  'prefix_suffix_data_locators -> blanks\n'
                  'stream read less than specified amount, expected 28, found 27',
 'truncated-368': 'EXC construct.core.StreamError:Error in path (parsing) -> '
                  'prefix_suffix_data_locators -> sar_data_line_quality_code_locator\n'
                  'stream read less than specified amount, expected 8, found 0',
 'truncated-369': 'EXC construct.core.StreamError:Error in path (parsing) -> '
                  'prefix_suffix_data_locators -> sar_data_line_quality_code_locator\n'
                  'stream read less than specified amount, expected 8, found 1',
 'truncated-375': 'EXC construct.core.StreamError:Error in path (parsing) -> '
                  'prefix_suffix_data_locators -> sar_data_line_quality_code_locator\n'
                  'stream read less than specified amount, expected 8, found 7',
 'truncated-376': 'EXC construct.core.StreamError:Error in path (parsing) -> '
                  'prefix_suffix_data_locators -> calibration_information_field_locator\n'
                  'stream read less than specified amount, expected 8, found 0',
 'truncated-377': 'EXC construct.core.StreamError:Error in path (parsing) -> '
                  'prefix_suffix_data_locators -> calibration_information_field_locator\n'
                  'stream read less than specified amount, expected 8, found 1',
 'truncated-383': 'EXC construct.core.StreamError:Error in path (parsing) -> '
                  'prefix_suffix_data_locators -> calibration_information_field_locator\n'
                  'stream read less than specified amount, expected 8, found 7',
 'truncated-384': 'EXC construct.core.StreamError:Error in path (parsing) -> '
                  'prefix_suffix_data_locators -> gain_values_field_locator\n'
                  'stream read less than specified amount, expected 8, found 0',
 'truncated-385': 'EXC construct.core.StreamError:Error in path (parsing) -> '
                  'prefix_suffix_data_locators -> gain_values_field_locator\n'
                  'stream read less than specified amount, expected 8, found 1',
 'truncated-391': 'EXC construct.core.StreamError:Error in path (parsing) -> '
                  'prefix_suffix_data_locators -> gain_values_field_locator\n'
                  'stream read less than specified amount, expected 8, found 7',
 'truncated-392': 'EXC construct.core.StreamError:Error in path (parsing) -> '
                  'prefix_suffix_data_locators -> bias_values_field_locator\n'
                  'stream read less than specified amount, expected 8, found 0',
 'truncated-393': 'EXC construct.core.StreamError:Error in path (parsing) -> '
                  'prefix_suffix_data_locators -> bias_values_field_locator\n'
                  'stream read less than specified amount, expected 8, found 1',
 'truncated-399': 'EXC construct.core.StreamError:Error in path (parsing) -> '
                  'prefix_suffix_data_locators -> bias_values_field_locator\n'
                  'stream read less than specified amount, expected 8, found 7',
 'truncated-400': 'EXC construct.core.StreamError:Error in path (parsing) -> '
                  'prefix_suffix_data_locators -> sar_data_format_type_indicator\n'
                  'stream read less than specified amount, expected 28, found 0',
 'truncated-401': 'EXC construct.core.StreamError:Error in path (parsing) -> '
                  'prefix_suffix_data_locators -> sar_data_format_type_indicator\n'
                  'stream read less than specified amount, expected 28, found 1',
 'truncated-427': 'EXC construct.core.StreamError:Error in path (parsing) -> '
                  'prefix_suffix_data_locators -> sar_data_format_type_indicator\n'
                  'stream read less than specified amount, expected 28, found 27',
 'truncated-428': 'EXC construct.core.StreamError:Error in path (parsing) -> '
                  'prefix_suffix_data_locators -> sar_data_format_type_code\n'
                  'stream read less than specified amount, expected 4, found 0',
 'truncated-429': 'EXC construct.core.StreamError:Error in path (parsing) -> '
                  'prefix_suffix_data_locators -> sar_data_format_type_code\n'
                  'stream read less than specified amount, expected 4, found 1',
 'truncated-431': 'EXC construct.core.StreamError:Error in path (parsing) -> '
                  'prefix_suffix_data_locators -> sar_data_format_type_code\n'
                  'stream read less than specified amount, expected 4, found 3',
 'truncated-432': 'EXC construct.core.StreamError:Error in path (parsing) -> '
                  'prefix_suffix_data_locators -> number_of_left_fill_bits_within_pixel\n'
                  'stream read less than specified amount, expected 4, found 0',
 'truncated-433': 'EXC construct.core.StreamError:Error in path (parsing) -> '
                  'prefix_suffix_data_locators -> number_of_left_fill_bits_within_pixel\n'
                  'stream read less than specified amount, expected 4, found 1',
 'truncated-435': 'EXC construct.core.StreamError:Error in path (parsing) -> '
                  'prefix_suffix_data_locators -> number_of_left_fill_bits_within_pixel\n'
                  'stream read less than specified amount, expected 4, found 3',
 'truncated-436': 'EXC construct.core.StreamError:Error in path (parsing) -> '
                  'prefix_suffix_data_locators -> number_of_right_fill_bits_within_pixel\n'
                  'stream read less than specified amount, expected 4, found 0',
 'truncated-437': 'EXC construct.core.StreamError:Error in path (parsing) -> '
                  'prefix_suffix_data_locators -> number_of_right_fill_bits_within_pixel\n'
                  'stream read less than specified amount, expected 4, found 1',
 'truncated-439': 'EXC construct.core.StreamError:Error in path (parsing) -> '
                  'prefix_suffix_data_locators -> number_of_right_fill_bits_within_pixel\n'
                  'stream read less than specified amount, expected 4, found 3',
 'truncated-440': 'EXC construct.core.StreamError:Error in path (parsing) -> '
                  'prefix_suffix_data_locators -> maximum_data_range_of_pixel\n'
                  'stream read less than specified amount, expected 8, found 0',
 'truncated-441': 'EXC construct.core.StreamError:Error in path (parsing) -> '
                  'prefix_suffix_data_locators -> maximum_data_range_of_pixel\n'
                  'stream read less than specified amount, expected 8, found 1',
 'truncated-447': 'EXC construct.core.StreamError:Error in path (parsing) -> '
                  'prefix_suffix_data_locators -> maximum_data_range_of_pixel\n'
                  'stream read less than specified amount, expected 8, found 7',
 'truncated-448': 'EXC construct.core.StreamError:Error in path (parsing) -> '
                  'prefix_suffix_data_locators -> number_of_burst_data\n'
                  'stream read less than specified amount, expected 4, found 0',
 'truncated-449': 'EXC construct.core.StreamError:Error in path (parsing) -> '
                  'prefix_suffix_data_locators -> number_of_burst_data\n'
                  'stream read less than specified amount, expected 4, found 1',
 'truncated-451': 'EXC construct.core.StreamError:Error in path (parsing) -> '
                  'prefix_suffix_data_locators -> number_of_burst_data\n'
                  'stream read less than specified amount, expected 4, found 3',
 'truncated-452': 'EXC construct.core.StreamError:Error in path (parsing) -> '
                  'prefix_suffix_data_locators -> number_of_lines_per_burst\n'
                  'stream read less than specified amount, expected 4, found 0',
 'truncated-453': 'EXC construct.core.StreamError:Error in path (parsing) -> '
                  'prefix_suffix_data_locators -> number_of_lines_per_burst\n'
                  'stream read less than specified amount, expected 4, found 1',
 'truncated-455': 'EXC construct.core.StreamError:Error in path (parsing) -> '
                  'prefix_suffix_data_locators -> number_of_lines_per_burst\n'
                  'stream read less than specified amount, expected 4, found 3',
 'truncated-456': 'EXC construct.core.StreamError:Error in path (parsing) -> '
                  'scansar_burst_data_information -> number_of_overlap_lines_with_adjacent_bursts\n'
                  'stream read less than specified amount, expected 4, found 0',
 'truncated-457': 'EXC construct.core.StreamError:Error in path (parsing) -> '
                  'scansar_burst_data_information -> number_of_overlap_lines_with_adjacent_bursts\n'
                  'stream read less than specified amount, expected 4, found 1',
 'truncated-459': 'EXC construct.core.StreamError:Error in path (parsing) -> '
                  'scansar_burst_data_information -> number_of_overlap_lines_with_adjacent_bursts\n'
                  'stream read less than specified amount, expected 4, found 3',
 'truncated-460': 'EXC construct.core.StreamError:Error in path (parsing) -> '
                  'scansar_burst_data_information -> blanks\n'
                  'stream read less than specified amount, expected 260, found 0',
 'truncated-461': 'EXC construct.core.StreamError:Error in path (parsing) -> '
                  'scansar_burst_data_information -> blanks\n'
                  'stream read less than specified amount, expected 260, found 1',
 'truncated-719': 'EXC construct.core.StreamError:Error in path (parsing) -> '
                  'scansar_burst_data_information -> blanks\n'
                  'stream read less than specified amount, expected 260, found 259'}


def main():
    actual = {name: run(func) for name, func in cases.items()}
    if "--record" in sys.argv:
        pprint.pprint(actual, width=100, sort_dicts=False)
        return 0

    assert list(actual) == list(EXPECTED), "case list differs from the recorded one"
    failures = [name for name in actual if actual[name] != EXPECTED[name]]
    for name in failures:
        print(f"MISMATCH {name}\n  expected: {EXPECTED[name]}\n  actual:   {actual[name]}")
    assert not failures, failures

    again = {name: run(func) for name, func in cases.items()}
    assert again == EXPECTED, [name for name in again if again[name] != EXPECTED[name]]

    n_errors = sum(1 for value in actual.values() if value.startswith("EXC"))
    print(f"ok: {len(actual)} cases ({n_errors} of them failures), twice")
    return 0


def test_equivalence():
    assert main() == 0


if __name__ == "__main__":
    sys.exit(main())
