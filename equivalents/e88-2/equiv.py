"""Equivalence check for refactoring 2 (ceos_alos2/dicttoolz.py).

Touched: valsplit, keysplit, copy_items, move_items, key_exists.

Run as

    cd /tmp/wt10/e88 && PYTHONPATH=/tmp/wt10/e88 /venv/bin/python _eq/2/equiv.py

(or through pytest). ``EXPECTED`` was recorded from the unchanged code (HEAD) with
``equiv.py --record``; the script has to pass with and without the patch.
"""

import collections
import copy
import sys
import types

from ceos_alos2 import dicttoolz
from ceos_alos2.hierarchy import Group


def describe(value):
    module = type(value).__module__
    if module == __name__:
        module = "<equiv>"
    return f"{module}.{type(value).__qualname__}:{value!r}"


def describe_exception(e):
    return (
        f"raised {describe(e)} cause={describe(e.__cause__)}"
        f" context={type(e.__context__).__name__} suppress={e.__suppress_context__}"
    )


def call(f, *args, **kwargs):
    try:
        return "ok " + describe(f(*args, **kwargs))
    except BaseException as e:  # noqa: B902
        return describe_exception(e)


class Logging(collections.abc.Mapping):
    """mapping which records how it is accessed"""

    def __init__(self, data, log, name):
        self.data = data
        self.log = log
        self.name = name

    def __getitem__(self, key):
        self.log.append(f"{self.name}[{key!r}]")
        value = self.data[key]
        if isinstance(value, dict):
            return Logging(value, self.log, f"{self.name}[{key!r}]")
        return value

    def __iter__(self):
        self.log.append(f"iter({self.name})")
        return iter(self.data)

    def __len__(self):
        return len(self.data)

    def __repr__(self):
        return f"Logging({self.data!r})"


# --- valsplit / keysplit -----------------------------------------------------------


def predicates():
    calls = []

    def recording(x):
        calls.append(x)
        return isinstance(x, int) and x > 1

    def raising(x):
        if x == 2:
            raise RuntimeError(f"predicate failed for {x!r}")
        return True

    return calls, [
        ("truthy", lambda x: x != 0),
        ("even", lambda x: isinstance(x, int) and x % 2 == 0),
        ("always", lambda x: True),
        ("never", lambda x: False),
        ("int 0/1", lambda x: 1 if x else 0),
        ("int 0/1/2", lambda x: x % 3 if isinstance(x, int) else 2),
        ("float", lambda x: 1.0 if x else 0.0),
        ("none", lambda x: None),
        ("identity", lambda x: x),
        ("str", lambda x: "yes" if x else ""),
        ("unhashable", lambda x: [x]),
        ("recording", recording),
        ("raising", raising),
        ("builtin", bool),
        ("type", str),
        ("not callable", None),
        ("two arguments", lambda x, y: True),
    ]


split_data = [
    {},
    {0: 1, 1: 0, 2: 2},
    {1: 0, 3: 0, 2: 1},
    {3: "c", 2: "b", 1: "a", 0: ""},
    {"a": 1, "b": None, "c": 0, "d": [1], "e": ()},
    {True: False, 2: True},
    collections.OrderedDict([(2, 0), (1, 5), (0, 7)]),
    types.MappingProxyType({5: 6, 0: 0}),
    Group(path="/", url="u", data={}, attrs={}),
    [(1, 2)],
    None,
]


def observe_split():
    observed = []
    for fname in ("valsplit", "keysplit"):
        f = getattr(dicttoolz, fname)
        for index, data in enumerate(split_data):
            calls, preds = predicates()
            for pname, predicate in preds:
                before = repr(data)
                del calls[:]
                try:
                    result = f(predicate, data)
                except BaseException as e:  # noqa: B902
                    observed.append(f"{fname}[{pname}]({index}) -> {describe_exception(e)}")
                else:
                    first, second = result
                    observed.append(
                        f"{fname}[{pname}]({index}) -> {type(result).__name__}"
                        f" {describe(first)} {list(first.items())!r}"
                        f" {describe(second)} {list(second.items())!r}"
                    )
                    assert first is not data and second is not data
                if pname == "recording":
                    observed.append(f"{fname}[{pname}]({index}) calls {calls!r}")
                assert repr(data) == before

    # keyword arguments and the wrapped predicate's argument
    observed.append(call(dicttoolz.valsplit, predicate=lambda v: v > 1, d={"a": 1, "b": 2}))
    observed.append(call(dicttoolz.keysplit, d={"a": 1, "b": 2}, predicate=lambda k: k > "a"))
    observed.append(call(dicttoolz.valsplit, lambda v: v[0], {"a": (True, 0), "b": (False, 1)}))
    observed.append(call(dicttoolz.keysplit, lambda k: k[0], {(True, 0): "a", (False, 1): "b"}))
    return observed


# --- copy_items / move_items ----------------------------------------------------------


def base_mapping():
    return {
        "a": 1,
        "b": {"c": 2, "d": {"e": 4, "f": [1, 2, 3]}},
        "l": [10, 20, {"x": "y"}],
        "n": None,
        "s": "text",
        "ab": {"cd": 5},
        0: {1: {2: "int keys"}},
    }


instruction_cases = [
    {},
    {("b", "d"): ["a"]},
    {("d",): ["b", "c"]},
    {("d",): ["e"]},
    {("d",): ["e", "f"]},
    {("z",): ["b", "d", "e"]},
    {("z", "y", "x"): ["b", "d", "f"]},
    {("b", "c"): ["a"]},
    {("a",): ["b"]},
    {("a",): ["a"]},
    {("b", "d", "e"): ["b", "d", "e"]},
    {("b",): ["b", "d"]},
    {("b", "d"): ["b"]},
    {("new",): ["l", 0], ("other",): ["l", 2, "x"]},
    {("new",): ["l", 5]},
    {("new",): ["l", "x"]},
    {("new",): ["l", 2]},
    {("new",): ["l"]},
    {("new",): ["n"]},
    {("new",): ["n", "x"]},
    {("new",): ["s", 0]},
    {("new",): ["s"]},
    {("new",): "ab"},
    {("new",): "a"},
    {("new",): "bc"},
    {("new",): ("b", "c")},
    {("new",): ("ab", "cd")},
    {("new",): [0, 1, 2]},
    {("new",): [0, 1]},
    {"xy": ["a"]},
    {"x": ["a"]},
    {("a", "x"): ["b", "c"]},
    {("l", "x"): ["a"]},
    {("s", "x"): ["a"]},
    {("n", "x"): ["a"]},
    {(): ["a"]},
    {("new",): []},
    {("new",): ()},
    {("new",): ""},
    {("new",): 5},
    {("new",): None},
    {("new",): ["b", ["unhashable"]]},
    {("first",): ["a"], ("second",): ["first"]},
    {("first",): ["b", "c"], ("second",): ["b", "c"]},
    {("first",): ["b", "c"], ("second",): ["b", "d", "e"], ("third",): ["missing"]},
    {("first",): ["missing"], ("second",): ["b", "d", "e"], ("b", "d", "g"): ["a"]},
    {("b", "d", "e"): ["a"], ("a",): ["b", "d", "e"]},
    {frozenset(["fs"]): ["a"]},
    {("k1", "k2"): ["b", "d"], ("k3",): ["b", "d", "f"]},
]


def shares_structure(result, mapping):
    """names of the nested containers which are the same object in both"""
    shared = []

    def walk(a, b, path):
        if a is b and isinstance(a, (dict, list)):
            shared.append(path)
            return
        if isinstance(a, dict) and isinstance(b, dict):
            for k in a:
                if k in b:
                    walk(a[k], b[k], path + (k,))

    walk(result, mapping, ())
    return shared


def observe_items():
    observed = []
    for fname in ("copy_items", "move_items"):
        f = getattr(dicttoolz, fname)
        for index, instructions in enumerate(instruction_cases):
            mapping = base_mapping()
            before = copy.deepcopy(mapping)
            instructions_before = copy.deepcopy(instructions)
            try:
                result = f(instructions, mapping)
            except BaseException as e:  # noqa: B902
                observed.append(f"{fname}({index}) -> {describe_exception(e)}")
            else:
                observed.append(
                    f"{fname}({index}) -> ok {describe(result)} same={result is mapping}"
                    f" shared={shares_structure(result, mapping)!r}"
                )
            assert mapping == before
            assert instructions == instructions_before

        # access pattern on the source mapping
        for index, instructions in enumerate(instruction_cases[:12]):
            log = []
            mapping = Logging(base_mapping(), log, "m")
            observed.append(f"{fname} logged({index}) -> {call(f, instructions, mapping)}")
            observed.append(f"{fname} logged({index}) log {log!r}")

        # other containers
        for label, mapping in [
            ("OrderedDict", collections.OrderedDict(base_mapping())),
            ("defaultdict", collections.defaultdict(dict, base_mapping())),
            ("proxy", types.MappingProxyType(base_mapping())),
            ("empty", {}),
            ("list", [1, 2]),
            ("None", None),
        ]:
            for index, instructions in enumerate(instruction_cases[:8]):
                observed.append(f"{fname} {label}({index}) -> {call(f, instructions, mapping)}")
                observed.append(f"{fname} {label}({index}) left {mapping!r}")

        observed.append(call(f, instructions={("q",): ["a"]}, mapping={"a": 1}))
        observed.append(call(f, [(("q",), ["a"])], {"a": 1}))
        observed.append(call(f, None, {"a": 1}))

    # the value stored is the sentinel
    observed.append(
        call(dicttoolz.copy_items, {("q",): ["a"]}, {"a": dicttoolz.sentinel}).replace(
            repr(dicttoolz.sentinel), "<sentinel>"
        )
    )
    # values of mutable type are copied by move_items only
    inner = {"deep": [1]}
    mapping = {"a": inner}
    copied = dicttoolz.copy_items({("q",): ["a"]}, mapping)
    moved = dicttoolz.move_items({("q",): ["a"]}, mapping)
    observed.append(f"identity copy={copied['q'] is inner} move={moved['q'] is inner}")
    observed.append(f"moved {moved!r} mapping {mapping!r}")
    return observed


# --- key_exists ------------------------------------------------------------------------


def observe_key_exists():
    observed = []
    mapping = {
        "a": 1,
        "b": {"c": 2, "d": {"e": 4}, "": {"": 0}},
        "l": [1, {"x": 2}],
        "": {"": "empty"},
        "a.b": "dotted",
        ("t", "u"): 3,
        5: {6: 7},
        None: 0,
        "n": None,
        "s": dicttoolz.sentinel,
        "str": "abc",
        ".": "dot",
    }
    keys = [
        "a",
        "z",
        "b.c",
        "a.b",
        "b.d.e",
        "b.d.f",
        "b.d.e.f",
        "b.",
        ".b",
        ".",
        "..",
        "",
        "b..",
        "l.0",
        "l.1.x",
        "n",
        "n.x",
        "s",
        "str",
        "str.0",
        ["b", "d", "e"],
        ["a", "b"],
        ["a.b"],
        ["b.c"],
        [],
        ["l", 0],
        ["l", 1, "x"],
        ["l", 2],
        ["l", "x"],
        ["str", 0],
        ["str", 5],
        [5, 6],
        [5, 7],
        [None],
        [("t", "u")],
        [["unhashable"]],
        [".", "a"],
        ["."],
        ["a", "."],
        ("t", "u"),
        ("a",),
        ("b", "c"),
        (".", "a"),
        5,
        None,
        1.5,
        b"a",
        b"a.b",
        frozenset(["a"]),
        frozenset(["."]),
        {"a": 1},
        {".": 1},
        range(3),
    ]
    for key in keys:
        before = copy.deepcopy(key)
        observed.append(f"key_exists({key!r}) -> {call(dicttoolz.key_exists, key, mapping)}")
        assert key == before and type(key) is type(before)

    for label, other in [
        ("empty", {}),
        ("list", [1, 2]),
        ("None", None),
        ("str", "a.b"),
        ("defaultdict", collections.defaultdict(dict, {"a": {"b": 1}})),
        ("Group", Group(path="/", url="u", data={"g": Group("g", "u", {}, {"x": 1})}, attrs={})),
    ]:
        for key in ["a", "a.b", "a.c.d", ["a", "b"], ["g"], "g.attrs", [0], "0"]:
            observed.append(
                f"key_exists({key!r}, {label}) -> {call(dicttoolz.key_exists, key, other)}"
            )
        if label == "defaultdict":
            observed.append(f"defaultdict left {dict(other)!r}")

    log = []
    logged = Logging({"a": {"b": {"c": 1}}, "x": 1}, log, "m")
    for key in ["a.b.c", "a.q.c", "x.y", ["a", "b"], "q"]:
        observed.append(f"key_exists({key!r}, logged) -> {call(dicttoolz.key_exists, key, logged)}")
    observed.append(f"log {log!r}")
    observed.append(call(dicttoolz.key_exists, key="a.b", mapping={"a": {"b": 1}}))
    observed.append(call(dicttoolz.key_exists, mapping={"a": {"b": 1}}, key=["a", "c"]))
    return observed


def observe():
    return observe_split() + observe_items() + observe_key_exists()


EXPECTED = ['valsplit[truthy](0) -> tuple builtins.dict:{} [] builtins.dict:{} []',
 'valsplit[even](0) -> tuple builtins.dict:{} [] builtins.dict:{} []',
 'valsplit[always](0) -> tuple builtins.dict:{} [] builtins.dict:{} []',
 'valsplit[never](0) -> tuple builtins.dict:{} [] builtins.dict:{} []',
 'valsplit[int 0/1](0) -> tuple builtins.dict:{} [] builtins.dict:{} []',
 'valsplit[int 0/1/2](0) -> tuple builtins.dict:{} [] builtins.dict:{} []',
 'valsplit[float](0) -> tuple builtins.dict:{} [] builtins.dict:{} []',
 'valsplit[none](0) -> tuple builtins.dict:{} [] builtins.dict:{} []',
 'valsplit[identity](0) -> tuple builtins.dict:{} [] builtins.dict:{} []',
 'valsplit[str](0) -> tuple builtins.dict:{} [] builtins.dict:{} []',
 'valsplit[unhashable](0) -> tuple builtins.dict:{} [] builtins.dict:{} []',
 'valsplit[recording](0) -> tuple builtins.dict:{} [] builtins.dict:{} []',
 'valsplit[recording](0) calls []',
 'valsplit[raising](0) -> tuple builtins.dict:{} [] builtins.dict:{} []',
 'valsplit[builtin](0) -> tuple builtins.dict:{} [] builtins.dict:{} []',
 'valsplit[type](0) -> tuple builtins.dict:{} [] builtins.dict:{} []',
 'valsplit[not callable](0) -> tuple builtins.dict:{} [] builtins.dict:{} []',
 'valsplit[two arguments](0) -> tuple builtins.dict:{} [] builtins.dict:{} []',
 'valsplit[truthy](1) -> tuple builtins.dict:{0: 1, 2: 2} [(0, 1), (2, 2)] builtins.dict:{1: 0} [(1, 0)]',
 'valsplit[even](1) -> tuple builtins.dict:{1: 0, 2: 2} [(1, 0), (2, 2)] builtins.dict:{0: 1} [(0, 1)]',
 'valsplit[always](1) -> tuple builtins.dict:{0: 1, 1: 0, 2: 2} [(0, 1), (1, 0), (2, 2)] builtins.dict:{} []',
 'valsplit[never](1) -> tuple builtins.dict:{} [] builtins.dict:{0: 1, 1: 0, 2: 2} [(0, 1), (1, 0), (2, 2)]',
 'valsplit[int 0/1](1) -> tuple builtins.dict:{0: 1, 2: 2} [(0, 1), (2, 2)] builtins.dict:{1: 0} [(1, 0)]',
 'valsplit[int 0/1/2](1) -> tuple builtins.dict:{0: 1} [(0, 1)] builtins.dict:{1: 0} [(1, 0)]',
 'valsplit[float](1) -> tuple builtins.dict:{0: 1, 2: 2} [(0, 1), (2, 2)] builtins.dict:{1: 0} [(1, 0)]',
 'valsplit[none](1) -> tuple builtins.dict:{} [] builtins.dict:{} []',
 'valsplit[identity](1) -> tuple builtins.dict:{0: 1} [(0, 1)] builtins.dict:{1: 0} [(1, 0)]',
 'valsplit[str](1) -> tuple builtins.dict:{} [] builtins.dict:{} []',
 'valsplit[unhashable](1) -> raised builtins.TypeError:TypeError("unhashable type: \'list\'") '
 'cause=builtins.NoneType:None context=NoneType suppress=False',
 'valsplit[recording](1) -> tuple builtins.dict:{2: 2} [(2, 2)] builtins.dict:{0: 1, 1: 0} [(0, 1), (1, 0)]',
 'valsplit[recording](1) calls [1, 0, 2]',
 "valsplit[raising](1) -> raised builtins.RuntimeError:RuntimeError('predicate failed for 2') "
 'cause=builtins.NoneType:None context=NoneType suppress=False',
 'valsplit[builtin](1) -> tuple builtins.dict:{0: 1, 2: 2} [(0, 1), (2, 2)] builtins.dict:{1: 0} [(1, 0)]',
 'valsplit[type](1) -> tuple builtins.dict:{} [] builtins.dict:{} []',
 'valsplit[not callable](1) -> raised builtins.TypeError:TypeError("\'NoneType\' object is not callable") '
 'cause=builtins.NoneType:None context=NoneType suppress=False',
 'valsplit[two arguments](1) -> raised builtins.TypeError:TypeError("predicates.<locals>.<lambda>() missing '
 '1 required positional argument: \'y\'") cause=builtins.NoneType:None context=NoneType suppress=False',
 'valsplit[truthy](2) -> tuple builtins.dict:{2: 1} [(2, 1)] builtins.dict:{1: 0, 3: 0} [(1, 0), (3, 0)]',
 'valsplit[even](2) -> tuple builtins.dict:{1: 0, 3: 0} [(1, 0), (3, 0)] builtins.dict:{2: 1} [(2, 1)]',
 'valsplit[always](2) -> tuple builtins.dict:{1: 0, 3: 0, 2: 1} [(1, 0), (3, 0), (2, 1)] builtins.dict:{} []',
 'valsplit[never](2) -> tuple builtins.dict:{} [] builtins.dict:{1: 0, 3: 0, 2: 1} [(1, 0), (3, 0), (2, 1)]',
 'valsplit[int 0/1](2) -> tuple builtins.dict:{2: 1} [(2, 1)] builtins.dict:{1: 0, 3: 0} [(1, 0), (3, 0)]',
 'valsplit[int 0/1/2](2) -> tuple builtins.dict:{2: 1} [(2, 1)] builtins.dict:{1: 0, 3: 0} [(1, 0), (3, 0)]',
 'valsplit[float](2) -> tuple builtins.dict:{2: 1} [(2, 1)] builtins.dict:{1: 0, 3: 0} [(1, 0), (3, 0)]',
 'valsplit[none](2) -> tuple builtins.dict:{} [] builtins.dict:{} []',
 'valsplit[identity](2) -> tuple builtins.dict:{2: 1} [(2, 1)] builtins.dict:{1: 0, 3: 0} [(1, 0), (3, 0)]',
 'valsplit[str](2) -> tuple builtins.dict:{} [] builtins.dict:{} []',
 'valsplit[unhashable](2) -> raised builtins.TypeError:TypeError("unhashable type: \'list\'") '
 'cause=builtins.NoneType:None context=NoneType suppress=False',
 'valsplit[recording](2) -> tuple builtins.dict:{} [] builtins.dict:{1: 0, 3: 0, 2: 1} [(1, 0), (3, 0), (2, '
 '1)]',
 'valsplit[recording](2) calls [0, 0, 1]',
 'valsplit[raising](2) -> tuple builtins.dict:{1: 0, 3: 0, 2: 1} [(1, 0), (3, 0), (2, 1)] builtins.dict:{} '
 '[]',
 'valsplit[builtin](2) -> tuple builtins.dict:{2: 1} [(2, 1)] builtins.dict:{1: 0, 3: 0} [(1, 0), (3, 0)]',
 'valsplit[type](2) -> tuple builtins.dict:{} [] builtins.dict:{} []',
 'valsplit[not callable](2) -> raised builtins.TypeError:TypeError("\'NoneType\' object is not callable") '
 'cause=builtins.NoneType:None context=NoneType suppress=False',
 'valsplit[two arguments](2) -> raised builtins.TypeError:TypeError("predicates.<locals>.<lambda>() missing '
 '1 required positional argument: \'y\'") cause=builtins.NoneType:None context=NoneType suppress=False',
 "valsplit[truthy](3) -> tuple builtins.dict:{3: 'c', 2: 'b', 1: 'a', 0: ''} [(3, 'c'), (2, 'b'), (1, 'a'), "
 "(0, '')] builtins.dict:{} []",
 "valsplit[even](3) -> tuple builtins.dict:{} [] builtins.dict:{3: 'c', 2: 'b', 1: 'a', 0: ''} [(3, 'c'), "
 "(2, 'b'), (1, 'a'), (0, '')]",
 "valsplit[always](3) -> tuple builtins.dict:{3: 'c', 2: 'b', 1: 'a', 0: ''} [(3, 'c'), (2, 'b'), (1, 'a'), "
 "(0, '')] builtins.dict:{} []",
 "valsplit[never](3) -> tuple builtins.dict:{} [] builtins.dict:{3: 'c', 2: 'b', 1: 'a', 0: ''} [(3, 'c'), "
 "(2, 'b'), (1, 'a'), (0, '')]",
 "valsplit[int 0/1](3) -> tuple builtins.dict:{3: 'c', 2: 'b', 1: 'a'} [(3, 'c'), (2, 'b'), (1, 'a')] "
 "builtins.dict:{0: ''} [(0, '')]",
 'valsplit[int 0/1/2](3) -> tuple builtins.dict:{} [] builtins.dict:{} []',
 "valsplit[float](3) -> tuple builtins.dict:{3: 'c', 2: 'b', 1: 'a'} [(3, 'c'), (2, 'b'), (1, 'a')] "
 "builtins.dict:{0: ''} [(0, '')]",
 'valsplit[none](3) -> tuple builtins.dict:{} [] builtins.dict:{} []',
 'valsplit[identity](3) -> tuple builtins.dict:{} [] builtins.dict:{} []',
 'valsplit[str](3) -> tuple builtins.dict:{} [] builtins.dict:{} []',
 'valsplit[unhashable](3) -> raised builtins.TypeError:TypeError("unhashable type: \'list\'") '
 'cause=builtins.NoneType:None context=NoneType suppress=False',
 "valsplit[recording](3) -> tuple builtins.dict:{} [] builtins.dict:{3: 'c', 2: 'b', 1: 'a', 0: ''} [(3, "
 "'c'), (2, 'b'), (1, 'a'), (0, '')]",
 "valsplit[recording](3) calls ['c', 'b', 'a', '']",
 "valsplit[raising](3) -> tuple builtins.dict:{3: 'c', 2: 'b', 1: 'a', 0: ''} [(3, 'c'), (2, 'b'), (1, 'a'), "
 "(0, '')] builtins.dict:{} []",
 "valsplit[builtin](3) -> tuple builtins.dict:{3: 'c', 2: 'b', 1: 'a'} [(3, 'c'), (2, 'b'), (1, 'a')] "
 "builtins.dict:{0: ''} [(0, '')]",
 'valsplit[type](3) -> tuple builtins.dict:{} [] builtins.dict:{} []',
 'valsplit[not callable](3) -> raised builtins.TypeError:TypeError("\'NoneType\' object is not callable") '
 'cause=builtins.NoneType:None context=NoneType suppress=False',
 'valsplit[two arguments](3) -> raised builtins.TypeError:TypeError("predicates.<locals>.<lambda>() missing '
 '1 required positional argument: \'y\'") cause=builtins.NoneType:None context=NoneType suppress=False',
 "valsplit[truthy](4) -> tuple builtins.dict:{'a': 1, 'b': None, 'd': [1], 'e': ()} [('a', 1), ('b', None), "
 "('d', [1]), ('e', ())] builtins.dict:{'c': 0} [('c', 0)]",
 "valsplit[even](4) -> tuple builtins.dict:{'c': 0} [('c', 0)] builtins.dict:{'a': 1, 'b': None, 'd': [1], "
 "'e': ()} [('a', 1), ('b', None), ('d', [1]), ('e', ())]",
 "valsplit[always](4) -> tuple builtins.dict:{'a': 1, 'b': None, 'c': 0, 'd': [1], 'e': ()} [('a', 1), ('b', "
 "None), ('c', 0), ('d', [1]), ('e', ())] builtins.dict:{} []",
 "valsplit[never](4) -> tuple builtins.dict:{} [] builtins.dict:{'a': 1, 'b': None, 'c': 0, 'd': [1], 'e': "
 "()} [('a', 1), ('b', None), ('c', 0), ('d', [1]), ('e', ())]",
 "valsplit[int 0/1](4) -> tuple builtins.dict:{'a': 1, 'd': [1]} [('a', 1), ('d', [1])] builtins.dict:{'b': "
 "None, 'c': 0, 'e': ()} [('b', None), ('c', 0), ('e', ())]",
 "valsplit[int 0/1/2](4) -> tuple builtins.dict:{'a': 1} [('a', 1)] builtins.dict:{'c': 0} [('c', 0)]",
 "valsplit[float](4) -> tuple builtins.dict:{'a': 1, 'd': [1]} [('a', 1), ('d', [1])] builtins.dict:{'b': "
 "None, 'c': 0, 'e': ()} [('b', None), ('c', 0), ('e', ())]",
 'valsplit[none](4) -> tuple builtins.dict:{} [] builtins.dict:{} []',
 'valsplit[identity](4) -> raised builtins.TypeError:TypeError("unhashable type: \'list\'") '
 'cause=builtins.NoneType:None context=NoneType suppress=False',
 'valsplit[str](4) -> tuple builtins.dict:{} [] builtins.dict:{} []',
 'valsplit[unhashable](4) -> raised builtins.TypeError:TypeError("unhashable type: \'list\'") '
 'cause=builtins.NoneType:None context=NoneType suppress=False',
 "valsplit[recording](4) -> tuple builtins.dict:{} [] builtins.dict:{'a': 1, 'b': None, 'c': 0, 'd': [1], "
 "'e': ()} [('a', 1), ('b', None), ('c', 0), ('d', [1]), ('e', ())]",
 'valsplit[recording](4) calls [1, None, 0, [1], ()]',
 "valsplit[raising](4) -> tuple builtins.dict:{'a': 1, 'b': None, 'c': 0, 'd': [1], 'e': ()} [('a', 1), "
 "('b', None), ('c', 0), ('d', [1]), ('e', ())] builtins.dict:{} []",
 "valsplit[builtin](4) -> tuple builtins.dict:{'a': 1, 'd': [1]} [('a', 1), ('d', [1])] builtins.dict:{'b': "
 "None, 'c': 0, 'e': ()} [('b', None), ('c', 0), ('e', ())]",
 'valsplit[type](4) -> tuple builtins.dict:{} [] builtins.dict:{} []',
 'valsplit[not callable](4) -> raised builtins.TypeError:TypeError("\'NoneType\' object is not callable") '
 'cause=builtins.NoneType:None context=NoneType suppress=False',
 'valsplit[two arguments](4) -> raised builtins.TypeError:TypeError("predicates.<locals>.<lambda>() missing '
 '1 required positional argument: \'y\'") cause=builtins.NoneType:None context=NoneType suppress=False',
 'valsplit[truthy](5) -> tuple builtins.dict:{2: True} [(2, True)] builtins.dict:{True: False} [(True, '
 'False)]',
 'valsplit[even](5) -> tuple builtins.dict:{True: False} [(True, False)] builtins.dict:{2: True} [(2, True)]',
 'valsplit[always](5) -> tuple builtins.dict:{True: False, 2: True} [(True, False), (2, True)] '
 'builtins.dict:{} []',
 'valsplit[never](5) -> tuple builtins.dict:{} [] builtins.dict:{True: False, 2: True} [(True, False), (2, '
 'True)]',
 'valsplit[int 0/1](5) -> tuple builtins.dict:{2: True} [(2, True)] builtins.dict:{True: False} [(True, '
 'False)]',
 'valsplit[int 0/1/2](5) -> tuple builtins.dict:{2: True} [(2, True)] builtins.dict:{True: False} [(True, '
 'False)]',
 'valsplit[float](5) -> tuple builtins.dict:{2: True} [(2, True)] builtins.dict:{True: False} [(True, '
 'False)]',
 'valsplit[none](5) -> tuple builtins.dict:{} [] builtins.dict:{} []',
 'valsplit[identity](5) -> tuple builtins.dict:{2: True} [(2, True)] builtins.dict:{True: False} [(True, '
 'False)]',
 'valsplit[str](5) -> tuple builtins.dict:{} [] builtins.dict:{} []',
 'valsplit[unhashable](5) -> raised builtins.TypeError:TypeError("unhashable type: \'list\'") '
 'cause=builtins.NoneType:None context=NoneType suppress=False',
 'valsplit[recording](5) -> tuple builtins.dict:{} [] builtins.dict:{True: False, 2: True} [(True, False), '
 '(2, True)]',
 'valsplit[recording](5) calls [False, True]',
 'valsplit[raising](5) -> tuple builtins.dict:{True: False, 2: True} [(True, False), (2, True)] '
 'builtins.dict:{} []',
 'valsplit[builtin](5) -> tuple builtins.dict:{2: True} [(2, True)] builtins.dict:{True: False} [(True, '
 'False)]',
 'valsplit[type](5) -> tuple builtins.dict:{} [] builtins.dict:{} []',
 'valsplit[not callable](5) -> raised builtins.TypeError:TypeError("\'NoneType\' object is not callable") '
 'cause=builtins.NoneType:None context=NoneType suppress=False',
 'valsplit[two arguments](5) -> raised builtins.TypeError:TypeError("predicates.<locals>.<lambda>() missing '
 '1 required positional argument: \'y\'") cause=builtins.NoneType:None context=NoneType suppress=False',
 'valsplit[truthy](6) -> tuple builtins.dict:{1: 5, 0: 7} [(1, 5), (0, 7)] builtins.dict:{2: 0} [(2, 0)]',
 'valsplit[even](6) -> tuple builtins.dict:{2: 0} [(2, 0)] builtins.dict:{1: 5, 0: 7} [(1, 5), (0, 7)]',
 'valsplit[always](6) -> tuple builtins.dict:{2: 0, 1: 5, 0: 7} [(2, 0), (1, 5), (0, 7)] builtins.dict:{} []',
 'valsplit[never](6) -> tuple builtins.dict:{} [] builtins.dict:{2: 0, 1: 5, 0: 7} [(2, 0), (1, 5), (0, 7)]',
 'valsplit[int 0/1](6) -> tuple builtins.dict:{1: 5, 0: 7} [(1, 5), (0, 7)] builtins.dict:{2: 0} [(2, 0)]',
 'valsplit[int 0/1/2](6) -> tuple builtins.dict:{0: 7} [(0, 7)] builtins.dict:{2: 0} [(2, 0)]',
 'valsplit[float](6) -> tuple builtins.dict:{1: 5, 0: 7} [(1, 5), (0, 7)] builtins.dict:{2: 0} [(2, 0)]',
 'valsplit[none](6) -> tuple builtins.dict:{} [] builtins.dict:{} []',
 'valsplit[identity](6) -> tuple builtins.dict:{} [] builtins.dict:{2: 0} [(2, 0)]',
 'valsplit[str](6) -> tuple builtins.dict:{} [] builtins.dict:{} []',
 'valsplit[unhashable](6) -> raised builtins.TypeError:TypeError("unhashable type: \'list\'") '
 'cause=builtins.NoneType:None context=NoneType suppress=False',
 'valsplit[recording](6) -> tuple builtins.dict:{1: 5, 0: 7} [(1, 5), (0, 7)] builtins.dict:{2: 0} [(2, 0)]',
 'valsplit[recording](6) calls [0, 5, 7]',
 'valsplit[raising](6) -> tuple builtins.dict:{2: 0, 1: 5, 0: 7} [(2, 0), (1, 5), (0, 7)] builtins.dict:{} '
 '[]',
 'valsplit[builtin](6) -> tuple builtins.dict:{1: 5, 0: 7} [(1, 5), (0, 7)] builtins.dict:{2: 0} [(2, 0)]',
 'valsplit[type](6) -> tuple builtins.dict:{} [] builtins.dict:{} []',
 'valsplit[not callable](6) -> raised builtins.TypeError:TypeError("\'NoneType\' object is not callable") '
 'cause=builtins.NoneType:None context=NoneType suppress=False',
 'valsplit[two arguments](6) -> raised builtins.TypeError:TypeError("predicates.<locals>.<lambda>() missing '
 '1 required positional argument: \'y\'") cause=builtins.NoneType:None context=NoneType suppress=False',
 'valsplit[truthy](7) -> tuple builtins.dict:{5: 6} [(5, 6)] builtins.dict:{0: 0} [(0, 0)]',
 'valsplit[even](7) -> tuple builtins.dict:{5: 6, 0: 0} [(5, 6), (0, 0)] builtins.dict:{} []',
 'valsplit[always](7) -> tuple builtins.dict:{5: 6, 0: 0} [(5, 6), (0, 0)] builtins.dict:{} []',
 'valsplit[never](7) -> tuple builtins.dict:{} [] builtins.dict:{5: 6, 0: 0} [(5, 6), (0, 0)]',
 'valsplit[int 0/1](7) -> tuple builtins.dict:{5: 6} [(5, 6)] builtins.dict:{0: 0} [(0, 0)]',
 'valsplit[int 0/1/2](7) -> tuple builtins.dict:{} [] builtins.dict:{5: 6, 0: 0} [(5, 6), (0, 0)]',
 'valsplit[float](7) -> tuple builtins.dict:{5: 6} [(5, 6)] builtins.dict:{0: 0} [(0, 0)]',
 'valsplit[none](7) -> tuple builtins.dict:{} [] builtins.dict:{} []',
 'valsplit[identity](7) -> tuple builtins.dict:{} [] builtins.dict:{0: 0} [(0, 0)]',
 'valsplit[str](7) -> tuple builtins.dict:{} [] builtins.dict:{} []',
 'valsplit[unhashable](7) -> raised builtins.TypeError:TypeError("unhashable type: \'list\'") '
 'cause=builtins.NoneType:None context=NoneType suppress=False',
 'valsplit[recording](7) -> tuple builtins.dict:{5: 6} [(5, 6)] builtins.dict:{0: 0} [(0, 0)]',
 'valsplit[recording](7) calls [6, 0]',
 'valsplit[raising](7) -> tuple builtins.dict:{5: 6, 0: 0} [(5, 6), (0, 0)] builtins.dict:{} []',
 'valsplit[builtin](7) -> tuple builtins.dict:{5: 6} [(5, 6)] builtins.dict:{0: 0} [(0, 0)]',
 'valsplit[type](7) -> tuple builtins.dict:{} [] builtins.dict:{} []',
 'valsplit[not callable](7) -> raised builtins.TypeError:TypeError("\'NoneType\' object is not callable") '
 'cause=builtins.NoneType:None context=NoneType suppress=False',
 'valsplit[two arguments](7) -> raised builtins.TypeError:TypeError("predicates.<locals>.<lambda>() missing '
 '1 required positional argument: \'y\'") cause=builtins.NoneType:None context=NoneType suppress=False',
 'valsplit[truthy](8) -> tuple builtins.dict:{} [] builtins.dict:{} []',
 'valsplit[even](8) -> tuple builtins.dict:{} [] builtins.dict:{} []',
 'valsplit[always](8) -> tuple builtins.dict:{} [] builtins.dict:{} []',
 'valsplit[never](8) -> tuple builtins.dict:{} [] builtins.dict:{} []',
 'valsplit[int 0/1](8) -> tuple builtins.dict:{} [] builtins.dict:{} []',
 'valsplit[int 0/1/2](8) -> tuple builtins.dict:{} [] builtins.dict:{} []',
 'valsplit[float](8) -> tuple builtins.dict:{} [] builtins.dict:{} []',
 'valsplit[none](8) -> tuple builtins.dict:{} [] builtins.dict:{} []',
 'valsplit[identity](8) -> tuple builtins.dict:{} [] builtins.dict:{} []',
 'valsplit[str](8) -> tuple builtins.dict:{} [] builtins.dict:{} []',
 'valsplit[unhashable](8) -> tuple builtins.dict:{} [] builtins.dict:{} []',
 'valsplit[recording](8) -> tuple builtins.dict:{} [] builtins.dict:{} []',
 'valsplit[recording](8) calls []',
 'valsplit[raising](8) -> tuple builtins.dict:{} [] builtins.dict:{} []',
 'valsplit[builtin](8) -> tuple builtins.dict:{} [] builtins.dict:{} []',
 'valsplit[type](8) -> tuple builtins.dict:{} [] builtins.dict:{} []',
 'valsplit[not callable](8) -> tuple builtins.dict:{} [] builtins.dict:{} []',
 'valsplit[two arguments](8) -> tuple builtins.dict:{} [] builtins.dict:{} []',
 'valsplit[truthy](9) -> raised builtins.AttributeError:AttributeError("\'list\' object has no attribute '
 '\'items\'") cause=builtins.NoneType:None context=NoneType suppress=False',
 'valsplit[even](9) -> raised builtins.AttributeError:AttributeError("\'list\' object has no attribute '
 '\'items\'") cause=builtins.NoneType:None context=NoneType suppress=False',
 'valsplit[always](9) -> raised builtins.AttributeError:AttributeError("\'list\' object has no attribute '
 '\'items\'") cause=builtins.NoneType:None context=NoneType suppress=False',
 'valsplit[never](9) -> raised builtins.AttributeError:AttributeError("\'list\' object has no attribute '
 '\'items\'") cause=builtins.NoneType:None context=NoneType suppress=False',
 'valsplit[int 0/1](9) -> raised builtins.AttributeError:AttributeError("\'list\' object has no attribute '
 '\'items\'") cause=builtins.NoneType:None context=NoneType suppress=False',
 'valsplit[int 0/1/2](9) -> raised builtins.AttributeError:AttributeError("\'list\' object has no attribute '
 '\'items\'") cause=builtins.NoneType:None context=NoneType suppress=False',
 'valsplit[float](9) -> raised builtins.AttributeError:AttributeError("\'list\' object has no attribute '
 '\'items\'") cause=builtins.NoneType:None context=NoneType suppress=False',
 'valsplit[none](9) -> raised builtins.AttributeError:AttributeError("\'list\' object has no attribute '
 '\'items\'") cause=builtins.NoneType:None context=NoneType suppress=False',
 'valsplit[identity](9) -> raised builtins.AttributeError:AttributeError("\'list\' object has no attribute '
 '\'items\'") cause=builtins.NoneType:None context=NoneType suppress=False',
 'valsplit[str](9) -> raised builtins.AttributeError:AttributeError("\'list\' object has no attribute '
 '\'items\'") cause=builtins.NoneType:None context=NoneType suppress=False',
 'valsplit[unhashable](9) -> raised builtins.AttributeError:AttributeError("\'list\' object has no attribute '
 '\'items\'") cause=builtins.NoneType:None context=NoneType suppress=False',
 'valsplit[recording](9) -> raised builtins.AttributeError:AttributeError("\'list\' object has no attribute '
 '\'items\'") cause=builtins.NoneType:None context=NoneType suppress=False',
 'valsplit[recording](9) calls []',
 'valsplit[raising](9) -> raised builtins.AttributeError:AttributeError("\'list\' object has no attribute '
 '\'items\'") cause=builtins.NoneType:None context=NoneType suppress=False',
 'valsplit[builtin](9) -> raised builtins.AttributeError:AttributeError("\'list\' object has no attribute '
 '\'items\'") cause=builtins.NoneType:None context=NoneType suppress=False',
 'valsplit[type](9) -> raised builtins.AttributeError:AttributeError("\'list\' object has no attribute '
 '\'items\'") cause=builtins.NoneType:None context=NoneType suppress=False',
 'valsplit[not callable](9) -> raised builtins.AttributeError:AttributeError("\'list\' object has no '
 'attribute \'items\'") cause=builtins.NoneType:None context=NoneType suppress=False',
 'valsplit[two arguments](9) -> raised builtins.AttributeError:AttributeError("\'list\' object has no '
 'attribute \'items\'") cause=builtins.NoneType:None context=NoneType suppress=False',
 'valsplit[truthy](10) -> raised builtins.AttributeError:AttributeError("\'NoneType\' object has no '
 'attribute \'items\'") cause=builtins.NoneType:None context=NoneType suppress=False',
 'valsplit[even](10) -> raised builtins.AttributeError:AttributeError("\'NoneType\' object has no attribute '
 '\'items\'") cause=builtins.NoneType:None context=NoneType suppress=False',
 'valsplit[always](10) -> raised builtins.AttributeError:AttributeError("\'NoneType\' object has no '
 'attribute \'items\'") cause=builtins.NoneType:None context=NoneType suppress=False',
 'valsplit[never](10) -> raised builtins.AttributeError:AttributeError("\'NoneType\' object has no attribute '
 '\'items\'") cause=builtins.NoneType:None context=NoneType suppress=False',
 'valsplit[int 0/1](10) -> raised builtins.AttributeError:AttributeError("\'NoneType\' object has no '
 'attribute \'items\'") cause=builtins.NoneType:None context=NoneType suppress=False',
 'valsplit[int 0/1/2](10) -> raised builtins.AttributeError:AttributeError("\'NoneType\' object has no '
 'attribute \'items\'") cause=builtins.NoneType:None context=NoneType suppress=False',
 'valsplit[float](10) -> raised builtins.AttributeError:AttributeError("\'NoneType\' object has no attribute '
 '\'items\'") cause=builtins.NoneType:None context=NoneType suppress=False',
 'valsplit[none](10) -> raised builtins.AttributeError:AttributeError("\'NoneType\' object has no attribute '
 '\'items\'") cause=builtins.NoneType:None context=NoneType suppress=False',
 'valsplit[identity](10) -> raised builtins.AttributeError:AttributeError("\'NoneType\' object has no '
 'attribute \'items\'") cause=builtins.NoneType:None context=NoneType suppress=False',
 'valsplit[str](10) -> raised builtins.AttributeError:AttributeError("\'NoneType\' object has no attribute '
 '\'items\'") cause=builtins.NoneType:None context=NoneType suppress=False',
 'valsplit[unhashable](10) -> raised builtins.AttributeError:AttributeError("\'NoneType\' object has no '
 'attribute \'items\'") cause=builtins.NoneType:None context=NoneType suppress=False',
 'valsplit[recording](10) -> raised builtins.AttributeError:AttributeError("\'NoneType\' object has no '
 'attribute \'items\'") cause=builtins.NoneType:None context=NoneType suppress=False',
 'valsplit[recording](10) calls []',
 'valsplit[raising](10) -> raised builtins.AttributeError:AttributeError("\'NoneType\' object has no '
 'attribute \'items\'") cause=builtins.NoneType:None context=NoneType suppress=False',
 'valsplit[builtin](10) -> raised builtins.AttributeError:AttributeError("\'NoneType\' object has no '
 'attribute \'items\'") cause=builtins.NoneType:None context=NoneType suppress=False',
 'valsplit[type](10) -> raised builtins.AttributeError:AttributeError("\'NoneType\' object has no attribute '
 '\'items\'") cause=builtins.NoneType:None context=NoneType suppress=False',
 'valsplit[not callable](10) -> raised builtins.AttributeError:AttributeError("\'NoneType\' object has no '
 'attribute \'items\'") cause=builtins.NoneType:None context=NoneType suppress=False',
 'valsplit[two arguments](10) -> raised builtins.AttributeError:AttributeError("\'NoneType\' object has no '
 'attribute \'items\'") cause=builtins.NoneType:None context=NoneType suppress=False',
 'keysplit[truthy](0) -> tuple builtins.dict:{} [] builtins.dict:{} []',
 'keysplit[even](0) -> tuple builtins.dict:{} [] builtins.dict:{} []',
 'keysplit[always](0) -> tuple builtins.dict:{} [] builtins.dict:{} []',
 'keysplit[never](0) -> tuple builtins.dict:{} [] builtins.dict:{} []',
 'keysplit[int 0/1](0) -> tuple builtins.dict:{} [] builtins.dict:{} []',
 'keysplit[int 0/1/2](0) -> tuple builtins.dict:{} [] builtins.dict:{} []',
 'keysplit[float](0) -> tuple builtins.dict:{} [] builtins.dict:{} []',
 'keysplit[none](0) -> tuple builtins.dict:{} [] builtins.dict:{} []',
 'keysplit[identity](0) -> tuple builtins.dict:{} [] builtins.dict:{} []',
 'keysplit[str](0) -> tuple builtins.dict:{} [] builtins.dict:{} []',
 'keysplit[unhashable](0) -> tuple builtins.dict:{} [] builtins.dict:{} []',
 'keysplit[recording](0) -> tuple builtins.dict:{} [] builtins.dict:{} []',
 'keysplit[recording](0) calls []',
 'keysplit[raising](0) -> tuple builtins.dict:{} [] builtins.dict:{} []',
 'keysplit[builtin](0) -> tuple builtins.dict:{} [] builtins.dict:{} []',
 'keysplit[type](0) -> tuple builtins.dict:{} [] builtins.dict:{} []',
 'keysplit[not callable](0) -> tuple builtins.dict:{} [] builtins.dict:{} []',
 'keysplit[two arguments](0) -> tuple builtins.dict:{} [] builtins.dict:{} []',
 'keysplit[truthy](1) -> tuple builtins.dict:{1: 0, 2: 2} [(1, 0), (2, 2)] builtins.dict:{0: 1} [(0, 1)]',
 'keysplit[even](1) -> tuple builtins.dict:{0: 1, 2: 2} [(0, 1), (2, 2)] builtins.dict:{1: 0} [(1, 0)]',
 'keysplit[always](1) -> tuple builtins.dict:{0: 1, 1: 0, 2: 2} [(0, 1), (1, 0), (2, 2)] builtins.dict:{} []',
 'keysplit[never](1) -> tuple builtins.dict:{} [] builtins.dict:{0: 1, 1: 0, 2: 2} [(0, 1), (1, 0), (2, 2)]',
 'keysplit[int 0/1](1) -> tuple builtins.dict:{1: 0, 2: 2} [(1, 0), (2, 2)] builtins.dict:{0: 1} [(0, 1)]',
 'keysplit[int 0/1/2](1) -> tuple builtins.dict:{1: 0} [(1, 0)] builtins.dict:{0: 1} [(0, 1)]',
 'keysplit[float](1) -> tuple builtins.dict:{1: 0, 2: 2} [(1, 0), (2, 2)] builtins.dict:{0: 1} [(0, 1)]',
 'keysplit[none](1) -> tuple builtins.dict:{} [] builtins.dict:{} []',
 'keysplit[identity](1) -> tuple builtins.dict:{1: 0} [(1, 0)] builtins.dict:{0: 1} [(0, 1)]',
 'keysplit[str](1) -> tuple builtins.dict:{} [] builtins.dict:{} []',
 'keysplit[unhashable](1) -> raised builtins.TypeError:TypeError("unhashable type: \'list\'") '
 'cause=builtins.NoneType:None context=NoneType suppress=False',
 'keysplit[recording](1) -> tuple builtins.dict:{2: 2} [(2, 2)] builtins.dict:{0: 1, 1: 0} [(0, 1), (1, 0)]',
 'keysplit[recording](1) calls [0, 1, 2]',
 "keysplit[raising](1) -> raised builtins.RuntimeError:RuntimeError('predicate failed for 2') "
 'cause=builtins.NoneType:None context=NoneType suppress=False',
 'keysplit[builtin](1) -> tuple builtins.dict:{1: 0, 2: 2} [(1, 0), (2, 2)] builtins.dict:{0: 1} [(0, 1)]',
 'keysplit[type](1) -> tuple builtins.dict:{} [] builtins.dict:{} []',
 'keysplit[not callable](1) -> raised builtins.TypeError:TypeError("\'NoneType\' object is not callable") '
 'cause=builtins.NoneType:None context=NoneType suppress=False',
 'keysplit[two arguments](1) -> raised builtins.TypeError:TypeError("predicates.<locals>.<lambda>() missing '
 '1 required positional argument: \'y\'") cause=builtins.NoneType:None context=NoneType suppress=False',
 'keysplit[truthy](2) -> tuple builtins.dict:{1: 0, 3: 0, 2: 1} [(1, 0), (3, 0), (2, 1)] builtins.dict:{} []',
 'keysplit[even](2) -> tuple builtins.dict:{2: 1} [(2, 1)] builtins.dict:{1: 0, 3: 0} [(1, 0), (3, 0)]',
 'keysplit[always](2) -> tuple builtins.dict:{1: 0, 3: 0, 2: 1} [(1, 0), (3, 0), (2, 1)] builtins.dict:{} []',
 'keysplit[never](2) -> tuple builtins.dict:{} [] builtins.dict:{1: 0, 3: 0, 2: 1} [(1, 0), (3, 0), (2, 1)]',
 'keysplit[int 0/1](2) -> tuple builtins.dict:{1: 0, 3: 0, 2: 1} [(1, 0), (3, 0), (2, 1)] builtins.dict:{} '
 '[]',
 'keysplit[int 0/1/2](2) -> tuple builtins.dict:{1: 0} [(1, 0)] builtins.dict:{3: 0} [(3, 0)]',
 'keysplit[float](2) -> tuple builtins.dict:{1: 0, 3: 0, 2: 1} [(1, 0), (3, 0), (2, 1)] builtins.dict:{} []',
 'keysplit[none](2) -> tuple builtins.dict:{} [] builtins.dict:{} []',
 'keysplit[identity](2) -> tuple builtins.dict:{1: 0} [(1, 0)] builtins.dict:{} []',
 'keysplit[str](2) -> tuple builtins.dict:{} [] builtins.dict:{} []',
 'keysplit[unhashable](2) -> raised builtins.TypeError:TypeError("unhashable type: \'list\'") '
 'cause=builtins.NoneType:None context=NoneType suppress=False',
 'keysplit[recording](2) -> tuple builtins.dict:{3: 0, 2: 1} [(3, 0), (2, 1)] builtins.dict:{1: 0} [(1, 0)]',
 'keysplit[recording](2) calls [1, 3, 2]',
 "keysplit[raising](2) -> raised builtins.RuntimeError:RuntimeError('predicate failed for 2') "
 'cause=builtins.NoneType:None context=NoneType suppress=False',
 'keysplit[builtin](2) -> tuple builtins.dict:{1: 0, 3: 0, 2: 1} [(1, 0), (3, 0), (2, 1)] builtins.dict:{} '
 '[]',
 'keysplit[type](2) -> tuple builtins.dict:{} [] builtins.dict:{} []',
 'keysplit[not callable](2) -> raised builtins.TypeError:TypeError("\'NoneType\' object is not callable") '
 'cause=builtins.NoneType:None context=NoneType suppress=False',
 'keysplit[two arguments](2) -> raised builtins.TypeError:TypeError("predicates.<locals>.<lambda>() missing '
 '1 required positional argument: \'y\'") cause=builtins.NoneType:None context=NoneType suppress=False',
 "keysplit[truthy](3) -> tuple builtins.dict:{3: 'c', 2: 'b', 1: 'a'} [(3, 'c'), (2, 'b'), (1, 'a')] "
 "builtins.dict:{0: ''} [(0, '')]",
 "keysplit[even](3) -> tuple builtins.dict:{2: 'b', 0: ''} [(2, 'b'), (0, '')] builtins.dict:{3: 'c', 1: "
 "'a'} [(3, 'c'), (1, 'a')]",
 "keysplit[always](3) -> tuple builtins.dict:{3: 'c', 2: 'b', 1: 'a', 0: ''} [(3, 'c'), (2, 'b'), (1, 'a'), "
 "(0, '')] builtins.dict:{} []",
 "keysplit[never](3) -> tuple builtins.dict:{} [] builtins.dict:{3: 'c', 2: 'b', 1: 'a', 0: ''} [(3, 'c'), "
 "(2, 'b'), (1, 'a'), (0, '')]",
 "keysplit[int 0/1](3) -> tuple builtins.dict:{3: 'c', 2: 'b', 1: 'a'} [(3, 'c'), (2, 'b'), (1, 'a')] "
 "builtins.dict:{0: ''} [(0, '')]",
 "keysplit[int 0/1/2](3) -> tuple builtins.dict:{1: 'a'} [(1, 'a')] builtins.dict:{3: 'c', 0: ''} [(3, 'c'), "
 "(0, '')]",
 "keysplit[float](3) -> tuple builtins.dict:{3: 'c', 2: 'b', 1: 'a'} [(3, 'c'), (2, 'b'), (1, 'a')] "
 "builtins.dict:{0: ''} [(0, '')]",
 'keysplit[none](3) -> tuple builtins.dict:{} [] builtins.dict:{} []',
 "keysplit[identity](3) -> tuple builtins.dict:{1: 'a'} [(1, 'a')] builtins.dict:{0: ''} [(0, '')]",
 'keysplit[str](3) -> tuple builtins.dict:{} [] builtins.dict:{} []',
 'keysplit[unhashable](3) -> raised builtins.TypeError:TypeError("unhashable type: \'list\'") '
 'cause=builtins.NoneType:None context=NoneType suppress=False',
 "keysplit[recording](3) -> tuple builtins.dict:{3: 'c', 2: 'b'} [(3, 'c'), (2, 'b')] builtins.dict:{1: 'a', "
 "0: ''} [(1, 'a'), (0, '')]",
 'keysplit[recording](3) calls [3, 2, 1, 0]',
 "keysplit[raising](3) -> raised builtins.RuntimeError:RuntimeError('predicate failed for 2') "
 'cause=builtins.NoneType:None context=NoneType suppress=False',
 "keysplit[builtin](3) -> tuple builtins.dict:{3: 'c', 2: 'b', 1: 'a'} [(3, 'c'), (2, 'b'), (1, 'a')] "
 "builtins.dict:{0: ''} [(0, '')]",
 'keysplit[type](3) -> tuple builtins.dict:{} [] builtins.dict:{} []',
 'keysplit[not callable](3) -> raised builtins.TypeError:TypeError("\'NoneType\' object is not callable") '
 'cause=builtins.NoneType:None context=NoneType suppress=False',
 'keysplit[two arguments](3) -> raised builtins.TypeError:TypeError("predicates.<locals>.<lambda>() missing '
 '1 required positional argument: \'y\'") cause=builtins.NoneType:None context=NoneType suppress=False',
 "keysplit[truthy](4) -> tuple builtins.dict:{'a': 1, 'b': None, 'c': 0, 'd': [1], 'e': ()} [('a', 1), ('b', "
 "None), ('c', 0), ('d', [1]), ('e', ())] builtins.dict:{} []",
 "keysplit[even](4) -> tuple builtins.dict:{} [] builtins.dict:{'a': 1, 'b': None, 'c': 0, 'd': [1], 'e': "
 "()} [('a', 1), ('b', None), ('c', 0), ('d', [1]), ('e', ())]",
 "keysplit[always](4) -> tuple builtins.dict:{'a': 1, 'b': None, 'c': 0, 'd': [1], 'e': ()} [('a', 1), ('b', "
 "None), ('c', 0), ('d', [1]), ('e', ())] builtins.dict:{} []",
 "keysplit[never](4) -> tuple builtins.dict:{} [] builtins.dict:{'a': 1, 'b': None, 'c': 0, 'd': [1], 'e': "
 "()} [('a', 1), ('b', None), ('c', 0), ('d', [1]), ('e', ())]",
 "keysplit[int 0/1](4) -> tuple builtins.dict:{'a': 1, 'b': None, 'c': 0, 'd': [1], 'e': ()} [('a', 1), "
 "('b', None), ('c', 0), ('d', [1]), ('e', ())] builtins.dict:{} []",
 'keysplit[int 0/1/2](4) -> tuple builtins.dict:{} [] builtins.dict:{} []',
 "keysplit[float](4) -> tuple builtins.dict:{'a': 1, 'b': None, 'c': 0, 'd': [1], 'e': ()} [('a', 1), ('b', "
 "None), ('c', 0), ('d', [1]), ('e', ())] builtins.dict:{} []",
 'keysplit[none](4) -> tuple builtins.dict:{} [] builtins.dict:{} []',
 'keysplit[identity](4) -> tuple builtins.dict:{} [] builtins.dict:{} []',
 'keysplit[str](4) -> tuple builtins.dict:{} [] builtins.dict:{} []',
 'keysplit[unhashable](4) -> raised builtins.TypeError:TypeError("unhashable type: \'list\'") '
 'cause=builtins.NoneType:None context=NoneType suppress=False',
 "keysplit[recording](4) -> tuple builtins.dict:{} [] builtins.dict:{'a': 1, 'b': None, 'c': 0, 'd': [1], "
 "'e': ()} [('a', 1), ('b', None), ('c', 0), ('d', [1]), ('e', ())]",
 "keysplit[recording](4) calls ['a', 'b', 'c', 'd', 'e']",
 "keysplit[raising](4) -> tuple builtins.dict:{'a': 1, 'b': None, 'c': 0, 'd': [1], 'e': ()} [('a', 1), "
 "('b', None), ('c', 0), ('d', [1]), ('e', ())] builtins.dict:{} []",
 "keysplit[builtin](4) -> tuple builtins.dict:{'a': 1, 'b': None, 'c': 0, 'd': [1], 'e': ()} [('a', 1), "
 "('b', None), ('c', 0), ('d', [1]), ('e', ())] builtins.dict:{} []",
 'keysplit[type](4) -> tuple builtins.dict:{} [] builtins.dict:{} []',
 'keysplit[not callable](4) -> raised builtins.TypeError:TypeError("\'NoneType\' object is not callable") '
 'cause=builtins.NoneType:None context=NoneType suppress=False',
 'keysplit[two arguments](4) -> raised builtins.TypeError:TypeError("predicates.<locals>.<lambda>() missing '
 '1 required positional argument: \'y\'") cause=builtins.NoneType:None context=NoneType suppress=False',
 'keysplit[truthy](5) -> tuple builtins.dict:{True: False, 2: True} [(True, False), (2, True)] '
 'builtins.dict:{} []',
 'keysplit[even](5) -> tuple builtins.dict:{2: True} [(2, True)] builtins.dict:{True: False} [(True, False)]',
 'keysplit[always](5) -> tuple builtins.dict:{True: False, 2: True} [(True, False), (2, True)] '
 'builtins.dict:{} []',
 'keysplit[never](5) -> tuple builtins.dict:{} [] builtins.dict:{True: False, 2: True} [(True, False), (2, '
 'True)]',
 'keysplit[int 0/1](5) -> tuple builtins.dict:{True: False, 2: True} [(True, False), (2, True)] '
 'builtins.dict:{} []',
 'keysplit[int 0/1/2](5) -> tuple builtins.dict:{True: False} [(True, False)] builtins.dict:{} []',
 'keysplit[float](5) -> tuple builtins.dict:{True: False, 2: True} [(True, False), (2, True)] '
 'builtins.dict:{} []',
 'keysplit[none](5) -> tuple builtins.dict:{} [] builtins.dict:{} []',
 'keysplit[identity](5) -> tuple builtins.dict:{True: False} [(True, False)] builtins.dict:{} []',
 'keysplit[str](5) -> tuple builtins.dict:{} [] builtins.dict:{} []',
 'keysplit[unhashable](5) -> raised builtins.TypeError:TypeError("unhashable type: \'list\'") '
 'cause=builtins.NoneType:None context=NoneType suppress=False',
 'keysplit[recording](5) -> tuple builtins.dict:{2: True} [(2, True)] builtins.dict:{True: False} [(True, '
 'False)]',
 'keysplit[recording](5) calls [True, 2]',
 "keysplit[raising](5) -> raised builtins.RuntimeError:RuntimeError('predicate failed for 2') "
 'cause=builtins.NoneType:None context=NoneType suppress=False',
 'keysplit[builtin](5) -> tuple builtins.dict:{True: False, 2: True} [(True, False), (2, True)] '
 'builtins.dict:{} []',
 'keysplit[type](5) -> tuple builtins.dict:{} [] builtins.dict:{} []',
 'keysplit[not callable](5) -> raised builtins.TypeError:TypeError("\'NoneType\' object is not callable") '
 'cause=builtins.NoneType:None context=NoneType suppress=False',
 'keysplit[two arguments](5) -> raised builtins.TypeError:TypeError("predicates.<locals>.<lambda>() missing '
 '1 required positional argument: \'y\'") cause=builtins.NoneType:None context=NoneType suppress=False',
 'keysplit[truthy](6) -> tuple builtins.dict:{2: 0, 1: 5} [(2, 0), (1, 5)] builtins.dict:{0: 7} [(0, 7)]',
 'keysplit[even](6) -> tuple builtins.dict:{2: 0, 0: 7} [(2, 0), (0, 7)] builtins.dict:{1: 5} [(1, 5)]',
 'keysplit[always](6) -> tuple builtins.dict:{2: 0, 1: 5, 0: 7} [(2, 0), (1, 5), (0, 7)] builtins.dict:{} []',
 'keysplit[never](6) -> tuple builtins.dict:{} [] builtins.dict:{2: 0, 1: 5, 0: 7} [(2, 0), (1, 5), (0, 7)]',
 'keysplit[int 0/1](6) -> tuple builtins.dict:{2: 0, 1: 5} [(2, 0), (1, 5)] builtins.dict:{0: 7} [(0, 7)]',
 'keysplit[int 0/1/2](6) -> tuple builtins.dict:{1: 5} [(1, 5)] builtins.dict:{0: 7} [(0, 7)]',
 'keysplit[float](6) -> tuple builtins.dict:{2: 0, 1: 5} [(2, 0), (1, 5)] builtins.dict:{0: 7} [(0, 7)]',
 'keysplit[none](6) -> tuple builtins.dict:{} [] builtins.dict:{} []',
 'keysplit[identity](6) -> tuple builtins.dict:{1: 5} [(1, 5)] builtins.dict:{0: 7} [(0, 7)]',
 'keysplit[str](6) -> tuple builtins.dict:{} [] builtins.dict:{} []',
 'keysplit[unhashable](6) -> raised builtins.TypeError:TypeError("unhashable type: \'list\'") '
 'cause=builtins.NoneType:None context=NoneType suppress=False',
 'keysplit[recording](6) -> tuple builtins.dict:{2: 0} [(2, 0)] builtins.dict:{1: 5, 0: 7} [(1, 5), (0, 7)]',
 'keysplit[recording](6) calls [2, 1, 0]',
 "keysplit[raising](6) -> raised builtins.RuntimeError:RuntimeError('predicate failed for 2') "
 'cause=builtins.NoneType:None context=NoneType suppress=False',
 'keysplit[builtin](6) -> tuple builtins.dict:{2: 0, 1: 5} [(2, 0), (1, 5)] builtins.dict:{0: 7} [(0, 7)]',
 'keysplit[type](6) -> tuple builtins.dict:{} [] builtins.dict:{} []',
 'keysplit[not callable](6) -> raised builtins.TypeError:TypeError("\'NoneType\' object is not callable") '
 'cause=builtins.NoneType:None context=NoneType suppress=False',
 'keysplit[two arguments](6) -> raised builtins.TypeError:TypeError("predicates.<locals>.<lambda>() missing '
 '1 required positional argument: \'y\'") cause=builtins.NoneType:None context=NoneType suppress=False',
 'keysplit[truthy](7) -> tuple builtins.dict:{5: 6} [(5, 6)] builtins.dict:{0: 0} [(0, 0)]',
 'keysplit[even](7) -> tuple builtins.dict:{0: 0} [(0, 0)] builtins.dict:{5: 6} [(5, 6)]',
 'keysplit[always](7) -> tuple builtins.dict:{5: 6, 0: 0} [(5, 6), (0, 0)] builtins.dict:{} []',
 'keysplit[never](7) -> tuple builtins.dict:{} [] builtins.dict:{5: 6, 0: 0} [(5, 6), (0, 0)]',
 'keysplit[int 0/1](7) -> tuple builtins.dict:{5: 6} [(5, 6)] builtins.dict:{0: 0} [(0, 0)]',
 'keysplit[int 0/1/2](7) -> tuple builtins.dict:{} [] builtins.dict:{0: 0} [(0, 0)]',
 'keysplit[float](7) -> tuple builtins.dict:{5: 6} [(5, 6)] builtins.dict:{0: 0} [(0, 0)]',
 'keysplit[none](7) -> tuple builtins.dict:{} [] builtins.dict:{} []',
 'keysplit[identity](7) -> tuple builtins.dict:{} [] builtins.dict:{0: 0} [(0, 0)]',
 'keysplit[str](7) -> tuple builtins.dict:{} [] builtins.dict:{} []',
 'keysplit[unhashable](7) -> raised builtins.TypeError:TypeError("unhashable type: \'list\'") '
 'cause=builtins.NoneType:None context=NoneType suppress=False',
 'keysplit[recording](7) -> tuple builtins.dict:{5: 6} [(5, 6)] builtins.dict:{0: 0} [(0, 0)]',
 'keysplit[recording](7) calls [5, 0]',
 'keysplit[raising](7) -> tuple builtins.dict:{5: 6, 0: 0} [(5, 6), (0, 0)] builtins.dict:{} []',
 'keysplit[builtin](7) -> tuple builtins.dict:{5: 6} [(5, 6)] builtins.dict:{0: 0} [(0, 0)]',
 'keysplit[type](7) -> tuple builtins.dict:{} [] builtins.dict:{} []',
 'keysplit[not callable](7) -> raised builtins.TypeError:TypeError("\'NoneType\' object is not callable") '
 'cause=builtins.NoneType:None context=NoneType suppress=False',
 'keysplit[two arguments](7) -> raised builtins.TypeError:TypeError("predicates.<locals>.<lambda>() missing '
 '1 required positional argument: \'y\'") cause=builtins.NoneType:None context=NoneType suppress=False',
 'keysplit[truthy](8) -> tuple builtins.dict:{} [] builtins.dict:{} []',
 'keysplit[even](8) -> tuple builtins.dict:{} [] builtins.dict:{} []',
 'keysplit[always](8) -> tuple builtins.dict:{} [] builtins.dict:{} []',
 'keysplit[never](8) -> tuple builtins.dict:{} [] builtins.dict:{} []',
 'keysplit[int 0/1](8) -> tuple builtins.dict:{} [] builtins.dict:{} []',
 'keysplit[int 0/1/2](8) -> tuple builtins.dict:{} [] builtins.dict:{} []',
 'keysplit[float](8) -> tuple builtins.dict:{} [] builtins.dict:{} []',
 'keysplit[none](8) -> tuple builtins.dict:{} [] builtins.dict:{} []',
 'keysplit[identity](8) -> tuple builtins.dict:{} [] builtins.dict:{} []',
 'keysplit[str](8) -> tuple builtins.dict:{} [] builtins.dict:{} []',
 'keysplit[unhashable](8) -> tuple builtins.dict:{} [] builtins.dict:{} []',
 'keysplit[recording](8) -> tuple builtins.dict:{} [] builtins.dict:{} []',
 'keysplit[recording](8) calls []',
 'keysplit[raising](8) -> tuple builtins.dict:{} [] builtins.dict:{} []',
 'keysplit[builtin](8) -> tuple builtins.dict:{} [] builtins.dict:{} []',
 'keysplit[type](8) -> tuple builtins.dict:{} [] builtins.dict:{} []',
 'keysplit[not callable](8) -> tuple builtins.dict:{} [] builtins.dict:{} []',
 'keysplit[two arguments](8) -> tuple builtins.dict:{} [] builtins.dict:{} []',
 'keysplit[truthy](9) -> raised builtins.AttributeError:AttributeError("\'list\' object has no attribute '
 '\'items\'") cause=builtins.NoneType:None context=NoneType suppress=False',
 'keysplit[even](9) -> raised builtins.AttributeError:AttributeError("\'list\' object has no attribute '
 '\'items\'") cause=builtins.NoneType:None context=NoneType suppress=False',
 'keysplit[always](9) -> raised builtins.AttributeError:AttributeError("\'list\' object has no attribute '
 '\'items\'") cause=builtins.NoneType:None context=NoneType suppress=False',
 'keysplit[never](9) -> raised builtins.AttributeError:AttributeError("\'list\' object has no attribute '
 '\'items\'") cause=builtins.NoneType:None context=NoneType suppress=False',
 'keysplit[int 0/1](9) -> raised builtins.AttributeError:AttributeError("\'list\' object has no attribute '
 '\'items\'") cause=builtins.NoneType:None context=NoneType suppress=False',
 'keysplit[int 0/1/2](9) -> raised builtins.AttributeError:AttributeError("\'list\' object has no attribute '
 '\'items\'") cause=builtins.NoneType:None context=NoneType suppress=False',
 'keysplit[float](9) -> raised builtins.AttributeError:AttributeError("\'list\' object has no attribute '
 '\'items\'") cause=builtins.NoneType:None context=NoneType suppress=False',
 'keysplit[none](9) -> raised builtins.AttributeError:AttributeError("\'list\' object has no attribute '
 '\'items\'") cause=builtins.NoneType:None context=NoneType suppress=False',
 'keysplit[identity](9) -> raised builtins.AttributeError:AttributeError("\'list\' object has no attribute '
 '\'items\'") cause=builtins.NoneType:None context=NoneType suppress=False',
 'keysplit[str](9) -> raised builtins.AttributeError:AttributeError("\'list\' object has no attribute '
 '\'items\'") cause=builtins.NoneType:None context=NoneType suppress=False',
 'keysplit[unhashable](9) -> raised builtins.AttributeError:AttributeError("\'list\' object has no attribute '
 '\'items\'") cause=builtins.NoneType:None context=NoneType suppress=False',
 'keysplit[recording](9) -> raised builtins.AttributeError:AttributeError("\'list\' object has no attribute '
 '\'items\'") cause=builtins.NoneType:None context=NoneType suppress=False',
 'keysplit[recording](9) calls []',
 'keysplit[raising](9) -> raised builtins.AttributeError:AttributeError("\'list\' object has no attribute '
 '\'items\'") cause=builtins.NoneType:None context=NoneType suppress=False',
 'keysplit[builtin](9) -> raised builtins.AttributeError:AttributeError("\'list\' object has no attribute '
 '\'items\'") cause=builtins.NoneType:None context=NoneType suppress=False',
 'keysplit[type](9) -> raised builtins.AttributeError:AttributeError("\'list\' object has no attribute '
 '\'items\'") cause=builtins.NoneType:None context=NoneType suppress=False',
 'keysplit[not callable](9) -> raised builtins.AttributeError:AttributeError("\'list\' object has no '
 'attribute \'items\'") cause=builtins.NoneType:None context=NoneType suppress=False',
 'keysplit[two arguments](9) -> raised builtins.AttributeError:AttributeError("\'list\' object has no '
 'attribute \'items\'") cause=builtins.NoneType:None context=NoneType suppress=False',
 'keysplit[truthy](10) -> raised builtins.AttributeError:AttributeError("\'NoneType\' object has no '
 'attribute \'items\'") cause=builtins.NoneType:None context=NoneType suppress=False',
 'keysplit[even](10) -> raised builtins.AttributeError:AttributeError("\'NoneType\' object has no attribute '
 '\'items\'") cause=builtins.NoneType:None context=NoneType suppress=False',
 'keysplit[always](10) -> raised builtins.AttributeError:AttributeError("\'NoneType\' object has no '
 'attribute \'items\'") cause=builtins.NoneType:None context=NoneType suppress=False',
 'keysplit[never](10) -> raised builtins.AttributeError:AttributeError("\'NoneType\' object has no attribute '
 '\'items\'") cause=builtins.NoneType:None context=NoneType suppress=False',
 'keysplit[int 0/1](10) -> raised builtins.AttributeError:AttributeError("\'NoneType\' object has no '
 'attribute \'items\'") cause=builtins.NoneType:None context=NoneType suppress=False',
 'keysplit[int 0/1/2](10) -> raised builtins.AttributeError:AttributeError("\'NoneType\' object has no '
 'attribute \'items\'") cause=builtins.NoneType:None context=NoneType suppress=False',
 'keysplit[float](10) -> raised builtins.AttributeError:AttributeError("\'NoneType\' object has no attribute '
 '\'items\'") cause=builtins.NoneType:None context=NoneType suppress=False',
 'keysplit[none](10) -> raised builtins.AttributeError:AttributeError("\'NoneType\' object has no attribute '
 '\'items\'") cause=builtins.NoneType:None context=NoneType suppress=False',
 'keysplit[identity](10) -> raised builtins.AttributeError:AttributeError("\'NoneType\' object has no '
 'attribute \'items\'") cause=builtins.NoneType:None context=NoneType suppress=False',
 'keysplit[str](10) -> raised builtins.AttributeError:AttributeError("\'NoneType\' object has no attribute '
 '\'items\'") cause=builtins.NoneType:None context=NoneType suppress=False',
 'keysplit[unhashable](10) -> raised builtins.AttributeError:AttributeError("\'NoneType\' object has no '
 'attribute \'items\'") cause=builtins.NoneType:None context=NoneType suppress=False',
 'keysplit[recording](10) -> raised builtins.AttributeError:AttributeError("\'NoneType\' object has no '
 'attribute \'items\'") cause=builtins.NoneType:None context=NoneType suppress=False',
 'keysplit[recording](10) calls []',
 'keysplit[raising](10) -> raised builtins.AttributeError:AttributeError("\'NoneType\' object has no '
 'attribute \'items\'") cause=builtins.NoneType:None context=NoneType suppress=False',
 'keysplit[builtin](10) -> raised builtins.AttributeError:AttributeError("\'NoneType\' object has no '
 'attribute \'items\'") cause=builtins.NoneType:None context=NoneType suppress=False',
 'keysplit[type](10) -> raised builtins.AttributeError:AttributeError("\'NoneType\' object has no attribute '
 '\'items\'") cause=builtins.NoneType:None context=NoneType suppress=False',
 'keysplit[not callable](10) -> raised builtins.AttributeError:AttributeError("\'NoneType\' object has no '
 'attribute \'items\'") cause=builtins.NoneType:None context=NoneType suppress=False',
 'keysplit[two arguments](10) -> raised builtins.AttributeError:AttributeError("\'NoneType\' object has no '
 'attribute \'items\'") cause=builtins.NoneType:None context=NoneType suppress=False',
 "ok builtins.tuple:({'b': 2}, {'a': 1})",
 "ok builtins.tuple:({'b': 2}, {'a': 1})",
 "ok builtins.tuple:({'a': (True, 0)}, {'b': (False, 1)})",
 "ok builtins.tuple:({(True, 0): 'a'}, {(False, 1): 'b'})",
 "copy_items(0) -> ok builtins.dict:{'a': 1, 'b': {'c': 2, 'd': {'e': 4, 'f': [1, 2, 3]}}, 'l': [10, 20, "
 "{'x': 'y'}], 'n': None, 's': 'text', 'ab': {'cd': 5}, 0: {1: {2: 'int keys'}}} same=True shared=[()]",
 "copy_items(1) -> ok builtins.dict:{'a': 1, 'b': {'c': 2, 'd': 1}, 'l': [10, 20, {'x': 'y'}], 'n': None, "
 "'s': 'text', 'ab': {'cd': 5}, 0: {1: {2: 'int keys'}}} same=False shared=[('l',), ('ab',), (0,)]",
 "copy_items(2) -> ok builtins.dict:{'a': 1, 'b': {'c': 2, 'd': {'e': 4, 'f': [1, 2, 3]}}, 'l': [10, 20, "
 "{'x': 'y'}], 'n': None, 's': 'text', 'ab': {'cd': 5}, 0: {1: {2: 'int keys'}}, 'd': 2} same=False "
 "shared=[('b',), ('l',), ('ab',), (0,)]",
 "copy_items(3) -> ok builtins.dict:{'a': 1, 'b': {'c': 2, 'd': {'e': 4, 'f': [1, 2, 3]}}, 'l': [10, 20, "
 "{'x': 'y'}], 'n': None, 's': 'text', 'ab': {'cd': 5}, 0: {1: {2: 'int keys'}}} same=True shared=[()]",
 "copy_items(4) -> ok builtins.dict:{'a': 1, 'b': {'c': 2, 'd': {'e': 4, 'f': [1, 2, 3]}}, 'l': [10, 20, "
 "{'x': 'y'}], 'n': None, 's': 'text', 'ab': {'cd': 5}, 0: {1: {2: 'int keys'}}} same=True shared=[()]",
 "copy_items(5) -> ok builtins.dict:{'a': 1, 'b': {'c': 2, 'd': {'e': 4, 'f': [1, 2, 3]}}, 'l': [10, 20, "
 "{'x': 'y'}], 'n': None, 's': 'text', 'ab': {'cd': 5}, 0: {1: {2: 'int keys'}}, 'z': 4} same=False "
 "shared=[('b',), ('l',), ('ab',), (0,)]",
 "copy_items(6) -> ok builtins.dict:{'a': 1, 'b': {'c': 2, 'd': {'e': 4, 'f': [1, 2, 3]}}, 'l': [10, 20, "
 "{'x': 'y'}], 'n': None, 's': 'text', 'ab': {'cd': 5}, 0: {1: {2: 'int keys'}}, 'z': {'y': {'x': [1, 2, "
 "3]}}} same=False shared=[('b',), ('l',), ('ab',), (0,)]",
 "copy_items(7) -> ok builtins.dict:{'a': 1, 'b': {'c': 1, 'd': {'e': 4, 'f': [1, 2, 3]}}, 'l': [10, 20, "
 "{'x': 'y'}], 'n': None, 's': 'text', 'ab': {'cd': 5}, 0: {1: {2: 'int keys'}}} same=False shared=[('b', "
 "'d'), ('l',), ('ab',), (0,)]",
 "copy_items(8) -> ok builtins.dict:{'a': {'c': 2, 'd': {'e': 4, 'f': [1, 2, 3]}}, 'b': {'c': 2, 'd': {'e': "
 "4, 'f': [1, 2, 3]}}, 'l': [10, 20, {'x': 'y'}], 'n': None, 's': 'text', 'ab': {'cd': 5}, 0: {1: {2: 'int "
 "keys'}}} same=False shared=[('b',), ('l',), ('ab',), (0,)]",
 "copy_items(9) -> ok builtins.dict:{'a': 1, 'b': {'c': 2, 'd': {'e': 4, 'f': [1, 2, 3]}}, 'l': [10, 20, "
 "{'x': 'y'}], 'n': None, 's': 'text', 'ab': {'cd': 5}, 0: {1: {2: 'int keys'}}} same=False shared=[('b',), "
 "('l',), ('ab',), (0,)]",
 "copy_items(10) -> ok builtins.dict:{'a': 1, 'b': {'c': 2, 'd': {'e': 4, 'f': [1, 2, 3]}}, 'l': [10, 20, "
 "{'x': 'y'}], 'n': None, 's': 'text', 'ab': {'cd': 5}, 0: {1: {2: 'int keys'}}} same=False shared=[('b', "
 "'d', 'f'), ('l',), ('ab',), (0,)]",
 "copy_items(11) -> ok builtins.dict:{'a': 1, 'b': {'e': 4, 'f': [1, 2, 3]}, 'l': [10, 20, {'x': 'y'}], 'n': "
 "None, 's': 'text', 'ab': {'cd': 5}, 0: {1: {2: 'int keys'}}} same=False shared=[('l',), ('ab',), (0,)]",
 "copy_items(12) -> ok builtins.dict:{'a': 1, 'b': {'c': 2, 'd': {'c': 2, 'd': {'e': 4, 'f': [1, 2, 3]}}}, "
 "'l': [10, 20, {'x': 'y'}], 'n': None, 's': 'text', 'ab': {'cd': 5}, 0: {1: {2: 'int keys'}}} same=False "
 "shared=[('l',), ('ab',), (0,)]",
 "copy_items(13) -> ok builtins.dict:{'a': 1, 'b': {'c': 2, 'd': {'e': 4, 'f': [1, 2, 3]}}, 'l': [10, 20, "
 "{'x': 'y'}], 'n': None, 's': 'text', 'ab': {'cd': 5}, 0: {1: {2: 'int keys'}}, 'new': 10, 'other': 'y'} "
 "same=False shared=[('b',), ('l',), ('ab',), (0,)]",
 "copy_items(14) -> ok builtins.dict:{'a': 1, 'b': {'c': 2, 'd': {'e': 4, 'f': [1, 2, 3]}}, 'l': [10, 20, "
 "{'x': 'y'}], 'n': None, 's': 'text', 'ab': {'cd': 5}, 0: {1: {2: 'int keys'}}} same=True shared=[()]",
 "copy_items(15) -> ok builtins.dict:{'a': 1, 'b': {'c': 2, 'd': {'e': 4, 'f': [1, 2, 3]}}, 'l': [10, 20, "
 "{'x': 'y'}], 'n': None, 's': 'text', 'ab': {'cd': 5}, 0: {1: {2: 'int keys'}}} same=True shared=[()]",
 "copy_items(16) -> ok builtins.dict:{'a': 1, 'b': {'c': 2, 'd': {'e': 4, 'f': [1, 2, 3]}}, 'l': [10, 20, "
 "{'x': 'y'}], 'n': None, 's': 'text', 'ab': {'cd': 5}, 0: {1: {2: 'int keys'}}, 'new': {'x': 'y'}} "
 "same=False shared=[('b',), ('l',), ('ab',), (0,)]",
 "copy_items(17) -> ok builtins.dict:{'a': 1, 'b': {'c': 2, 'd': {'e': 4, 'f': [1, 2, 3]}}, 'l': [10, 20, "
 "{'x': 'y'}], 'n': None, 's': 'text', 'ab': {'cd': 5}, 0: {1: {2: 'int keys'}}, 'new': [10, 20, {'x': "
 "'y'}]} same=False shared=[('b',), ('l',), ('ab',), (0,)]",
 "copy_items(18) -> ok builtins.dict:{'a': 1, 'b': {'c': 2, 'd': {'e': 4, 'f': [1, 2, 3]}}, 'l': [10, 20, "
 "{'x': 'y'}], 'n': None, 's': 'text', 'ab': {'cd': 5}, 0: {1: {2: 'int keys'}}, 'new': None} same=False "
 "shared=[('b',), ('l',), ('ab',), (0,)]",
 "copy_items(19) -> ok builtins.dict:{'a': 1, 'b': {'c': 2, 'd': {'e': 4, 'f': [1, 2, 3]}}, 'l': [10, 20, "
 "{'x': 'y'}], 'n': None, 's': 'text', 'ab': {'cd': 5}, 0: {1: {2: 'int keys'}}} same=True shared=[()]",
 "copy_items(20) -> ok builtins.dict:{'a': 1, 'b': {'c': 2, 'd': {'e': 4, 'f': [1, 2, 3]}}, 'l': [10, 20, "
 "{'x': 'y'}], 'n': None, 's': 'text', 'ab': {'cd': 5}, 0: {1: {2: 'int keys'}}, 'new': 't'} same=False "
 "shared=[('b',), ('l',), ('ab',), (0,)]",
 "copy_items(21) -> ok builtins.dict:{'a': 1, 'b': {'c': 2, 'd': {'e': 4, 'f': [1, 2, 3]}}, 'l': [10, 20, "
 "{'x': 'y'}], 'n': None, 's': 'text', 'ab': {'cd': 5}, 0: {1: {2: 'int keys'}}, 'new': 'text'} same=False "
 "shared=[('b',), ('l',), ('ab',), (0,)]",
 "copy_items(22) -> ok builtins.dict:{'a': 1, 'b': {'c': 2, 'd': {'e': 4, 'f': [1, 2, 3]}}, 'l': [10, 20, "
 "{'x': 'y'}], 'n': None, 's': 'text', 'ab': {'cd': 5}, 0: {1: {2: 'int keys'}}} same=True shared=[()]",
 "copy_items(23) -> ok builtins.dict:{'a': 1, 'b': {'c': 2, 'd': {'e': 4, 'f': [1, 2, 3]}}, 'l': [10, 20, "
 "{'x': 'y'}], 'n': None, 's': 'text', 'ab': {'cd': 5}, 0: {1: {2: 'int keys'}}, 'new': 1} same=False "
 "shared=[('b',), ('l',), ('ab',), (0,)]",
 "copy_items(24) -> ok builtins.dict:{'a': 1, 'b': {'c': 2, 'd': {'e': 4, 'f': [1, 2, 3]}}, 'l': [10, 20, "
 "{'x': 'y'}], 'n': None, 's': 'text', 'ab': {'cd': 5}, 0: {1: {2: 'int keys'}}, 'new': 2} same=False "
 "shared=[('b',), ('l',), ('ab',), (0,)]",
 "copy_items(25) -> ok builtins.dict:{'a': 1, 'b': {'c': 2, 'd': {'e': 4, 'f': [1, 2, 3]}}, 'l': [10, 20, "
 "{'x': 'y'}], 'n': None, 's': 'text', 'ab': {'cd': 5}, 0: {1: {2: 'int keys'}}, 'new': 2} same=False "
 "shared=[('b',), ('l',), ('ab',), (0,)]",
 "copy_items(26) -> ok builtins.dict:{'a': 1, 'b': {'c': 2, 'd': {'e': 4, 'f': [1, 2, 3]}}, 'l': [10, 20, "
 "{'x': 'y'}], 'n': None, 's': 'text', 'ab': {'cd': 5}, 0: {1: {2: 'int keys'}}, 'new': 5} same=False "
 "shared=[('b',), ('l',), ('ab',), (0,)]",
 "copy_items(27) -> ok builtins.dict:{'a': 1, 'b': {'c': 2, 'd': {'e': 4, 'f': [1, 2, 3]}}, 'l': [10, 20, "
 "{'x': 'y'}], 'n': None, 's': 'text', 'ab': {'cd': 5}, 0: {1: {2: 'int keys'}}, 'new': 'int keys'} "
 "same=False shared=[('b',), ('l',), ('ab',), (0,)]",
 "copy_items(28) -> ok builtins.dict:{'a': 1, 'b': {'c': 2, 'd': {'e': 4, 'f': [1, 2, 3]}}, 'l': [10, 20, "
 "{'x': 'y'}], 'n': None, 's': 'text', 'ab': {'cd': 5}, 0: {1: {2: 'int keys'}}, 'new': {2: 'int keys'}} "
 "same=False shared=[('b',), ('l',), ('ab',), (0,)]",
 "copy_items(29) -> ok builtins.dict:{'a': 1, 'b': {'c': 2, 'd': {'e': 4, 'f': [1, 2, 3]}}, 'l': [10, 20, "
 "{'x': 'y'}], 'n': None, 's': 'text', 'ab': {'cd': 5}, 0: {1: {2: 'int keys'}}, 'x': {'y': 1}} same=False "
 "shared=[('b',), ('l',), ('ab',), (0,)]",
 "copy_items(30) -> ok builtins.dict:{'a': 1, 'b': {'c': 2, 'd': {'e': 4, 'f': [1, 2, 3]}}, 'l': [10, 20, "
 "{'x': 'y'}], 'n': None, 's': 'text', 'ab': {'cd': 5}, 0: {1: {2: 'int keys'}}, 'x': 1} same=False "
 "shared=[('b',), ('l',), ('ab',), (0,)]",
 'copy_items(31) -> raised builtins.TypeError:TypeError("\'int\' object is not iterable") '
 'cause=builtins.NoneType:None context=NoneType suppress=False',
 "copy_items(32) -> raised builtins.TypeError:TypeError('cannot convert dictionary update sequence element "
 "#0 to a sequence') cause=builtins.NoneType:None context=NoneType suppress=False",
 "copy_items(33) -> raised builtins.ValueError:ValueError('dictionary update sequence element #0 has length "
 "1; 2 is required') cause=builtins.NoneType:None context=NoneType suppress=False",
 'copy_items(34) -> raised builtins.TypeError:TypeError("\'NoneType\' object is not iterable") '
 'cause=builtins.NoneType:None context=NoneType suppress=False',
 'copy_items(35) -> raised builtins.StopIteration:StopIteration() cause=builtins.NoneType:None '
 'context=NoneType suppress=False',
 "copy_items(36) -> ok builtins.dict:{'a': 1, 'b': {'c': 2, 'd': {'e': 4, 'f': [1, 2, 3]}}, 'l': [10, 20, "
 "{'x': 'y'}], 'n': None, 's': 'text', 'ab': {'cd': 5}, 0: {1: {2: 'int keys'}}, 'new': {'a': 1, 'b': {'c': "
 "2, 'd': {'e': 4, 'f': [1, 2, 3]}}, 'l': [10, 20, {'x': 'y'}], 'n': None, 's': 'text', 'ab': {'cd': 5}, 0: "
 "{1: {2: 'int keys'}}}} same=False shared=[('b',), ('l',), ('ab',), (0,)]",
 "copy_items(37) -> ok builtins.dict:{'a': 1, 'b': {'c': 2, 'd': {'e': 4, 'f': [1, 2, 3]}}, 'l': [10, 20, "
 "{'x': 'y'}], 'n': None, 's': 'text', 'ab': {'cd': 5}, 0: {1: {2: 'int keys'}}, 'new': {'a': 1, 'b': {'c': "
 "2, 'd': {'e': 4, 'f': [1, 2, 3]}}, 'l': [10, 20, {'x': 'y'}], 'n': None, 's': 'text', 'ab': {'cd': 5}, 0: "
 "{1: {2: 'int keys'}}}} same=False shared=[('b',), ('l',), ('ab',), (0,)]",
 "copy_items(38) -> ok builtins.dict:{'a': 1, 'b': {'c': 2, 'd': {'e': 4, 'f': [1, 2, 3]}}, 'l': [10, 20, "
 "{'x': 'y'}], 'n': None, 's': 'text', 'ab': {'cd': 5}, 0: {1: {2: 'int keys'}}, 'new': {'a': 1, 'b': {'c': "
 "2, 'd': {'e': 4, 'f': [1, 2, 3]}}, 'l': [10, 20, {'x': 'y'}], 'n': None, 's': 'text', 'ab': {'cd': 5}, 0: "
 "{1: {2: 'int keys'}}}} same=False shared=[('b',), ('l',), ('ab',), (0,)]",
 "copy_items(39) -> ok builtins.dict:{'a': 1, 'b': {'c': 2, 'd': {'e': 4, 'f': [1, 2, 3]}}, 'l': [10, 20, "
 "{'x': 'y'}], 'n': None, 's': 'text', 'ab': {'cd': 5}, 0: {1: {2: 'int keys'}}} same=True shared=[()]",
 "copy_items(40) -> ok builtins.dict:{'a': 1, 'b': {'c': 2, 'd': {'e': 4, 'f': [1, 2, 3]}}, 'l': [10, 20, "
 "{'x': 'y'}], 'n': None, 's': 'text', 'ab': {'cd': 5}, 0: {1: {2: 'int keys'}}} same=True shared=[()]",
 "copy_items(41) -> ok builtins.dict:{'a': 1, 'b': {'c': 2, 'd': {'e': 4, 'f': [1, 2, 3]}}, 'l': [10, 20, "
 "{'x': 'y'}], 'n': None, 's': 'text', 'ab': {'cd': 5}, 0: {1: {2: 'int keys'}}} same=True shared=[()]",
 "copy_items(42) -> ok builtins.dict:{'a': 1, 'b': {'c': 2, 'd': {'e': 4, 'f': [1, 2, 3]}}, 'l': [10, 20, "
 "{'x': 'y'}], 'n': None, 's': 'text', 'ab': {'cd': 5}, 0: {1: {2: 'int keys'}}, 'first': 1} same=False "
 "shared=[('b',), ('l',), ('ab',), (0,)]",
 "copy_items(43) -> ok builtins.dict:{'a': 1, 'b': {'c': 2, 'd': {'e': 4, 'f': [1, 2, 3]}}, 'l': [10, 20, "
 "{'x': 'y'}], 'n': None, 's': 'text', 'ab': {'cd': 5}, 0: {1: {2: 'int keys'}}, 'first': 2, 'second': 2} "
 "same=False shared=[('b',), ('l',), ('ab',), (0,)]",
 "copy_items(44) -> ok builtins.dict:{'a': 1, 'b': {'c': 2, 'd': {'e': 4, 'f': [1, 2, 3]}}, 'l': [10, 20, "
 "{'x': 'y'}], 'n': None, 's': 'text', 'ab': {'cd': 5}, 0: {1: {2: 'int keys'}}, 'first': 2, 'second': 4} "
 "same=False shared=[('b',), ('l',), ('ab',), (0,)]",
 "copy_items(45) -> ok builtins.dict:{'a': 1, 'b': {'c': 2, 'd': {'e': 4, 'f': [1, 2, 3], 'g': 1}}, 'l': "
 "[10, 20, {'x': 'y'}], 'n': None, 's': 'text', 'ab': {'cd': 5}, 0: {1: {2: 'int keys'}}, 'second': 4} "
 "same=False shared=[('b', 'd', 'f'), ('l',), ('ab',), (0,)]",
 "copy_items(46) -> ok builtins.dict:{'a': 4, 'b': {'c': 2, 'd': {'e': 1, 'f': [1, 2, 3]}}, 'l': [10, 20, "
 "{'x': 'y'}], 'n': None, 's': 'text', 'ab': {'cd': 5}, 0: {1: {2: 'int keys'}}} same=False shared=[('b', "
 "'d', 'f'), ('l',), ('ab',), (0,)]",
 "copy_items(47) -> ok builtins.dict:{'a': 1, 'b': {'c': 2, 'd': {'e': 4, 'f': [1, 2, 3]}}, 'l': [10, 20, "
 "{'x': 'y'}], 'n': None, 's': 'text', 'ab': {'cd': 5}, 0: {1: {2: 'int keys'}}, 'fs': 1} same=False "
 "shared=[('b',), ('l',), ('ab',), (0,)]",
 "copy_items(48) -> ok builtins.dict:{'a': 1, 'b': {'c': 2, 'd': {'e': 4, 'f': [1, 2, 3]}}, 'l': [10, 20, "
 "{'x': 'y'}], 'n': None, 's': 'text', 'ab': {'cd': 5}, 0: {1: {2: 'int keys'}}, 'k1': {'k2': {'e': 4, 'f': "
 "[1, 2, 3]}}, 'k3': [1, 2, 3]} same=False shared=[('b',), ('l',), ('ab',), (0,)]",
 "copy_items logged(0) -> ok <equiv>.Logging:Logging({'a': 1, 'b': {'c': 2, 'd': {'e': 4, 'f': [1, 2, 3]}}, "
 "'l': [10, 20, {'x': 'y'}], 'n': None, 's': 'text', 'ab': {'cd': 5}, 0: {1: {2: 'int keys'}}})",
 'copy_items logged(0) log []',
 "copy_items logged(1) -> ok builtins.dict:{'a': 1, 'b': {'c': 2, 'd': 1}, 'l': [10, 20, {'x': 'y'}], 'n': "
 "None, 's': 'text', 'ab': Logging({'cd': 5}), 0: Logging({1: {2: 'int keys'}})}",
 'copy_items logged(1) log ["m[\'a\']", \'iter(m)\', "m[\'a\']", "m[\'b\']", "m[\'l\']", "m[\'n\']", '
 '"m[\'s\']", "m[\'ab\']", \'m[0]\', "m[\'b\']", "m[\'b\']", "iter(m[\'b\'])", "m[\'b\'][\'c\']", '
 '"m[\'b\'][\'d\']", "m[\'b\'][\'d\']", "m[\'b\'][\'d\']"]',
 "copy_items logged(2) -> ok builtins.dict:{'a': 1, 'b': Logging({'c': 2, 'd': {'e': 4, 'f': [1, 2, 3]}}), "
 "'l': [10, 20, {'x': 'y'}], 'n': None, 's': 'text', 'ab': Logging({'cd': 5}), 0: Logging({1: {2: 'int "
 "keys'}}), 'd': 2}",
 'copy_items logged(2) log ["m[\'b\']", "m[\'b\'][\'c\']", \'iter(m)\', "m[\'a\']", "m[\'b\']", "m[\'l\']", '
 '"m[\'n\']", "m[\'s\']", "m[\'ab\']", \'m[0]\', "m[\'d\']"]',
 "copy_items logged(3) -> ok <equiv>.Logging:Logging({'a': 1, 'b': {'c': 2, 'd': {'e': 4, 'f': [1, 2, 3]}}, "
 "'l': [10, 20, {'x': 'y'}], 'n': None, 's': 'text', 'ab': {'cd': 5}, 0: {1: {2: 'int keys'}}})",
 'copy_items logged(3) log ["m[\'e\']"]',
 "copy_items logged(4) -> ok <equiv>.Logging:Logging({'a': 1, 'b': {'c': 2, 'd': {'e': 4, 'f': [1, 2, 3]}}, "
 "'l': [10, 20, {'x': 'y'}], 'n': None, 's': 'text', 'ab': {'cd': 5}, 0: {1: {2: 'int keys'}}})",
 'copy_items logged(4) log ["m[\'e\']"]',
 "copy_items logged(5) -> ok builtins.dict:{'a': 1, 'b': Logging({'c': 2, 'd': {'e': 4, 'f': [1, 2, 3]}}), "
 "'l': [10, 20, {'x': 'y'}], 'n': None, 's': 'text', 'ab': Logging({'cd': 5}), 0: Logging({1: {2: 'int "
 "keys'}}), 'z': 4}",
 'copy_items logged(5) log ["m[\'b\']", "m[\'b\'][\'d\']", "m[\'b\'][\'d\'][\'e\']", \'iter(m)\', '
 '"m[\'a\']", "m[\'b\']", "m[\'l\']", "m[\'n\']", "m[\'s\']", "m[\'ab\']", \'m[0]\', "m[\'z\']"]',
 "copy_items logged(6) -> ok builtins.dict:{'a': 1, 'b': Logging({'c': 2, 'd': {'e': 4, 'f': [1, 2, 3]}}), "
 "'l': [10, 20, {'x': 'y'}], 'n': None, 's': 'text', 'ab': Logging({'cd': 5}), 0: Logging({1: {2: 'int "
 "keys'}}), 'z': {'y': {'x': [1, 2, 3]}}}",
 'copy_items logged(6) log ["m[\'b\']", "m[\'b\'][\'d\']", "m[\'b\'][\'d\'][\'f\']", \'iter(m)\', '
 '"m[\'a\']", "m[\'b\']", "m[\'l\']", "m[\'n\']", "m[\'s\']", "m[\'ab\']", \'m[0]\', "m[\'z\']"]',
 "copy_items logged(7) -> ok builtins.dict:{'a': 1, 'b': {'c': 1, 'd': Logging({'e': 4, 'f': [1, 2, 3]})}, "
 "'l': [10, 20, {'x': 'y'}], 'n': None, 's': 'text', 'ab': Logging({'cd': 5}), 0: Logging({1: {2: 'int "
 "keys'}})}",
 'copy_items logged(7) log ["m[\'a\']", \'iter(m)\', "m[\'a\']", "m[\'b\']", "m[\'l\']", "m[\'n\']", '
 '"m[\'s\']", "m[\'ab\']", \'m[0]\', "m[\'b\']", "m[\'b\']", "iter(m[\'b\'])", "m[\'b\'][\'c\']", '
 '"m[\'b\'][\'d\']", "m[\'b\'][\'c\']", "m[\'b\'][\'c\']"]',
 "copy_items logged(8) -> ok builtins.dict:{'a': Logging({'c': 2, 'd': {'e': 4, 'f': [1, 2, 3]}}), 'b': "
 "Logging({'c': 2, 'd': {'e': 4, 'f': [1, 2, 3]}}), 'l': [10, 20, {'x': 'y'}], 'n': None, 's': 'text', 'ab': "
 "Logging({'cd': 5}), 0: Logging({1: {2: 'int keys'}})}",
 'copy_items logged(8) log ["m[\'b\']", \'iter(m)\', "m[\'a\']", "m[\'b\']", "m[\'l\']", "m[\'n\']", '
 '"m[\'s\']", "m[\'ab\']", \'m[0]\', "m[\'a\']", "m[\'a\']"]',
 "copy_items logged(9) -> ok builtins.dict:{'a': 1, 'b': Logging({'c': 2, 'd': {'e': 4, 'f': [1, 2, 3]}}), "
 "'l': [10, 20, {'x': 'y'}], 'n': None, 's': 'text', 'ab': Logging({'cd': 5}), 0: Logging({1: {2: 'int "
 "keys'}})}",
 'copy_items logged(9) log ["m[\'a\']", \'iter(m)\', "m[\'a\']", "m[\'b\']", "m[\'l\']", "m[\'n\']", '
 '"m[\'s\']", "m[\'ab\']", \'m[0]\', "m[\'a\']", "m[\'a\']"]',
 "copy_items logged(10) -> ok builtins.dict:{'a': 1, 'b': {'c': 2, 'd': {'e': 4, 'f': [1, 2, 3]}}, 'l': [10, "
 "20, {'x': 'y'}], 'n': None, 's': 'text', 'ab': Logging({'cd': 5}), 0: Logging({1: {2: 'int keys'}})}",
 'copy_items logged(10) log ["m[\'b\']", "m[\'b\'][\'d\']", "m[\'b\'][\'d\'][\'e\']", \'iter(m)\', '
 '"m[\'a\']", "m[\'b\']", "m[\'l\']", "m[\'n\']", "m[\'s\']", "m[\'ab\']", \'m[0]\', "m[\'b\']", "m[\'b\']", '
 '"iter(m[\'b\'])", "m[\'b\'][\'c\']", "m[\'b\'][\'d\']", "m[\'b\'][\'d\']", "m[\'b\'][\'d\']", '
 '"iter(m[\'b\'][\'d\'])", "m[\'b\'][\'d\'][\'e\']", "m[\'b\'][\'d\'][\'f\']", "m[\'b\'][\'d\'][\'e\']", '
 '"m[\'b\'][\'d\'][\'e\']"]',
 "copy_items logged(11) -> ok builtins.dict:{'a': 1, 'b': Logging({'e': 4, 'f': [1, 2, 3]}), 'l': [10, 20, "
 "{'x': 'y'}], 'n': None, 's': 'text', 'ab': Logging({'cd': 5}), 0: Logging({1: {2: 'int keys'}})}",
 'copy_items logged(11) log ["m[\'b\']", "m[\'b\'][\'d\']", \'iter(m)\', "m[\'a\']", "m[\'b\']", "m[\'l\']", '
 '"m[\'n\']", "m[\'s\']", "m[\'ab\']", \'m[0]\', "m[\'b\']", "m[\'b\']"]',
 "copy_items OrderedDict(0) -> ok collections.OrderedDict:OrderedDict({'a': 1, 'b': {'c': 2, 'd': {'e': 4, "
 "'f': [1, 2, 3]}}, 'l': [10, 20, {'x': 'y'}], 'n': None, 's': 'text', 'ab': {'cd': 5}, 0: {1: {2: 'int "
 "keys'}}})",
 "copy_items OrderedDict(0) left OrderedDict({'a': 1, 'b': {'c': 2, 'd': {'e': 4, 'f': [1, 2, 3]}}, 'l': "
 "[10, 20, {'x': 'y'}], 'n': None, 's': 'text', 'ab': {'cd': 5}, 0: {1: {2: 'int keys'}}})",
 "copy_items OrderedDict(1) -> ok builtins.dict:{'a': 1, 'b': {'c': 2, 'd': 1}, 'l': [10, 20, {'x': 'y'}], "
 "'n': None, 's': 'text', 'ab': {'cd': 5}, 0: {1: {2: 'int keys'}}}",
 "copy_items OrderedDict(1) left OrderedDict({'a': 1, 'b': {'c': 2, 'd': {'e': 4, 'f': [1, 2, 3]}}, 'l': "
 "[10, 20, {'x': 'y'}], 'n': None, 's': 'text', 'ab': {'cd': 5}, 0: {1: {2: 'int keys'}}})",
 "copy_items OrderedDict(2) -> ok builtins.dict:{'a': 1, 'b': {'c': 2, 'd': {'e': 4, 'f': [1, 2, 3]}}, 'l': "
 "[10, 20, {'x': 'y'}], 'n': None, 's': 'text', 'ab': {'cd': 5}, 0: {1: {2: 'int keys'}}, 'd': 2}",
 "copy_items OrderedDict(2) left OrderedDict({'a': 1, 'b': {'c': 2, 'd': {'e': 4, 'f': [1, 2, 3]}}, 'l': "
 "[10, 20, {'x': 'y'}], 'n': None, 's': 'text', 'ab': {'cd': 5}, 0: {1: {2: 'int keys'}}})",
 "copy_items OrderedDict(3) -> ok collections.OrderedDict:OrderedDict({'a': 1, 'b': {'c': 2, 'd': {'e': 4, "
 "'f': [1, 2, 3]}}, 'l': [10, 20, {'x': 'y'}], 'n': None, 's': 'text', 'ab': {'cd': 5}, 0: {1: {2: 'int "
 "keys'}}})",
 "copy_items OrderedDict(3) left OrderedDict({'a': 1, 'b': {'c': 2, 'd': {'e': 4, 'f': [1, 2, 3]}}, 'l': "
 "[10, 20, {'x': 'y'}], 'n': None, 's': 'text', 'ab': {'cd': 5}, 0: {1: {2: 'int keys'}}})",
 "copy_items OrderedDict(4) -> ok collections.OrderedDict:OrderedDict({'a': 1, 'b': {'c': 2, 'd': {'e': 4, "
 "'f': [1, 2, 3]}}, 'l': [10, 20, {'x': 'y'}], 'n': None, 's': 'text', 'ab': {'cd': 5}, 0: {1: {2: 'int "
 "keys'}}})",
 "copy_items OrderedDict(4) left OrderedDict({'a': 1, 'b': {'c': 2, 'd': {'e': 4, 'f': [1, 2, 3]}}, 'l': "
 "[10, 20, {'x': 'y'}], 'n': None, 's': 'text', 'ab': {'cd': 5}, 0: {1: {2: 'int keys'}}})",
 "copy_items OrderedDict(5) -> ok builtins.dict:{'a': 1, 'b': {'c': 2, 'd': {'e': 4, 'f': [1, 2, 3]}}, 'l': "
 "[10, 20, {'x': 'y'}], 'n': None, 's': 'text', 'ab': {'cd': 5}, 0: {1: {2: 'int keys'}}, 'z': 4}",
 "copy_items OrderedDict(5) left OrderedDict({'a': 1, 'b': {'c': 2, 'd': {'e': 4, 'f': [1, 2, 3]}}, 'l': "
 "[10, 20, {'x': 'y'}], 'n': None, 's': 'text', 'ab': {'cd': 5}, 0: {1: {2: 'int keys'}}})",
 "copy_items OrderedDict(6) -> ok builtins.dict:{'a': 1, 'b': {'c': 2, 'd': {'e': 4, 'f': [1, 2, 3]}}, 'l': "
 "[10, 20, {'x': 'y'}], 'n': None, 's': 'text', 'ab': {'cd': 5}, 0: {1: {2: 'int keys'}}, 'z': {'y': {'x': "
 '[1, 2, 3]}}}',
 "copy_items OrderedDict(6) left OrderedDict({'a': 1, 'b': {'c': 2, 'd': {'e': 4, 'f': [1, 2, 3]}}, 'l': "
 "[10, 20, {'x': 'y'}], 'n': None, 's': 'text', 'ab': {'cd': 5}, 0: {1: {2: 'int keys'}}})",
 "copy_items OrderedDict(7) -> ok builtins.dict:{'a': 1, 'b': {'c': 1, 'd': {'e': 4, 'f': [1, 2, 3]}}, 'l': "
 "[10, 20, {'x': 'y'}], 'n': None, 's': 'text', 'ab': {'cd': 5}, 0: {1: {2: 'int keys'}}}",
 "copy_items OrderedDict(7) left OrderedDict({'a': 1, 'b': {'c': 2, 'd': {'e': 4, 'f': [1, 2, 3]}}, 'l': "
 "[10, 20, {'x': 'y'}], 'n': None, 's': 'text', 'ab': {'cd': 5}, 0: {1: {2: 'int keys'}}})",
 "copy_items defaultdict(0) -> ok collections.defaultdict:defaultdict(<class 'dict'>, {'a': 1, 'b': {'c': 2, "
 "'d': {'e': 4, 'f': [1, 2, 3]}}, 'l': [10, 20, {'x': 'y'}], 'n': None, 's': 'text', 'ab': {'cd': 5}, 0: {1: "
 "{2: 'int keys'}}})",
 "copy_items defaultdict(0) left defaultdict(<class 'dict'>, {'a': 1, 'b': {'c': 2, 'd': {'e': 4, 'f': [1, "
 "2, 3]}}, 'l': [10, 20, {'x': 'y'}], 'n': None, 's': 'text', 'ab': {'cd': 5}, 0: {1: {2: 'int keys'}}})",
 "copy_items defaultdict(1) -> ok builtins.dict:{'a': 1, 'b': {'c': 2, 'd': 1}, 'l': [10, 20, {'x': 'y'}], "
 "'n': None, 's': 'text', 'ab': {'cd': 5}, 0: {1: {2: 'int keys'}}}",
 "copy_items defaultdict(1) left defaultdict(<class 'dict'>, {'a': 1, 'b': {'c': 2, 'd': {'e': 4, 'f': [1, "
 "2, 3]}}, 'l': [10, 20, {'x': 'y'}], 'n': None, 's': 'text', 'ab': {'cd': 5}, 0: {1: {2: 'int keys'}}})",
 "copy_items defaultdict(2) -> ok builtins.dict:{'a': 1, 'b': {'c': 2, 'd': {'e': 4, 'f': [1, 2, 3]}}, 'l': "
 "[10, 20, {'x': 'y'}], 'n': None, 's': 'text', 'ab': {'cd': 5}, 0: {1: {2: 'int keys'}}, 'd': 2}",
 "copy_items defaultdict(2) left defaultdict(<class 'dict'>, {'a': 1, 'b': {'c': 2, 'd': {'e': 4, 'f': [1, "
 "2, 3]}}, 'l': [10, 20, {'x': 'y'}], 'n': None, 's': 'text', 'ab': {'cd': 5}, 0: {1: {2: 'int keys'}}})",
 "copy_items defaultdict(3) -> ok builtins.dict:{'a': 1, 'b': {'c': 2, 'd': {'e': 4, 'f': [1, 2, 3]}}, 'l': "
 "[10, 20, {'x': 'y'}], 'n': None, 's': 'text', 'ab': {'cd': 5}, 0: {1: {2: 'int keys'}}, 'e': {}, 'd': {}}",
 "copy_items defaultdict(3) left defaultdict(<class 'dict'>, {'a': 1, 'b': {'c': 2, 'd': {'e': 4, 'f': [1, "
 "2, 3]}}, 'l': [10, 20, {'x': 'y'}], 'n': None, 's': 'text', 'ab': {'cd': 5}, 0: {1: {2: 'int keys'}}, 'e': "
 '{}})',
 "copy_items defaultdict(4) -> ok collections.defaultdict:defaultdict(<class 'dict'>, {'a': 1, 'b': {'c': 2, "
 "'d': {'e': 4, 'f': [1, 2, 3]}}, 'l': [10, 20, {'x': 'y'}], 'n': None, 's': 'text', 'ab': {'cd': 5}, 0: {1: "
 "{2: 'int keys'}}, 'e': {}})",
 "copy_items defaultdict(4) left defaultdict(<class 'dict'>, {'a': 1, 'b': {'c': 2, 'd': {'e': 4, 'f': [1, "
 "2, 3]}}, 'l': [10, 20, {'x': 'y'}], 'n': None, 's': 'text', 'ab': {'cd': 5}, 0: {1: {2: 'int keys'}}, 'e': "
 '{}})',
 "copy_items defaultdict(5) -> ok builtins.dict:{'a': 1, 'b': {'c': 2, 'd': {'e': 4, 'f': [1, 2, 3]}}, 'l': "
 "[10, 20, {'x': 'y'}], 'n': None, 's': 'text', 'ab': {'cd': 5}, 0: {1: {2: 'int keys'}}, 'e': {}, 'z': 4}",
 "copy_items defaultdict(5) left defaultdict(<class 'dict'>, {'a': 1, 'b': {'c': 2, 'd': {'e': 4, 'f': [1, "
 "2, 3]}}, 'l': [10, 20, {'x': 'y'}], 'n': None, 's': 'text', 'ab': {'cd': 5}, 0: {1: {2: 'int keys'}}, 'e': "
 '{}})',
 "copy_items defaultdict(6) -> ok builtins.dict:{'a': 1, 'b': {'c': 2, 'd': {'e': 4, 'f': [1, 2, 3]}}, 'l': "
 "[10, 20, {'x': 'y'}], 'n': None, 's': 'text', 'ab': {'cd': 5}, 0: {1: {2: 'int keys'}}, 'e': {}, 'z': "
 "{'y': {'x': [1, 2, 3]}}}",
 "copy_items defaultdict(6) left defaultdict(<class 'dict'>, {'a': 1, 'b': {'c': 2, 'd': {'e': 4, 'f': [1, "
 "2, 3]}}, 'l': [10, 20, {'x': 'y'}], 'n': None, 's': 'text', 'ab': {'cd': 5}, 0: {1: {2: 'int keys'}}, 'e': "
 '{}})',
 "copy_items defaultdict(7) -> ok builtins.dict:{'a': 1, 'b': {'c': 1, 'd': {'e': 4, 'f': [1, 2, 3]}}, 'l': "
 "[10, 20, {'x': 'y'}], 'n': None, 's': 'text', 'ab': {'cd': 5}, 0: {1: {2: 'int keys'}}, 'e': {}}",
 "copy_items defaultdict(7) left defaultdict(<class 'dict'>, {'a': 1, 'b': {'c': 2, 'd': {'e': 4, 'f': [1, "
 "2, 3]}}, 'l': [10, 20, {'x': 'y'}], 'n': None, 's': 'text', 'ab': {'cd': 5}, 0: {1: {2: 'int keys'}}, 'e': "
 '{}})',
 "copy_items proxy(0) -> ok builtins.mappingproxy:mappingproxy({'a': 1, 'b': {'c': 2, 'd': {'e': 4, 'f': [1, "
 "2, 3]}}, 'l': [10, 20, {'x': 'y'}], 'n': None, 's': 'text', 'ab': {'cd': 5}, 0: {1: {2: 'int keys'}}})",
 "copy_items proxy(0) left mappingproxy({'a': 1, 'b': {'c': 2, 'd': {'e': 4, 'f': [1, 2, 3]}}, 'l': [10, 20, "
 "{'x': 'y'}], 'n': None, 's': 'text', 'ab': {'cd': 5}, 0: {1: {2: 'int keys'}}})",
 "copy_items proxy(1) -> ok builtins.dict:{'a': 1, 'b': {'c': 2, 'd': 1}, 'l': [10, 20, {'x': 'y'}], 'n': "
 "None, 's': 'text', 'ab': {'cd': 5}, 0: {1: {2: 'int keys'}}}",
 "copy_items proxy(1) left mappingproxy({'a': 1, 'b': {'c': 2, 'd': {'e': 4, 'f': [1, 2, 3]}}, 'l': [10, 20, "
 "{'x': 'y'}], 'n': None, 's': 'text', 'ab': {'cd': 5}, 0: {1: {2: 'int keys'}}})",
 "copy_items proxy(2) -> ok builtins.dict:{'a': 1, 'b': {'c': 2, 'd': {'e': 4, 'f': [1, 2, 3]}}, 'l': [10, "
 "20, {'x': 'y'}], 'n': None, 's': 'text', 'ab': {'cd': 5}, 0: {1: {2: 'int keys'}}, 'd': 2}",
 "copy_items proxy(2) left mappingproxy({'a': 1, 'b': {'c': 2, 'd': {'e': 4, 'f': [1, 2, 3]}}, 'l': [10, 20, "
 "{'x': 'y'}], 'n': None, 's': 'text', 'ab': {'cd': 5}, 0: {1: {2: 'int keys'}}})",
 "copy_items proxy(3) -> ok builtins.mappingproxy:mappingproxy({'a': 1, 'b': {'c': 2, 'd': {'e': 4, 'f': [1, "
 "2, 3]}}, 'l': [10, 20, {'x': 'y'}], 'n': None, 's': 'text', 'ab': {'cd': 5}, 0: {1: {2: 'int keys'}}})",
 "copy_items proxy(3) left mappingproxy({'a': 1, 'b': {'c': 2, 'd': {'e': 4, 'f': [1, 2, 3]}}, 'l': [10, 20, "
 "{'x': 'y'}], 'n': None, 's': 'text', 'ab': {'cd': 5}, 0: {1: {2: 'int keys'}}})",
 "copy_items proxy(4) -> ok builtins.mappingproxy:mappingproxy({'a': 1, 'b': {'c': 2, 'd': {'e': 4, 'f': [1, "
 "2, 3]}}, 'l': [10, 20, {'x': 'y'}], 'n': None, 's': 'text', 'ab': {'cd': 5}, 0: {1: {2: 'int keys'}}})",
 "copy_items proxy(4) left mappingproxy({'a': 1, 'b': {'c': 2, 'd': {'e': 4, 'f': [1, 2, 3]}}, 'l': [10, 20, "
 "{'x': 'y'}], 'n': None, 's': 'text', 'ab': {'cd': 5}, 0: {1: {2: 'int keys'}}})",
 "copy_items proxy(5) -> ok builtins.dict:{'a': 1, 'b': {'c': 2, 'd': {'e': 4, 'f': [1, 2, 3]}}, 'l': [10, "
 "20, {'x': 'y'}], 'n': None, 's': 'text', 'ab': {'cd': 5}, 0: {1: {2: 'int keys'}}, 'z': 4}",
 "copy_items proxy(5) left mappingproxy({'a': 1, 'b': {'c': 2, 'd': {'e': 4, 'f': [1, 2, 3]}}, 'l': [10, 20, "
 "{'x': 'y'}], 'n': None, 's': 'text', 'ab': {'cd': 5}, 0: {1: {2: 'int keys'}}})",
 "copy_items proxy(6) -> ok builtins.dict:{'a': 1, 'b': {'c': 2, 'd': {'e': 4, 'f': [1, 2, 3]}}, 'l': [10, "
 "20, {'x': 'y'}], 'n': None, 's': 'text', 'ab': {'cd': 5}, 0: {1: {2: 'int keys'}}, 'z': {'y': {'x': [1, 2, "
 '3]}}}',
 "copy_items proxy(6) left mappingproxy({'a': 1, 'b': {'c': 2, 'd': {'e': 4, 'f': [1, 2, 3]}}, 'l': [10, 20, "
 "{'x': 'y'}], 'n': None, 's': 'text', 'ab': {'cd': 5}, 0: {1: {2: 'int keys'}}})",
 "copy_items proxy(7) -> ok builtins.dict:{'a': 1, 'b': {'c': 1, 'd': {'e': 4, 'f': [1, 2, 3]}}, 'l': [10, "
 "20, {'x': 'y'}], 'n': None, 's': 'text', 'ab': {'cd': 5}, 0: {1: {2: 'int keys'}}}",
 "copy_items proxy(7) left mappingproxy({'a': 1, 'b': {'c': 2, 'd': {'e': 4, 'f': [1, 2, 3]}}, 'l': [10, 20, "
 "{'x': 'y'}], 'n': None, 's': 'text', 'ab': {'cd': 5}, 0: {1: {2: 'int keys'}}})",
 'copy_items empty(0) -> ok builtins.dict:{}',
 'copy_items empty(0) left {}',
 'copy_items empty(1) -> ok builtins.dict:{}',
 'copy_items empty(1) left {}',
 'copy_items empty(2) -> ok builtins.dict:{}',
 'copy_items empty(2) left {}',
 'copy_items empty(3) -> ok builtins.dict:{}',
 'copy_items empty(3) left {}',
 'copy_items empty(4) -> ok builtins.dict:{}',
 'copy_items empty(4) left {}',
 'copy_items empty(5) -> ok builtins.dict:{}',
 'copy_items empty(5) left {}',
 'copy_items empty(6) -> ok builtins.dict:{}',
 'copy_items empty(6) left {}',
 'copy_items empty(7) -> ok builtins.dict:{}',
 'copy_items empty(7) left {}',
 'copy_items list(0) -> ok builtins.list:[1, 2]',
 'copy_items list(0) left [1, 2]',
 'copy_items list(1) -> ok builtins.list:[1, 2]',
 'copy_items list(1) left [1, 2]',
 'copy_items list(2) -> ok builtins.list:[1, 2]',
 'copy_items list(2) left [1, 2]',
 'copy_items list(3) -> ok builtins.list:[1, 2]',
 'copy_items list(3) left [1, 2]',
 'copy_items list(4) -> ok builtins.list:[1, 2]',
 'copy_items list(4) left [1, 2]',
 'copy_items list(5) -> ok builtins.list:[1, 2]',
 'copy_items list(5) left [1, 2]',
 'copy_items list(6) -> ok builtins.list:[1, 2]',
 'copy_items list(6) left [1, 2]',
 'copy_items list(7) -> ok builtins.list:[1, 2]',
 'copy_items list(7) left [1, 2]',
 'copy_items None(0) -> ok builtins.NoneType:None',
 'copy_items None(0) left None',
 'copy_items None(1) -> ok builtins.NoneType:None',
 'copy_items None(1) left None',
 'copy_items None(2) -> ok builtins.NoneType:None',
 'copy_items None(2) left None',
 'copy_items None(3) -> ok builtins.NoneType:None',
 'copy_items None(3) left None',
 'copy_items None(4) -> ok builtins.NoneType:None',
 'copy_items None(4) left None',
 'copy_items None(5) -> ok builtins.NoneType:None',
 'copy_items None(5) left None',
 'copy_items None(6) -> ok builtins.NoneType:None',
 'copy_items None(6) left None',
 'copy_items None(7) -> ok builtins.NoneType:None',
 'copy_items None(7) left None',
 "ok builtins.dict:{'a': 1, 'q': 1}",
 'raised builtins.AttributeError:AttributeError("\'list\' object has no attribute \'items\'") '
 'cause=builtins.NoneType:None context=NoneType suppress=False',
 'raised builtins.AttributeError:AttributeError("\'NoneType\' object has no attribute \'items\'") '
 'cause=builtins.NoneType:None context=NoneType suppress=False',
 "move_items(0) -> ok builtins.dict:{'a': 1, 'b': {'c': 2, 'd': {'e': 4, 'f': [1, 2, 3]}}, 'l': [10, 20, "
 "{'x': 'y'}], 'n': None, 's': 'text', 'ab': {'cd': 5}, 0: {1: {2: 'int keys'}}} same=False shared=[]",
 "move_items(1) -> ok builtins.dict:{'b': {'c': 2, 'd': 1}, 'l': [10, 20, {'x': 'y'}], 'n': None, 's': "
 "'text', 'ab': {'cd': 5}, 0: {1: {2: 'int keys'}}} same=False shared=[]",
 "move_items(2) -> ok builtins.dict:{'a': 1, 'b': {'d': {'e': 4, 'f': [1, 2, 3]}}, 'l': [10, 20, {'x': "
 "'y'}], 'n': None, 's': 'text', 'ab': {'cd': 5}, 0: {1: {2: 'int keys'}}, 'd': 2} same=False shared=[]",
 "move_items(3) -> ok builtins.dict:{'a': 1, 'b': {'c': 2, 'd': {'e': 4, 'f': [1, 2, 3]}}, 'l': [10, 20, "
 "{'x': 'y'}], 'n': None, 's': 'text', 'ab': {'cd': 5}, 0: {1: {2: 'int keys'}}} same=False shared=[]",
 "move_items(4) -> ok builtins.dict:{'a': 1, 'b': {'c': 2, 'd': {'e': 4, 'f': [1, 2, 3]}}, 'l': [10, 20, "
 "{'x': 'y'}], 'n': None, 's': 'text', 'ab': {'cd': 5}, 0: {1: {2: 'int keys'}}} same=False shared=[]",
 "move_items(5) -> ok builtins.dict:{'a': 1, 'b': {'c': 2, 'd': {'f': [1, 2, 3]}}, 'l': [10, 20, {'x': "
 "'y'}], 'n': None, 's': 'text', 'ab': {'cd': 5}, 0: {1: {2: 'int keys'}}, 'z': 4} same=False shared=[]",
 "move_items(6) -> ok builtins.dict:{'a': 1, 'b': {'c': 2, 'd': {'e': 4}}, 'l': [10, 20, {'x': 'y'}], 'n': "
 "None, 's': 'text', 'ab': {'cd': 5}, 0: {1: {2: 'int keys'}}, 'z': {'y': {'x': [1, 2, 3]}}} same=False "
 'shared=[]',
 "move_items(7) -> ok builtins.dict:{'b': {'c': 1, 'd': {'e': 4, 'f': [1, 2, 3]}}, 'l': [10, 20, {'x': "
 "'y'}], 'n': None, 's': 'text', 'ab': {'cd': 5}, 0: {1: {2: 'int keys'}}} same=False shared=[]",
 "move_items(8) -> ok builtins.dict:{'a': {'c': 2, 'd': {'e': 4, 'f': [1, 2, 3]}}, 'l': [10, 20, {'x': "
 "'y'}], 'n': None, 's': 'text', 'ab': {'cd': 5}, 0: {1: {2: 'int keys'}}} same=False shared=[]",
 "move_items(9) -> ok builtins.dict:{'b': {'c': 2, 'd': {'e': 4, 'f': [1, 2, 3]}}, 'l': [10, 20, {'x': "
 "'y'}], 'n': None, 's': 'text', 'ab': {'cd': 5}, 0: {1: {2: 'int keys'}}} same=False shared=[]",
 "move_items(10) -> ok builtins.dict:{'a': 1, 'b': {'c': 2, 'd': {'f': [1, 2, 3]}}, 'l': [10, 20, {'x': "
 "'y'}], 'n': None, 's': 'text', 'ab': {'cd': 5}, 0: {1: {2: 'int keys'}}} same=False shared=[]",
 "move_items(11) -> ok builtins.dict:{'a': 1, 'b': {'e': 4, 'f': [1, 2, 3]}, 'l': [10, 20, {'x': 'y'}], 'n': "
 "None, 's': 'text', 'ab': {'cd': 5}, 0: {1: {2: 'int keys'}}} same=False shared=[]",
 "move_items(12) -> ok builtins.dict:{'a': 1, 'l': [10, 20, {'x': 'y'}], 'n': None, 's': 'text', 'ab': "
 "{'cd': 5}, 0: {1: {2: 'int keys'}}} same=False shared=[]",
 "move_items(13) -> raised builtins.TypeError:TypeError('pop expected at most 1 argument, got 2') "
 'cause=builtins.NoneType:None context=NoneType suppress=False',
 "move_items(14) -> raised builtins.TypeError:TypeError('pop expected at most 1 argument, got 2') "
 'cause=builtins.NoneType:None context=NoneType suppress=False',
 "move_items(15) -> raised builtins.TypeError:TypeError('pop expected at most 1 argument, got 2') "
 'cause=builtins.NoneType:None context=NoneType suppress=False',
 "move_items(16) -> raised builtins.TypeError:TypeError('pop expected at most 1 argument, got 2') "
 'cause=builtins.NoneType:None context=NoneType suppress=False',
 "move_items(17) -> ok builtins.dict:{'a': 1, 'b': {'c': 2, 'd': {'e': 4, 'f': [1, 2, 3]}}, 'n': None, 's': "
 "'text', 'ab': {'cd': 5}, 0: {1: {2: 'int keys'}}, 'new': [10, 20, {'x': 'y'}]} same=False shared=[]",
 "move_items(18) -> ok builtins.dict:{'a': 1, 'b': {'c': 2, 'd': {'e': 4, 'f': [1, 2, 3]}}, 'l': [10, 20, "
 "{'x': 'y'}], 's': 'text', 'ab': {'cd': 5}, 0: {1: {2: 'int keys'}}, 'new': None} same=False shared=[]",
 'move_items(19) -> raised builtins.AttributeError:AttributeError("\'NoneType\' object has no attribute '
 '\'pop\'") cause=builtins.NoneType:None context=NoneType suppress=False',
 'move_items(20) -> raised builtins.AttributeError:AttributeError("\'str\' object has no attribute \'pop\'") '
 'cause=builtins.NoneType:None context=NoneType suppress=False',
 "move_items(21) -> ok builtins.dict:{'a': 1, 'b': {'c': 2, 'd': {'e': 4, 'f': [1, 2, 3]}}, 'l': [10, 20, "
 "{'x': 'y'}], 'n': None, 'ab': {'cd': 5}, 0: {1: {2: 'int keys'}}, 'new': 'text'} same=False shared=[]",
 'move_items(22) -> raised builtins.AttributeError:AttributeError("\'int\' object has no attribute \'pop\'") '
 'cause=builtins.NoneType:None context=NoneType suppress=False',
 "move_items(23) -> ok builtins.dict:{'b': {'c': 2, 'd': {'e': 4, 'f': [1, 2, 3]}}, 'l': [10, 20, {'x': "
 "'y'}], 'n': None, 's': 'text', 'ab': {'cd': 5}, 0: {1: {2: 'int keys'}}, 'new': 1} same=False shared=[]",
 "move_items(24) -> ok builtins.dict:{'a': 1, 'b': {'d': {'e': 4, 'f': [1, 2, 3]}}, 'l': [10, 20, {'x': "
 "'y'}], 'n': None, 's': 'text', 'ab': {'cd': 5}, 0: {1: {2: 'int keys'}}, 'new': 2} same=False shared=[]",
 "move_items(25) -> ok builtins.dict:{'a': 1, 'b': {'d': {'e': 4, 'f': [1, 2, 3]}}, 'l': [10, 20, {'x': "
 "'y'}], 'n': None, 's': 'text', 'ab': {'cd': 5}, 0: {1: {2: 'int keys'}}, 'new': 2} same=False shared=[]",
 "move_items(26) -> ok builtins.dict:{'a': 1, 'b': {'c': 2, 'd': {'e': 4, 'f': [1, 2, 3]}}, 'l': [10, 20, "
 "{'x': 'y'}], 'n': None, 's': 'text', 'ab': {}, 0: {1: {2: 'int keys'}}, 'new': 5} same=False shared=[]",
 "move_items(27) -> ok builtins.dict:{'a': 1, 'b': {'c': 2, 'd': {'e': 4, 'f': [1, 2, 3]}}, 'l': [10, 20, "
 "{'x': 'y'}], 'n': None, 's': 'text', 'ab': {'cd': 5}, 0: {1: {}}, 'new': 'int keys'} same=False shared=[]",
 "move_items(28) -> ok builtins.dict:{'a': 1, 'b': {'c': 2, 'd': {'e': 4, 'f': [1, 2, 3]}}, 'l': [10, 20, "
 "{'x': 'y'}], 'n': None, 's': 'text', 'ab': {'cd': 5}, 0: {}, 'new': {2: 'int keys'}} same=False shared=[]",
 "move_items(29) -> ok builtins.dict:{'b': {'c': 2, 'd': {'e': 4, 'f': [1, 2, 3]}}, 'l': [10, 20, {'x': "
 "'y'}], 'n': None, 's': 'text', 'ab': {'cd': 5}, 0: {1: {2: 'int keys'}}, 'x': {'y': 1}} same=False "
 'shared=[]',
 "move_items(30) -> ok builtins.dict:{'b': {'c': 2, 'd': {'e': 4, 'f': [1, 2, 3]}}, 'l': [10, 20, {'x': "
 "'y'}], 'n': None, 's': 'text', 'ab': {'cd': 5}, 0: {1: {2: 'int keys'}}, 'x': 1} same=False shared=[]",
 'move_items(31) -> raised builtins.TypeError:TypeError("\'int\' object is not iterable") '
 'cause=builtins.NoneType:None context=NoneType suppress=False',
 "move_items(32) -> raised builtins.TypeError:TypeError('cannot convert dictionary update sequence element "
 "#0 to a sequence') cause=builtins.NoneType:None context=NoneType suppress=False",
 "move_items(33) -> raised builtins.ValueError:ValueError('dictionary update sequence element #0 has length "
 "1; 2 is required') cause=builtins.NoneType:None context=NoneType suppress=False",
 'move_items(34) -> raised builtins.TypeError:TypeError("\'NoneType\' object is not iterable") '
 'cause=builtins.NoneType:None context=NoneType suppress=False',
 'move_items(35) -> raised builtins.StopIteration:StopIteration() cause=builtins.NoneType:None '
 'context=NoneType suppress=False',
 "move_items(36) -> raised builtins.ValueError:ValueError('not enough values to unpack (expected at least 1, "
 "got 0)') cause=builtins.NoneType:None context=NoneType suppress=False",
 "move_items(37) -> raised builtins.ValueError:ValueError('not enough values to unpack (expected at least 1, "
 "got 0)') cause=builtins.NoneType:None context=NoneType suppress=False",
 "move_items(38) -> raised builtins.ValueError:ValueError('not enough values to unpack (expected at least 1, "
 "got 0)') cause=builtins.NoneType:None context=NoneType suppress=False",
 "move_items(39) -> raised builtins.TypeError:TypeError('cannot unpack non-iterable int object') "
 'cause=builtins.NoneType:None context=NoneType suppress=False',
 "move_items(40) -> raised builtins.TypeError:TypeError('cannot unpack non-iterable NoneType object') "
 'cause=builtins.NoneType:None context=NoneType suppress=False',
 'move_items(41) -> raised builtins.TypeError:TypeError("unhashable type: \'list\'") '
 'cause=builtins.NoneType:None context=NoneType suppress=False',
 "move_items(42) -> ok builtins.dict:{'b': {'c': 2, 'd': {'e': 4, 'f': [1, 2, 3]}}, 'l': [10, 20, {'x': "
 "'y'}], 'n': None, 's': 'text', 'ab': {'cd': 5}, 0: {1: {2: 'int keys'}}} same=False shared=[]",
 "move_items(43) -> ok builtins.dict:{'a': 1, 'b': {'d': {'e': 4, 'f': [1, 2, 3]}}, 'l': [10, 20, {'x': "
 "'y'}], 'n': None, 's': 'text', 'ab': {'cd': 5}, 0: {1: {2: 'int keys'}}, 'first': 2, 'second': 2} "
 'same=False shared=[]',
 "move_items(44) -> ok builtins.dict:{'a': 1, 'b': {'d': {'f': [1, 2, 3]}}, 'l': [10, 20, {'x': 'y'}], 'n': "
 "None, 's': 'text', 'ab': {'cd': 5}, 0: {1: {2: 'int keys'}}, 'first': 2, 'second': 4} same=False shared=[]",
 "move_items(45) -> ok builtins.dict:{'b': {'c': 2, 'd': {'f': [1, 2, 3], 'g': 1}}, 'l': [10, 20, {'x': "
 "'y'}], 'n': None, 's': 'text', 'ab': {'cd': 5}, 0: {1: {2: 'int keys'}}, 'second': 4} same=False shared=[]",
 "move_items(46) -> ok builtins.dict:{'b': {'c': 2, 'd': {'f': [1, 2, 3]}}, 'l': [10, 20, {'x': 'y'}], 'n': "
 "None, 's': 'text', 'ab': {'cd': 5}, 0: {1: {2: 'int keys'}}} same=False shared=[]",
 "move_items(47) -> ok builtins.dict:{'b': {'c': 2, 'd': {'e': 4, 'f': [1, 2, 3]}}, 'l': [10, 20, {'x': "
 "'y'}], 'n': None, 's': 'text', 'ab': {'cd': 5}, 0: {1: {2: 'int keys'}}, 'fs': 1} same=False shared=[]",
 "move_items(48) -> ok builtins.dict:{'a': 1, 'b': {'c': 2}, 'l': [10, 20, {'x': 'y'}], 'n': None, 's': "
 "'text', 'ab': {'cd': 5}, 0: {1: {2: 'int keys'}}, 'k1': {'k2': {'e': 4, 'f': [1, 2, 3]}}, 'k3': [1, 2, 3]} "
 'same=False shared=[]',
 "move_items logged(0) -> ok <equiv>.Logging:Logging({'a': 1, 'b': {'c': 2, 'd': {'e': 4, 'f': [1, 2, 3]}}, "
 "'l': [10, 20, {'x': 'y'}], 'n': None, 's': 'text', 'ab': {'cd': 5}, 0: {1: {2: 'int keys'}}})",
 'move_items logged(0) log []',
 "move_items logged(1) -> ok builtins.dict:{'b': {'c': 2, 'd': 1}, 'l': [10, 20, {'x': 'y'}], 'n': None, "
 "'s': 'text', 'ab': Logging({'cd': 5}), 0: Logging({1: {2: 'int keys'}})}",
 'move_items logged(1) log ["m[\'a\']", \'iter(m)\', "m[\'a\']", "m[\'b\']", "m[\'l\']", "m[\'n\']", '
 '"m[\'s\']", "m[\'ab\']", \'m[0]\', "m[\'b\']", "m[\'b\']", "iter(m[\'b\'])", "m[\'b\'][\'c\']", '
 '"m[\'b\'][\'d\']", "m[\'b\'][\'d\']", "m[\'b\'][\'d\']"]',
 'move_items logged(2) -> raised builtins.AttributeError:AttributeError("\'Logging\' object has no attribute '
 '\'pop\'") cause=builtins.NoneType:None context=NoneType suppress=False',
 'move_items logged(2) log ["m[\'b\']", "m[\'b\'][\'c\']", \'iter(m)\', "m[\'a\']", "m[\'b\']", "m[\'l\']", '
 '"m[\'n\']", "m[\'s\']", "m[\'ab\']", \'m[0]\', "m[\'d\']"]',
 'move_items logged(3) -> raised builtins.AttributeError:AttributeError("\'Logging\' object has no attribute '
 '\'pop\'") cause=builtins.NoneType:None context=NoneType suppress=False',
 'move_items logged(3) log ["m[\'e\']"]',
 "move_items logged(4) -> ok <equiv>.Logging:Logging({'a': 1, 'b': {'c': 2, 'd': {'e': 4, 'f': [1, 2, 3]}}, "
 "'l': [10, 20, {'x': 'y'}], 'n': None, 's': 'text', 'ab': {'cd': 5}, 0: {1: {2: 'int keys'}}})",
 'move_items logged(4) log ["m[\'e\']"]',
 'move_items logged(5) -> raised builtins.AttributeError:AttributeError("\'Logging\' object has no attribute '
 '\'pop\'") cause=builtins.NoneType:None context=NoneType suppress=False',
 'move_items logged(5) log ["m[\'b\']", "m[\'b\'][\'d\']", "m[\'b\'][\'d\'][\'e\']", \'iter(m)\', '
 '"m[\'a\']", "m[\'b\']", "m[\'l\']", "m[\'n\']", "m[\'s\']", "m[\'ab\']", \'m[0]\', "m[\'z\']"]',
 'move_items logged(6) -> raised builtins.AttributeError:AttributeError("\'Logging\' object has no attribute '
 '\'pop\'") cause=builtins.NoneType:None context=NoneType suppress=False',
 'move_items logged(6) log ["m[\'b\']", "m[\'b\'][\'d\']", "m[\'b\'][\'d\'][\'f\']", \'iter(m)\', '
 '"m[\'a\']", "m[\'b\']", "m[\'l\']", "m[\'n\']", "m[\'s\']", "m[\'ab\']", \'m[0]\', "m[\'z\']"]',
 "move_items logged(7) -> ok builtins.dict:{'b': {'c': 1, 'd': Logging({'e': 4, 'f': [1, 2, 3]})}, 'l': [10, "
 "20, {'x': 'y'}], 'n': None, 's': 'text', 'ab': Logging({'cd': 5}), 0: Logging({1: {2: 'int keys'}})}",
 'move_items logged(7) log ["m[\'a\']", \'iter(m)\', "m[\'a\']", "m[\'b\']", "m[\'l\']", "m[\'n\']", '
 '"m[\'s\']", "m[\'ab\']", \'m[0]\', "m[\'b\']", "m[\'b\']", "iter(m[\'b\'])", "m[\'b\'][\'c\']", '
 '"m[\'b\'][\'d\']", "m[\'b\'][\'c\']", "m[\'b\'][\'c\']"]',
 "move_items logged(8) -> ok builtins.dict:{'a': Logging({'c': 2, 'd': {'e': 4, 'f': [1, 2, 3]}}), 'l': [10, "
 "20, {'x': 'y'}], 'n': None, 's': 'text', 'ab': Logging({'cd': 5}), 0: Logging({1: {2: 'int keys'}})}",
 'move_items logged(8) log ["m[\'b\']", \'iter(m)\', "m[\'a\']", "m[\'b\']", "m[\'l\']", "m[\'n\']", '
 '"m[\'s\']", "m[\'ab\']", \'m[0]\', "m[\'a\']", "m[\'a\']"]',
 "move_items logged(9) -> ok builtins.dict:{'b': Logging({'c': 2, 'd': {'e': 4, 'f': [1, 2, 3]}}), 'l': [10, "
 "20, {'x': 'y'}], 'n': None, 's': 'text', 'ab': Logging({'cd': 5}), 0: Logging({1: {2: 'int keys'}})}",
 'move_items logged(9) log ["m[\'a\']", \'iter(m)\', "m[\'a\']", "m[\'b\']", "m[\'l\']", "m[\'n\']", '
 '"m[\'s\']", "m[\'ab\']", \'m[0]\', "m[\'a\']", "m[\'a\']"]',
 "move_items logged(10) -> ok builtins.dict:{'a': 1, 'b': {'c': 2, 'd': {'f': [1, 2, 3]}}, 'l': [10, 20, "
 "{'x': 'y'}], 'n': None, 's': 'text', 'ab': Logging({'cd': 5}), 0: Logging({1: {2: 'int keys'}})}",
 'move_items logged(10) log ["m[\'b\']", "m[\'b\'][\'d\']", "m[\'b\'][\'d\'][\'e\']", \'iter(m)\', '
 '"m[\'a\']", "m[\'b\']", "m[\'l\']", "m[\'n\']", "m[\'s\']", "m[\'ab\']", \'m[0]\', "m[\'b\']", "m[\'b\']", '
 '"iter(m[\'b\'])", "m[\'b\'][\'c\']", "m[\'b\'][\'d\']", "m[\'b\'][\'d\']", "m[\'b\'][\'d\']", '
 '"iter(m[\'b\'][\'d\'])", "m[\'b\'][\'d\'][\'e\']", "m[\'b\'][\'d\'][\'f\']", "m[\'b\'][\'d\'][\'e\']", '
 '"m[\'b\'][\'d\'][\'e\']"]',
 'move_items logged(11) -> raised builtins.AttributeError:AttributeError("\'Logging\' object has no '
 'attribute \'pop\'") cause=builtins.NoneType:None context=NoneType suppress=False',
 'move_items logged(11) log ["m[\'b\']", "m[\'b\'][\'d\']", \'iter(m)\', "m[\'a\']", "m[\'b\']", "m[\'l\']", '
 '"m[\'n\']", "m[\'s\']", "m[\'ab\']", \'m[0]\', "m[\'b\']", "m[\'b\']"]',
 "move_items OrderedDict(0) -> ok collections.OrderedDict:OrderedDict({'a': 1, 'b': {'c': 2, 'd': {'e': 4, "
 "'f': [1, 2, 3]}}, 'l': [10, 20, {'x': 'y'}], 'n': None, 's': 'text', 'ab': {'cd': 5}, 0: {1: {2: 'int "
 "keys'}}})",
 "move_items OrderedDict(0) left OrderedDict({'a': 1, 'b': {'c': 2, 'd': {'e': 4, 'f': [1, 2, 3]}}, 'l': "
 "[10, 20, {'x': 'y'}], 'n': None, 's': 'text', 'ab': {'cd': 5}, 0: {1: {2: 'int keys'}}})",
 "move_items OrderedDict(1) -> ok builtins.dict:{'b': {'c': 2, 'd': 1}, 'l': [10, 20, {'x': 'y'}], 'n': "
 "None, 's': 'text', 'ab': {'cd': 5}, 0: {1: {2: 'int keys'}}}",
 "move_items OrderedDict(1) left OrderedDict({'a': 1, 'b': {'c': 2, 'd': {'e': 4, 'f': [1, 2, 3]}}, 'l': "
 "[10, 20, {'x': 'y'}], 'n': None, 's': 'text', 'ab': {'cd': 5}, 0: {1: {2: 'int keys'}}})",
 "move_items OrderedDict(2) -> ok builtins.dict:{'a': 1, 'b': {'d': {'e': 4, 'f': [1, 2, 3]}}, 'l': [10, 20, "
 "{'x': 'y'}], 'n': None, 's': 'text', 'ab': {'cd': 5}, 0: {1: {2: 'int keys'}}, 'd': 2}",
 "move_items OrderedDict(2) left OrderedDict({'a': 1, 'b': {'c': 2, 'd': {'e': 4, 'f': [1, 2, 3]}}, 'l': "
 "[10, 20, {'x': 'y'}], 'n': None, 's': 'text', 'ab': {'cd': 5}, 0: {1: {2: 'int keys'}}})",
 "move_items OrderedDict(3) -> ok collections.OrderedDict:OrderedDict({'a': 1, 'b': {'c': 2, 'd': {'e': 4, "
 "'f': [1, 2, 3]}}, 'l': [10, 20, {'x': 'y'}], 'n': None, 's': 'text', 'ab': {'cd': 5}, 0: {1: {2: 'int "
 "keys'}}})",
 "move_items OrderedDict(3) left OrderedDict({'a': 1, 'b': {'c': 2, 'd': {'e': 4, 'f': [1, 2, 3]}}, 'l': "
 "[10, 20, {'x': 'y'}], 'n': None, 's': 'text', 'ab': {'cd': 5}, 0: {1: {2: 'int keys'}}})",
 "move_items OrderedDict(4) -> ok collections.OrderedDict:OrderedDict({'a': 1, 'b': {'c': 2, 'd': {'e': 4, "
 "'f': [1, 2, 3]}}, 'l': [10, 20, {'x': 'y'}], 'n': None, 's': 'text', 'ab': {'cd': 5}, 0: {1: {2: 'int "
 "keys'}}})",
 "move_items OrderedDict(4) left OrderedDict({'a': 1, 'b': {'c': 2, 'd': {'e': 4, 'f': [1, 2, 3]}}, 'l': "
 "[10, 20, {'x': 'y'}], 'n': None, 's': 'text', 'ab': {'cd': 5}, 0: {1: {2: 'int keys'}}})",
 "move_items OrderedDict(5) -> ok builtins.dict:{'a': 1, 'b': {'c': 2, 'd': {'f': [1, 2, 3]}}, 'l': [10, 20, "
 "{'x': 'y'}], 'n': None, 's': 'text', 'ab': {'cd': 5}, 0: {1: {2: 'int keys'}}, 'z': 4}",
 "move_items OrderedDict(5) left OrderedDict({'a': 1, 'b': {'c': 2, 'd': {'e': 4, 'f': [1, 2, 3]}}, 'l': "
 "[10, 20, {'x': 'y'}], 'n': None, 's': 'text', 'ab': {'cd': 5}, 0: {1: {2: 'int keys'}}})",
 "move_items OrderedDict(6) -> ok builtins.dict:{'a': 1, 'b': {'c': 2, 'd': {'e': 4}}, 'l': [10, 20, {'x': "
 "'y'}], 'n': None, 's': 'text', 'ab': {'cd': 5}, 0: {1: {2: 'int keys'}}, 'z': {'y': {'x': [1, 2, 3]}}}",
 "move_items OrderedDict(6) left OrderedDict({'a': 1, 'b': {'c': 2, 'd': {'e': 4, 'f': [1, 2, 3]}}, 'l': "
 "[10, 20, {'x': 'y'}], 'n': None, 's': 'text', 'ab': {'cd': 5}, 0: {1: {2: 'int keys'}}})",
 "move_items OrderedDict(7) -> ok builtins.dict:{'b': {'c': 1, 'd': {'e': 4, 'f': [1, 2, 3]}}, 'l': [10, 20, "
 "{'x': 'y'}], 'n': None, 's': 'text', 'ab': {'cd': 5}, 0: {1: {2: 'int keys'}}}",
 "move_items OrderedDict(7) left OrderedDict({'a': 1, 'b': {'c': 2, 'd': {'e': 4, 'f': [1, 2, 3]}}, 'l': "
 "[10, 20, {'x': 'y'}], 'n': None, 's': 'text', 'ab': {'cd': 5}, 0: {1: {2: 'int keys'}}})",
 "move_items defaultdict(0) -> ok collections.defaultdict:defaultdict(<class 'dict'>, {'a': 1, 'b': {'c': 2, "
 "'d': {'e': 4, 'f': [1, 2, 3]}}, 'l': [10, 20, {'x': 'y'}], 'n': None, 's': 'text', 'ab': {'cd': 5}, 0: {1: "
 "{2: 'int keys'}}})",
 "move_items defaultdict(0) left defaultdict(<class 'dict'>, {'a': 1, 'b': {'c': 2, 'd': {'e': 4, 'f': [1, "
 "2, 3]}}, 'l': [10, 20, {'x': 'y'}], 'n': None, 's': 'text', 'ab': {'cd': 5}, 0: {1: {2: 'int keys'}}})",
 "move_items defaultdict(1) -> ok builtins.dict:{'b': {'c': 2, 'd': 1}, 'l': [10, 20, {'x': 'y'}], 'n': "
 "None, 's': 'text', 'ab': {'cd': 5}, 0: {1: {2: 'int keys'}}}",
 "move_items defaultdict(1) left defaultdict(<class 'dict'>, {'a': 1, 'b': {'c': 2, 'd': {'e': 4, 'f': [1, "
 "2, 3]}}, 'l': [10, 20, {'x': 'y'}], 'n': None, 's': 'text', 'ab': {'cd': 5}, 0: {1: {2: 'int keys'}}})",
 "move_items defaultdict(2) -> ok builtins.dict:{'a': 1, 'b': {'d': {'e': 4, 'f': [1, 2, 3]}}, 'l': [10, 20, "
 "{'x': 'y'}], 'n': None, 's': 'text', 'ab': {'cd': 5}, 0: {1: {2: 'int keys'}}, 'd': 2}",
 "move_items defaultdict(2) left defaultdict(<class 'dict'>, {'a': 1, 'b': {'c': 2, 'd': {'e': 4, 'f': [1, "
 "2, 3]}}, 'l': [10, 20, {'x': 'y'}], 'n': None, 's': 'text', 'ab': {'cd': 5}, 0: {1: {2: 'int keys'}}})",
 "move_items defaultdict(3) -> ok builtins.dict:{'a': 1, 'b': {'c': 2, 'd': {'e': 4, 'f': [1, 2, 3]}}, 'l': "
 "[10, 20, {'x': 'y'}], 'n': None, 's': 'text', 'ab': {'cd': 5}, 0: {1: {2: 'int keys'}}, 'd': {}}",
 "move_items defaultdict(3) left defaultdict(<class 'dict'>, {'a': 1, 'b': {'c': 2, 'd': {'e': 4, 'f': [1, "
 "2, 3]}}, 'l': [10, 20, {'x': 'y'}], 'n': None, 's': 'text', 'ab': {'cd': 5}, 0: {1: {2: 'int keys'}}, 'e': "
 '{}})',
 "move_items defaultdict(4) -> ok collections.defaultdict:defaultdict(<class 'dict'>, {'a': 1, 'b': {'c': 2, "
 "'d': {'e': 4, 'f': [1, 2, 3]}}, 'l': [10, 20, {'x': 'y'}], 'n': None, 's': 'text', 'ab': {'cd': 5}, 0: {1: "
 "{2: 'int keys'}}, 'e': {}})",
 "move_items defaultdict(4) left defaultdict(<class 'dict'>, {'a': 1, 'b': {'c': 2, 'd': {'e': 4, 'f': [1, "
 "2, 3]}}, 'l': [10, 20, {'x': 'y'}], 'n': None, 's': 'text', 'ab': {'cd': 5}, 0: {1: {2: 'int keys'}}, 'e': "
 '{}})',
 "move_items defaultdict(5) -> ok builtins.dict:{'a': 1, 'b': {'c': 2, 'd': {'f': [1, 2, 3]}}, 'l': [10, 20, "
 "{'x': 'y'}], 'n': None, 's': 'text', 'ab': {'cd': 5}, 0: {1: {2: 'int keys'}}, 'e': {}, 'z': 4}",
 "move_items defaultdict(5) left defaultdict(<class 'dict'>, {'a': 1, 'b': {'c': 2, 'd': {'e': 4, 'f': [1, "
 "2, 3]}}, 'l': [10, 20, {'x': 'y'}], 'n': None, 's': 'text', 'ab': {'cd': 5}, 0: {1: {2: 'int keys'}}, 'e': "
 '{}})',
 "move_items defaultdict(6) -> ok builtins.dict:{'a': 1, 'b': {'c': 2, 'd': {'e': 4}}, 'l': [10, 20, {'x': "
 "'y'}], 'n': None, 's': 'text', 'ab': {'cd': 5}, 0: {1: {2: 'int keys'}}, 'e': {}, 'z': {'y': {'x': [1, 2, "
 '3]}}}',
 "move_items defaultdict(6) left defaultdict(<class 'dict'>, {'a': 1, 'b': {'c': 2, 'd': {'e': 4, 'f': [1, "
 "2, 3]}}, 'l': [10, 20, {'x': 'y'}], 'n': None, 's': 'text', 'ab': {'cd': 5}, 0: {1: {2: 'int keys'}}, 'e': "
 '{}})',
 "move_items defaultdict(7) -> ok builtins.dict:{'b': {'c': 1, 'd': {'e': 4, 'f': [1, 2, 3]}}, 'l': [10, 20, "
 "{'x': 'y'}], 'n': None, 's': 'text', 'ab': {'cd': 5}, 0: {1: {2: 'int keys'}}, 'e': {}}",
 "move_items defaultdict(7) left defaultdict(<class 'dict'>, {'a': 1, 'b': {'c': 2, 'd': {'e': 4, 'f': [1, "
 "2, 3]}}, 'l': [10, 20, {'x': 'y'}], 'n': None, 's': 'text', 'ab': {'cd': 5}, 0: {1: {2: 'int keys'}}, 'e': "
 '{}})',
 'move_items proxy(0) -> raised builtins.TypeError:TypeError("cannot pickle \'mappingproxy\' object") '
 'cause=builtins.NoneType:None context=NoneType suppress=False',
 "move_items proxy(0) left mappingproxy({'a': 1, 'b': {'c': 2, 'd': {'e': 4, 'f': [1, 2, 3]}}, 'l': [10, 20, "
 "{'x': 'y'}], 'n': None, 's': 'text', 'ab': {'cd': 5}, 0: {1: {2: 'int keys'}}})",
 "move_items proxy(1) -> ok builtins.dict:{'b': {'c': 2, 'd': 1}, 'l': [10, 20, {'x': 'y'}], 'n': None, 's': "
 "'text', 'ab': {'cd': 5}, 0: {1: {2: 'int keys'}}}",
 "move_items proxy(1) left mappingproxy({'a': 1, 'b': {'c': 2, 'd': {'e': 4, 'f': [1, 2, 3]}}, 'l': [10, 20, "
 "{'x': 'y'}], 'n': None, 's': 'text', 'ab': {'cd': 5}, 0: {1: {2: 'int keys'}}})",
 "move_items proxy(2) -> ok builtins.dict:{'a': 1, 'b': {'d': {'e': 4, 'f': [1, 2, 3]}}, 'l': [10, 20, {'x': "
 "'y'}], 'n': None, 's': 'text', 'ab': {'cd': 5}, 0: {1: {2: 'int keys'}}, 'd': 2}",
 "move_items proxy(2) left mappingproxy({'a': 1, 'b': {'c': 2, 'd': {'e': 4, 'f': [1, 2, 3]}}, 'l': [10, 20, "
 "{'x': 'y'}], 'n': None, 's': 'text', 'ab': {'cd': 5}, 0: {1: {2: 'int keys'}}})",
 'move_items proxy(3) -> raised builtins.TypeError:TypeError("cannot pickle \'mappingproxy\' object") '
 'cause=builtins.NoneType:None context=NoneType suppress=False',
 "move_items proxy(3) left mappingproxy({'a': 1, 'b': {'c': 2, 'd': {'e': 4, 'f': [1, 2, 3]}}, 'l': [10, 20, "
 "{'x': 'y'}], 'n': None, 's': 'text', 'ab': {'cd': 5}, 0: {1: {2: 'int keys'}}})",
 'move_items proxy(4) -> raised builtins.TypeError:TypeError("cannot pickle \'mappingproxy\' object") '
 'cause=builtins.NoneType:None context=NoneType suppress=False',
 "move_items proxy(4) left mappingproxy({'a': 1, 'b': {'c': 2, 'd': {'e': 4, 'f': [1, 2, 3]}}, 'l': [10, 20, "
 "{'x': 'y'}], 'n': None, 's': 'text', 'ab': {'cd': 5}, 0: {1: {2: 'int keys'}}})",
 "move_items proxy(5) -> ok builtins.dict:{'a': 1, 'b': {'c': 2, 'd': {'f': [1, 2, 3]}}, 'l': [10, 20, {'x': "
 "'y'}], 'n': None, 's': 'text', 'ab': {'cd': 5}, 0: {1: {2: 'int keys'}}, 'z': 4}",
 "move_items proxy(5) left mappingproxy({'a': 1, 'b': {'c': 2, 'd': {'e': 4, 'f': [1, 2, 3]}}, 'l': [10, 20, "
 "{'x': 'y'}], 'n': None, 's': 'text', 'ab': {'cd': 5}, 0: {1: {2: 'int keys'}}})",
 "move_items proxy(6) -> ok builtins.dict:{'a': 1, 'b': {'c': 2, 'd': {'e': 4}}, 'l': [10, 20, {'x': 'y'}], "
 "'n': None, 's': 'text', 'ab': {'cd': 5}, 0: {1: {2: 'int keys'}}, 'z': {'y': {'x': [1, 2, 3]}}}",
 "move_items proxy(6) left mappingproxy({'a': 1, 'b': {'c': 2, 'd': {'e': 4, 'f': [1, 2, 3]}}, 'l': [10, 20, "
 "{'x': 'y'}], 'n': None, 's': 'text', 'ab': {'cd': 5}, 0: {1: {2: 'int keys'}}})",
 "move_items proxy(7) -> ok builtins.dict:{'b': {'c': 1, 'd': {'e': 4, 'f': [1, 2, 3]}}, 'l': [10, 20, {'x': "
 "'y'}], 'n': None, 's': 'text', 'ab': {'cd': 5}, 0: {1: {2: 'int keys'}}}",
 "move_items proxy(7) left mappingproxy({'a': 1, 'b': {'c': 2, 'd': {'e': 4, 'f': [1, 2, 3]}}, 'l': [10, 20, "
 "{'x': 'y'}], 'n': None, 's': 'text', 'ab': {'cd': 5}, 0: {1: {2: 'int keys'}}})",
 'move_items empty(0) -> ok builtins.dict:{}',
 'move_items empty(0) left {}',
 'move_items empty(1) -> ok builtins.dict:{}',
 'move_items empty(1) left {}',
 'move_items empty(2) -> ok builtins.dict:{}',
 'move_items empty(2) left {}',
 'move_items empty(3) -> ok builtins.dict:{}',
 'move_items empty(3) left {}',
 'move_items empty(4) -> ok builtins.dict:{}',
 'move_items empty(4) left {}',
 'move_items empty(5) -> ok builtins.dict:{}',
 'move_items empty(5) left {}',
 'move_items empty(6) -> ok builtins.dict:{}',
 'move_items empty(6) left {}',
 'move_items empty(7) -> ok builtins.dict:{}',
 'move_items empty(7) left {}',
 'move_items list(0) -> ok builtins.list:[1, 2]',
 'move_items list(0) left [1, 2]',
 "move_items list(1) -> raised builtins.TypeError:TypeError('pop expected at most 1 argument, got 2') "
 'cause=builtins.NoneType:None context=NoneType suppress=False',
 'move_items list(1) left [1, 2]',
 'move_items list(2) -> ok builtins.list:[1, 2]',
 'move_items list(2) left [1, 2]',
 "move_items list(3) -> raised builtins.TypeError:TypeError('pop expected at most 1 argument, got 2') "
 'cause=builtins.NoneType:None context=NoneType suppress=False',
 'move_items list(3) left [1, 2]',
 'move_items list(4) -> ok builtins.list:[1, 2]',
 'move_items list(4) left [1, 2]',
 'move_items list(5) -> ok builtins.list:[1, 2]',
 'move_items list(5) left [1, 2]',
 'move_items list(6) -> ok builtins.list:[1, 2]',
 'move_items list(6) left [1, 2]',
 "move_items list(7) -> raised builtins.TypeError:TypeError('pop expected at most 1 argument, got 2') "
 'cause=builtins.NoneType:None context=NoneType suppress=False',
 'move_items list(7) left [1, 2]',
 'move_items None(0) -> ok builtins.NoneType:None',
 'move_items None(0) left None',
 'move_items None(1) -> raised builtins.AttributeError:AttributeError("\'NoneType\' object has no attribute '
 '\'pop\'") cause=builtins.NoneType:None context=NoneType suppress=False',
 'move_items None(1) left None',
 'move_items None(2) -> ok builtins.NoneType:None',
 'move_items None(2) left None',
 'move_items None(3) -> raised builtins.AttributeError:AttributeError("\'NoneType\' object has no attribute '
 '\'pop\'") cause=builtins.NoneType:None context=NoneType suppress=False',
 'move_items None(3) left None',
 'move_items None(4) -> ok builtins.NoneType:None',
 'move_items None(4) left None',
 'move_items None(5) -> ok builtins.NoneType:None',
 'move_items None(5) left None',
 'move_items None(6) -> ok builtins.NoneType:None',
 'move_items None(6) left None',
 'move_items None(7) -> raised builtins.AttributeError:AttributeError("\'NoneType\' object has no attribute '
 '\'pop\'") cause=builtins.NoneType:None context=NoneType suppress=False',
 'move_items None(7) left None',
 "ok builtins.dict:{'q': 1}",
 'raised builtins.AttributeError:AttributeError("\'list\' object has no attribute \'items\'") '
 'cause=builtins.NoneType:None context=NoneType suppress=False',
 'raised builtins.AttributeError:AttributeError("\'NoneType\' object has no attribute \'items\'") '
 'cause=builtins.NoneType:None context=NoneType suppress=False',
 "ok builtins.dict:{'a': <sentinel>}",
 'identity copy=True move=False',
 "moved {'q': {'deep': [1]}} mapping {'a': {'deep': [1]}}",
 "key_exists('a') -> ok builtins.bool:True",
 "key_exists('z') -> ok builtins.bool:False",
 "key_exists('b.c') -> ok builtins.bool:True",
 "key_exists('a.b') -> ok builtins.bool:False",
 "key_exists('b.d.e') -> ok builtins.bool:True",
 "key_exists('b.d.f') -> ok builtins.bool:False",
 "key_exists('b.d.e.f') -> ok builtins.bool:False",
 "key_exists('b.') -> ok builtins.bool:True",
 "key_exists('.b') -> ok builtins.bool:False",
 "key_exists('.') -> ok builtins.bool:True",
 "key_exists('..') -> ok builtins.bool:False",
 "key_exists('') -> ok builtins.bool:True",
 "key_exists('b..') -> ok builtins.bool:True",
 "key_exists('l.0') -> ok builtins.bool:False",
 "key_exists('l.1.x') -> ok builtins.bool:False",
 "key_exists('n') -> ok builtins.bool:True",
 "key_exists('n.x') -> ok builtins.bool:False",
 "key_exists('s') -> ok builtins.bool:False",
 "key_exists('str') -> ok builtins.bool:True",
 "key_exists('str.0') -> ok builtins.bool:False",
 "key_exists(['b', 'd', 'e']) -> ok builtins.bool:True",
 "key_exists(['a', 'b']) -> ok builtins.bool:False",
 "key_exists(['a.b']) -> ok builtins.bool:True",
 "key_exists(['b.c']) -> ok builtins.bool:False",
 'key_exists([]) -> ok builtins.bool:True',
 "key_exists(['l', 0]) -> ok builtins.bool:True",
 "key_exists(['l', 1, 'x']) -> ok builtins.bool:True",
 "key_exists(['l', 2]) -> ok builtins.bool:False",
 "key_exists(['l', 'x']) -> ok builtins.bool:False",
 "key_exists(['str', 0]) -> ok builtins.bool:True",
 "key_exists(['str', 5]) -> ok builtins.bool:False",
 'key_exists([5, 6]) -> ok builtins.bool:True',
 'key_exists([5, 7]) -> ok builtins.bool:False',
 'key_exists([None]) -> ok builtins.bool:True',
 "key_exists([('t', 'u')]) -> ok builtins.bool:True",
 "key_exists([['unhashable']]) -> ok builtins.bool:False",
 'key_exists([\'.\', \'a\']) -> raised builtins.AttributeError:AttributeError("\'list\' object has no '
 'attribute \'split\'") cause=builtins.NoneType:None context=NoneType suppress=False',
 'key_exists([\'.\']) -> raised builtins.AttributeError:AttributeError("\'list\' object has no attribute '
 '\'split\'") cause=builtins.NoneType:None context=NoneType suppress=False',
 'key_exists([\'a\', \'.\']) -> raised builtins.AttributeError:AttributeError("\'list\' object has no '
 'attribute \'split\'") cause=builtins.NoneType:None context=NoneType suppress=False',
 "key_exists(('t', 'u')) -> ok builtins.bool:True",
 "key_exists(('a',)) -> ok builtins.bool:False",
 "key_exists(('b', 'c')) -> ok builtins.bool:False",
 'key_exists((\'.\', \'a\')) -> raised builtins.AttributeError:AttributeError("\'tuple\' object has no '
 'attribute \'split\'") cause=builtins.NoneType:None context=NoneType suppress=False',
 'key_exists(5) -> raised builtins.TypeError:TypeError("argument of type \'int\' is not iterable") '
 'cause=builtins.NoneType:None context=NoneType suppress=False',
 'key_exists(None) -> raised builtins.TypeError:TypeError("argument of type \'NoneType\' is not iterable") '
 'cause=builtins.NoneType:None context=NoneType suppress=False',
 'key_exists(1.5) -> raised builtins.TypeError:TypeError("argument of type \'float\' is not iterable") '
 'cause=builtins.NoneType:None context=NoneType suppress=False',
 'key_exists(b\'a\') -> raised builtins.TypeError:TypeError("a bytes-like object is required, not \'str\'") '
 'cause=builtins.NoneType:None context=NoneType suppress=False',
 'key_exists(b\'a.b\') -> raised builtins.TypeError:TypeError("a bytes-like object is required, not '
 '\'str\'") cause=builtins.NoneType:None context=NoneType suppress=False',
 "key_exists(frozenset({'a'})) -> ok builtins.bool:False",
 'key_exists(frozenset({\'.\'})) -> raised builtins.AttributeError:AttributeError("\'frozenset\' object has '
 'no attribute \'split\'") cause=builtins.NoneType:None context=NoneType suppress=False',
 "key_exists({'a': 1}) -> ok builtins.bool:False",
 'key_exists({\'.\': 1}) -> raised builtins.AttributeError:AttributeError("\'dict\' object has no attribute '
 '\'split\'") cause=builtins.NoneType:None context=NoneType suppress=False',
 'key_exists(range(0, 3)) -> ok builtins.bool:False',
 "key_exists('a', empty) -> ok builtins.bool:False",
 "key_exists('a.b', empty) -> ok builtins.bool:False",
 "key_exists('a.c.d', empty) -> ok builtins.bool:False",
 "key_exists(['a', 'b'], empty) -> ok builtins.bool:False",
 "key_exists(['g'], empty) -> ok builtins.bool:False",
 "key_exists('g.attrs', empty) -> ok builtins.bool:False",
 'key_exists([0], empty) -> ok builtins.bool:False',
 "key_exists('0', empty) -> ok builtins.bool:False",
 "key_exists('a', list) -> ok builtins.bool:False",
 "key_exists('a.b', list) -> ok builtins.bool:False",
 "key_exists('a.c.d', list) -> ok builtins.bool:False",
 "key_exists(['a', 'b'], list) -> ok builtins.bool:False",
 "key_exists(['g'], list) -> ok builtins.bool:False",
 "key_exists('g.attrs', list) -> ok builtins.bool:False",
 'key_exists([0], list) -> ok builtins.bool:True',
 "key_exists('0', list) -> ok builtins.bool:False",
 "key_exists('a', None) -> ok builtins.bool:False",
 "key_exists('a.b', None) -> ok builtins.bool:False",
 "key_exists('a.c.d', None) -> ok builtins.bool:False",
 "key_exists(['a', 'b'], None) -> ok builtins.bool:False",
 "key_exists(['g'], None) -> ok builtins.bool:False",
 "key_exists('g.attrs', None) -> ok builtins.bool:False",
 'key_exists([0], None) -> ok builtins.bool:False',
 "key_exists('0', None) -> ok builtins.bool:False",
 "key_exists('a', str) -> ok builtins.bool:False",
 "key_exists('a.b', str) -> ok builtins.bool:False",
 "key_exists('a.c.d', str) -> ok builtins.bool:False",
 "key_exists(['a', 'b'], str) -> ok builtins.bool:False",
 "key_exists(['g'], str) -> ok builtins.bool:False",
 "key_exists('g.attrs', str) -> ok builtins.bool:False",
 'key_exists([0], str) -> ok builtins.bool:True',
 "key_exists('0', str) -> ok builtins.bool:False",
 "key_exists('a', defaultdict) -> ok builtins.bool:True",
 "key_exists('a.b', defaultdict) -> ok builtins.bool:True",
 "key_exists('a.c.d', defaultdict) -> ok builtins.bool:False",
 "key_exists(['a', 'b'], defaultdict) -> ok builtins.bool:True",
 "key_exists(['g'], defaultdict) -> ok builtins.bool:True",
 "key_exists('g.attrs', defaultdict) -> ok builtins.bool:False",
 'key_exists([0], defaultdict) -> ok builtins.bool:True',
 "key_exists('0', defaultdict) -> ok builtins.bool:True",
 "defaultdict left {'a': {'b': 1}, 'g': {}, 0: {}, '0': {}}",
 "key_exists('a', Group) -> ok builtins.bool:False",
 "key_exists('a.b', Group) -> ok builtins.bool:False",
 "key_exists('a.c.d', Group) -> ok builtins.bool:False",
 "key_exists(['a', 'b'], Group) -> ok builtins.bool:False",
 "key_exists(['g'], Group) -> ok builtins.bool:True",
 "key_exists('g.attrs', Group) -> ok builtins.bool:False",
 'key_exists([0], Group) -> ok builtins.bool:False',
 "key_exists('0', Group) -> ok builtins.bool:False",
 "key_exists('a.b.c', logged) -> ok builtins.bool:True",
 "key_exists('a.q.c', logged) -> ok builtins.bool:False",
 "key_exists('x.y', logged) -> ok builtins.bool:False",
 "key_exists(['a', 'b'], logged) -> ok builtins.bool:True",
 "key_exists('q', logged) -> ok builtins.bool:False",
 'log ["m[\'a\']", "m[\'a\'][\'b\']", "m[\'a\'][\'b\'][\'c\']", "m[\'a\']", "m[\'a\'][\'q\']", "m[\'x\']", '
 '"m[\'a\']", "m[\'a\'][\'b\']", "m[\'q\']"]',
 'ok builtins.bool:True',
 'ok builtins.bool:False']  # @@EXPECTED@@


def test_equivalence():
    observed = observe()
    assert len(observed) == len(EXPECTED)
    for actual, expected in zip(observed, EXPECTED):
        assert actual == expected
    assert observed == EXPECTED


if __name__ == "__main__":
    if "--record" in sys.argv:
        print(repr(observe()))
    else:
        test_equivalence()
        print(f"OK: {len(EXPECTED)} observations identical")
